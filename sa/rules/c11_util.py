"""Helpers of the C11 pack: callee resolution + classification of library calls by effect,
three-valued evaluation of guards, guard-aware CFG reachability, DESTDIR-rootedness demands,
strip-set algebra of str transform chains, tiny integer folding over enumerated atoms.

Nothing here executes repository code; every function works on `ast` nodes of /repo sources.
"""
from __future__ import annotations

import ast
import typing as T

from ..core import Module, Undecided, AnalysisError, attr_chain, norm, short, walk_no_nested
from ..cfg import CFG, Node
from ..flow import Flow

FuncNode = T.Union[ast.FunctionDef, ast.AsyncFunctionDef]

# --------------------------------------------------------------------------------------------
# reference: effect class of the standard-library / meson callables minstall.py may use
# (provenance: Python library reference, os / shutil / subprocess; meson: scripts/depfixer.py,
#  utils/universal.py Popen_safe, scripts/meson_exe.py run_exe).
#   'fs'      mutates the file system or spawns a process that may
#   'process' changes state of the installing process only (umask, cwd, uid, exec)
#   'pure'    reads
# position of the *destination* path among the positional parameters, and its keyword name
MUTATORS: T.Dict[str, T.List[T.Tuple[int, str]]] = {
    'os.remove': [(0, 'path')], 'os.unlink': [(0, 'path')], 'os.rmdir': [(0, 'path')], 'os.removedirs': [(0, 'name')],
    'os.symlink': [(1, 'dst')], 'os.link': [(1, 'dst')], 'os.makedirs': [(0, 'name')], 'os.mkdir': [(0, 'path')],
    'os.chmod': [(0, 'path')], 'os.lchmod': [(0, 'path')], 'os.chown': [(0, 'path')], 'os.lchown': [(0, 'path')],
    'os.rename': [(0, 'src'), (1, 'dst')], 'os.renames': [(0, 'old'), (1, 'new')], 'os.replace': [(0, 'src'), (1, 'dst')],
    'os.truncate': [(0, 'path')], 'os.utime': [(0, 'path')], 'os.mkfifo': [(0, 'path')], 'os.mknod': [(0, 'path')],
    'os.system': [], 'os.popen': [], 'os.startfile': [],
    'shutil.copy': [(1, 'dst')], 'shutil.copy2': [(1, 'dst')], 'shutil.copyfile': [(1, 'dst')], 'shutil.copystat': [(1, 'dst')],
    'shutil.copymode': [(1, 'dst')], 'shutil.copytree': [(1, 'dst')], 'shutil.move': [(0, 'src'), (1, 'dst')],
    'shutil.rmtree': [(0, 'path')], 'shutil.chown': [(0, 'path')], 'shutil.copyfileobj': [],
    'shutil.make_archive': [], 'shutil.unpack_archive': [],
    'subprocess.run': [], 'subprocess.call': [], 'subprocess.check_call': [], 'subprocess.check_output': [], 'subprocess.Popen': [],
    'mesonbuild.scripts.depfixer.fix_rpath': [(0, 'fname')],
    'mesonbuild.mesonlib.Popen_safe': [], 'mesonbuild.utils.universal.Popen_safe': [],
    'mesonbuild.scripts.meson_exe.run_exe': [],
}
CREATORS = {'os.symlink', 'os.link', 'shutil.copy', 'shutil.copy2', 'shutil.copyfile', 'shutil.copytree', 'shutil.move', 'os.rename', 'os.replace'}
DIR_CREATORS = {'os.makedirs', 'os.mkdir'}
PROCESS = {'os.umask', 'os.chdir', 'os.setuid', 'os.setgid', 'os.seteuid', 'os.setegid', 'os.execlp', 'os.execl', 'os.execv', 'os.execvp',
           'os.execve', 'os.execvpe', 'os.execle', 'os.execlpe', 'os.putenv'}
PURE = {'os.stat', 'os.lstat', 'os.walk', 'os.listdir', 'os.scandir', 'os.getcwd', 'os.isatty', 'os.geteuid', 'os.getuid', 'os.getgid',
        'os.getegid', 'os.fspath', 'os.access', 'os.readlink', 'os.getenv', 'os.environ', 'os.sep', 'os.pathsep', 'os.name', 'os.PathLike',
        'os.getpid', 'os.cpu_count', 'os.linesep', 'os.altsep', 'os.curdir', 'os.pardir', 'os.devnull', 'os.fsencode', 'os.fsdecode',
        'shutil.which', 'shutil.get_terminal_size', 'shutil.disk_usage', 'shutil.Error', 'shutil.SameFileError',
        'subprocess.CalledProcessError', 'subprocess.PIPE', 'subprocess.DEVNULL', 'subprocess.STDOUT', 'subprocess.TimeoutExpired',
        'subprocess.CompletedProcess', 'subprocess.list2cmdline'}
LIBS = ('os', 'shutil', 'subprocess')
# meson's own helpers that Installer / DirMaker may reference: they read or construct, never write
MESON_PURE = {
    'mesonbuild.mesonlib.MesonException', 'mesonbuild.mesonlib.InstallScriptFailure', 'mesonbuild.mesonlib.is_windows',
    'mesonbuild.mesonlib.path_has_root', 'mesonbuild.mesonlib.unwrap', 'mesonbuild.scripts.destdir_join',
    'mesonbuild.backend.backends.InstallData', 'mesonbuild.options.OptionKey', 'mesonbuild.mesonlib.pickle_load',
}


_IMPORTS: T.Dict[int, T.Tuple[Module, T.Dict[str, str]]] = {}


def imports(mod: Module) -> T.Dict[str, str]:
    """mod.imports() walks the whole tree on every call; memoise per Module object."""
    hit = _IMPORTS.get(id(mod))
    if hit is None or hit[0] is not mod:
        if len(_IMPORTS) > 64:
            _IMPORTS.clear()
        hit = (mod, mod.imports())
        _IMPORTS[id(mod)] = hit
    return hit[1]


def dotted(mod: Module, node: ast.AST, imports: T.Optional[T.Dict[str, str]] = None) -> T.Optional[str]:
    """Resolved dotted name of a Name/Attribute chain through the module's import table."""
    c = attr_chain(node)
    if c is None:
        return None
    imps = imports if imports is not None else globals()['imports'](mod)
    head, _, tail = c.partition('.')
    if head in imps:
        return imps[head] + ('.' + tail if tail else '')
    return c


def open_mode(call: ast.Call) -> T.Optional[str]:
    """Mode of a builtin open() call ('r' when omitted); Undecided when not a constant."""
    m: T.Optional[ast.AST] = call.args[1] if len(call.args) > 1 else None
    for k in call.keywords:
        if k.arg == 'mode':
            m = k.value
        if k.arg is None:
            raise Undecided(f'open(**kw): mode not decidable: {short(call)}')
    if m is None:
        return 'r'
    if isinstance(m, ast.Constant) and isinstance(m.value, str):
        return m.value
    raise Undecided(f'open() with a non-constant mode: {short(call)}')


class Ref(T.NamedTuple):
    name: str           # resolved dotted name ('os.remove', 'open:w', 'minstall:set_mode')
    cls: str            # 'fs' | 'process'
    node: ast.AST       # the Name/Attribute (or the open Call)
    call: T.Optional[ast.Call]   # the Call when the reference is the callee of a call


def _parents(root: ast.AST) -> T.Dict[ast.AST, ast.AST]:
    pm: T.Dict[ast.AST, ast.AST] = {}
    for n in ast.walk(root):
        for ch in ast.iter_child_nodes(n):
            pm[ch] = n
    return pm


def _annotation_nodes(root: ast.AST) -> T.Set[int]:
    out: T.Set[int] = set()
    for n in ast.walk(root):
        anns: T.List[T.Optional[ast.AST]] = []
        if isinstance(n, (ast.FunctionDef, ast.AsyncFunctionDef)):
            a = n.args
            anns += [x.annotation for x in a.posonlyargs + a.args + a.kwonlyargs] + [n.returns]
            anns += [x.annotation for x in (a.vararg, a.kwarg) if x is not None]
        elif isinstance(n, ast.AnnAssign):
            anns.append(n.annotation)
        for an in anns:
            if an is not None:
                out |= {id(x) for x in ast.walk(an)}
    return out


def effect_refs(mod: Module, root: ast.AST, local_mutating: T.Iterable[str] = (), nested: bool = True, strict_meson: bool = False) -> T.List[Ref]:
    """Every *reference* (call or not: an alias `rm = os.remove` counts) inside `root` to a callable that
    mutates the file system / process state.  Unknown members of os/shutil/subprocess -> Undecided; with
    `strict_meson` also every imported mesonbuild.* name that is neither classified as mutator nor listed as pure."""
    imps = imports(mod)
    local = set(local_mutating)
    out: T.List[Ref] = []
    pm = _parents(root)
    ann = _annotation_nodes(root)
    it = ast.walk(root) if nested else walk_no_nested(root)
    for n in it:
        if id(n) in ann:
            continue
        if isinstance(n, ast.Call) and isinstance(n.func, ast.Name) and n.func.id == 'open' and 'open' not in imps:
            md = open_mode(n)
            if any(ch in md for ch in 'wax+'):
                out.append(Ref('open:' + md, 'fs', n, n))
            continue
        if not isinstance(n, (ast.Name, ast.Attribute)):
            continue
        par = pm.get(n)
        if isinstance(par, ast.Attribute) and par.value is n:
            continue   # only maximal chains
        if isinstance(n, ast.Name) and not isinstance(n.ctx, ast.Load):
            continue
        d = dotted(mod, n, imps)
        if d is None:
            continue
        call = par if isinstance(par, ast.Call) and par.func is n else None
        if isinstance(n, ast.Attribute) and not isinstance(n.ctx, ast.Load):
            # `os.chown = chown` (monkey patch inside a helper): a write to the library, treat as reference
            call = None
        head = d.split('.')[0]
        if isinstance(n, ast.Name) and n.id in local and n.id not in imps:
            out.append(Ref('minstall:' + n.id, 'fs', n, call))
            continue
        if d in MUTATORS:
            out.append(Ref(d, 'fs', n, call))
        elif d in PROCESS:
            out.append(Ref(d, 'process', n, call))
        elif head in LIBS and isinstance(n, ast.Attribute) and imps.get(attr_chain(n).split('.')[0]) == head:  # type: ignore[union-attr]
            if d in PURE or d.startswith('os.path.') or d == 'os.path' or d.startswith('os.environ.') or d.startswith('os.stat_result'):
                continue
            # `os.stat(...).st_mode` style chains: classify by the longest known prefix
            parts = d.split('.')
            known = False
            for i in range(len(parts), 1, -1):
                p = '.'.join(parts[:i])
                if p in PURE or p.startswith('os.path.') or p.startswith('os.environ'):
                    known = True
                    break
            if known:
                continue
            raise Undecided(f'{mod.rel}: `{d}` is not in the effect classification table of the C11 pack (line {getattr(n, "lineno", 0)})')
        elif d.startswith('mesonbuild.scripts.depfixer.'):
            raise Undecided(f'{mod.rel}: depfixer member `{d}` is not classified')
        elif strict_meson and d.startswith('mesonbuild.') and head == 'mesonbuild' and attr_chain(n).split('.')[0] in imps:  # type: ignore[union-attr]
            base = d
            if base not in MESON_PURE and not any(base.startswith(p_ + '.') for p_ in MESON_PURE):
                raise Undecided(f'{mod.rel}: `{d}` (line {getattr(n, "lineno", 0)}) is used inside the installer but is not in the effect classification '
                                f'of the C11 pack (neither a known mutator nor listed as pure)')
    return out


# --------------------------------------------------------------------------------------------
# three-valued guards

def _variants(e: ast.AST) -> T.List[str]:
    return [norm(e)]


def tv(e: ast.AST, facts: T.Dict[str, bool], alias: T.Optional[T.Dict[str, ast.AST]] = None, depth: int = 0) -> T.Optional[bool]:
    """Kleene truth value of `e` given `facts` (normalised text of an atom -> value)."""
    if depth > 6:
        return None
    if isinstance(e, ast.UnaryOp) and isinstance(e.op, ast.Not):
        v = tv(e.operand, facts, alias, depth)
        return None if v is None else not v
    if isinstance(e, ast.BoolOp):
        vals = [tv(x, facts, alias, depth) for x in e.values]
        if isinstance(e.op, ast.And):
            if any(v is False for v in vals):
                return False
            return True if all(v is True for v in vals) else None
        if any(v is True for v in vals):
            return True
        return False if all(v is False for v in vals) else None
    if isinstance(e, ast.Constant):
        return bool(e.value)
    if isinstance(e, ast.IfExp):
        c = tv(e.test, facts, alias, depth)
        a, b = tv(e.body, facts, alias, depth), tv(e.orelse, facts, alias, depth)
        if c is True:
            return a
        if c is False:
            return b
        return a if a == b else None
    key = norm(e)
    if key in facts:
        return facts[key]
    if isinstance(e, ast.Compare) and len(e.ops) == 1:
        a, b = norm(e.left), norm(e.comparators[0])
        op = e.ops[0]
        for x, y in ((a, b), (b, a)):
            if isinstance(op, ast.NotEq) and f'{x} == {y}' in facts:
                return not facts[f'{x} == {y}']
            if isinstance(op, ast.Eq) and f'{x} != {y}' in facts:
                return not facts[f'{x} != {y}']
            if isinstance(op, (ast.Eq, ast.NotEq)) and f'{x} {"==" if isinstance(op, ast.Eq) else "!="} {y}' in facts:
                return facts[f'{x} {"==" if isinstance(op, ast.Eq) else "!="} {y}']
        if isinstance(op, ast.Is) and f'{a} is not {b}' in facts:
            return not facts[f'{a} is not {b}']
        if isinstance(op, ast.IsNot) and f'{a} is {b}' in facts:
            return not facts[f'{a} is {b}']
    if isinstance(e, ast.Name) and alias and e.id in alias:
        return tv(alias[e.id], facts, alias, depth + 1)
    return None


def single_def_aliases(fn: FuncNode) -> T.Dict[str, ast.AST]:
    """Locals with exactly one binding `x = <expr>` in the function (used to see through `dry = self.dry_run`)."""
    defs: T.Dict[str, T.List[T.Optional[ast.AST]]] = {}
    params = {a.arg for a in fn.args.posonlyargs + fn.args.args + fn.args.kwonlyargs}
    for n in walk_no_nested(fn):
        if isinstance(n, ast.Assign) and len(n.targets) == 1 and isinstance(n.targets[0], ast.Name):
            defs.setdefault(n.targets[0].id, []).append(n.value)
        elif isinstance(n, ast.Name) and isinstance(n.ctx, (ast.Store, ast.Del)):
            defs.setdefault(n.id, []).append(None)
    out: T.Dict[str, ast.AST] = {}
    for k, v in defs.items():
        # an `x = e` statement contributes the value once and the Store name once
        vals = [x for x in v if x is not None]
        if len(vals) == 1 and len(v) == 2 and k not in params:
            out[k] = vals[0]
    return out


def feasible_reach(cfg: CFG, start: T.Iterable[Node], facts: T.Dict[str, bool], alias: T.Optional[T.Dict[str, ast.AST]] = None,
                   avoid: T.Iterable[Node] = (), skip_labels: T.Iterable[T.Any] = (), include_start: bool = False,
                   no_exc: bool = False) -> T.Set[int]:
    """Nodes reachable when every branch whose test is decided by `facts` only takes the decided arm."""
    skip = set(skip_labels)

    def edge_ok(a: Node, b: Node, lab: T.Any) -> bool:
        if lab in skip and a.kind == 'iter':
            return False
        if no_exc and lab == 'exc':
            return False
        if a.kind == 'test' and lab in (True, False):
            v = tv(a.ast.test, facts, alias)  # type: ignore[union-attr]
            if v is not None and v != lab:
                return False
        return True
    return cfg.reachable(list(start), avoid, edge_ok=edge_ok, include_start=include_start)


def expression_guarded(stmt_root: ast.AST, node: ast.AST) -> bool:
    """True when `node` sits in a short-circuit / conditional / comprehension position inside its own statement
    (an expression-level guard the statement-level CFG does not see)."""
    pm = _parents(stmt_root)
    cur = node
    while cur in pm:
        par = pm[cur]
        if isinstance(par, ast.BoolOp) and par.values[0] is not cur:
            return True
        if isinstance(par, ast.IfExp) and par.test is not cur:
            return True
        if isinstance(par, (ast.ListComp, ast.SetComp, ast.DictComp, ast.GeneratorExp, ast.Lambda)):
            return True
        cur = par
    return False


def node_of(cfg: CFG, sub: ast.AST) -> T.List[Node]:
    ns = cfg.node_containing(sub)
    if not ns:
        raise Undecided(f'construct at line {getattr(sub, "lineno", 0)} is not on the CFG (dead code or nested definition): {short(sub)}')
    return ns


# --------------------------------------------------------------------------------------------
# argument binding

def params_of(fn: FuncNode, drop_self: bool = True) -> T.List[str]:
    ps = [a.arg for a in fn.args.posonlyargs + fn.args.args]
    if drop_self and ps and ps[0] in ('self', 'cls'):
        ps = ps[1:]
    return ps


def bind_args(call: ast.Call, fn: FuncNode, drop_self: bool = True) -> T.Dict[str, ast.AST]:
    """param name -> argument expression at this call site (defaults are not included)."""
    ps = params_of(fn, drop_self)
    kwonly = [a.arg for a in fn.args.kwonlyargs]
    out: T.Dict[str, ast.AST] = {}
    for i, a in enumerate(call.args):
        if isinstance(a, ast.Starred):
            raise Undecided(f'star-argument at a call that must be bound positionally: {short(call)}')
        if i >= len(ps):
            raise Undecided(f'too many positional arguments for {fn.name}: {short(call)}')
        out[ps[i]] = a
    for k in call.keywords:
        if k.arg is None:
            raise Undecided(f'**kwargs at a call that must be bound: {short(call)}')
        if k.arg not in ps and k.arg not in kwonly:
            raise Undecided(f'unknown keyword {k.arg} for {fn.name}: {short(call)}')
        out[k.arg] = k.value
    return out


def call_arg(call: ast.Call, pos: int, kw: T.Union[str, T.Iterable[str]]) -> T.Optional[ast.AST]:
    """The argument at positional index `pos` or given by (one of) the keyword name(s) `kw`; None when absent or behind a star."""
    names = {kw} if isinstance(kw, str) else set(kw)
    if any(isinstance(a, ast.Starred) for a in call.args[:pos + 1]):
        return None
    if pos < len(call.args):
        return call.args[pos]
    for k in call.keywords:
        if k.arg in names:
            return k.value
    return None


def canon_call(call: ast.Call, fn: FuncNode, drop_self: bool = True) -> str:
    """`f(a, y=b)` and `f(x=a, y=b)` as one text: every argument as keyword, in signature order."""
    try:
        b = bind_args(call, fn, drop_self)
    except Undecided:
        return norm(call)
    order = params_of(fn, drop_self) + [a.arg for a in fn.args.kwonlyargs]
    return f'{norm(call.func)}(' + ', '.join(f'{p}={norm(b[p])}' for p in order if p in b) + ')'


def forwards_varargs(fn: FuncNode, call: ast.Call) -> bool:
    """`def w(self, *args, **kwargs): ... prim(*args, **kwargs)`: positions are preserved."""
    va, kw = fn.args.vararg, fn.args.kwarg
    if va is None or params_of(fn):
        return False
    if len(call.args) != 1 or not isinstance(call.args[0], ast.Starred) or norm(call.args[0].value) != va.arg:
        return False
    if kw is None:
        return not call.keywords
    return len(call.keywords) == 1 and call.keywords[0].arg is None and norm(call.keywords[0].value) == kw.arg


def forwards_params(fn: FuncNode, call: ast.Call) -> bool:
    """The call passes the function's own positional parameters, in order, as its leading positional arguments."""
    ps = params_of(fn)
    got = [norm(a) for a in call.args]
    return got[:len(ps)] == ps[:len(got)] and len(got) <= len(ps) or got == ps


# --------------------------------------------------------------------------------------------
# DESTDIR rootedness (must-analysis over all bindings of a name)

class NotRooted(Exception):
    def __init__(self, expr: ast.AST, why: str):
        super().__init__(why)
        self.expr = expr
        self.why = why


Demand = T.Tuple[str, str]   # (parameter, 'rooted' | 'destdir')

PATH_KEEP = {'os.path.dirname', 'os.path.normpath', 'os.path.abspath', 'os.path.realpath', 'os.path.normcase', 'os.fspath', 'str'}
PATH_SPLIT = {'os.path.split', 'os.path.splitext'}
REL_CALLS = {'os.path.basename', 'os.path.relpath'}


class Rooting:
    """For one function: which parameters must be rooted under DESTDIR for an expression to be rooted.

    rooted(e) holds for  get_destdir_path(D, R, _) | destdir_join(D, _) | os.path.join(R, relative...) |
    dirname/normpath/split()[0]/splitext()[0] of R | R + 'const' | a local all of whose bindings are rooted |
    a parameter (then the demand is passed to every caller)."""

    def __init__(self, mod: Module, fn: FuncNode, rooters: T.Dict[str, str], neutral: T.Iterable[str] = ()):
        self.mod = mod
        self.fn = fn
        self.flow = Flow(fn, nested=False)
        self.params = set(self.flow.params)
        self.imps = imports(mod)
        self.rooters = rooters      # local function name -> 'get_destdir_path' | 'destdir_join'
        self.neutral = set(neutral)
        # names bound by `with DirMaker(...) as dm` / annotated DirMaker are not paths
        for a in fn.args.posonlyargs + fn.args.args + fn.args.kwonlyargs:
            if a.annotation is not None and norm(a.annotation).strip('\'"') in ('DirMaker',):
                self.neutral.add(a.arg)

    def _d(self, e: ast.AST) -> T.Optional[str]:
        return dotted(self.mod, e, self.imps)

    depth = 0

    def _callee(self, e: ast.Call) -> T.Optional[T.Tuple[str, FuncNode, bool]]:
        """A repository function of the same module (`f(...)`) or a method of the same class (`self.m(...)`) whose body can be read."""
        ch = attr_chain(e.func)
        if ch is None:
            return None
        if '.' not in ch and ch not in self.imps and self.mod.has_func(ch):
            return ch, self.mod.func(ch), False
        if ch.startswith('self.') and ch.count('.') == 1:
            meth = ch.split('.')[1]
            own = [q for q, f in self.mod.funcs().items() if f is self.fn]
            cls = own[0].rsplit('.', 1)[0] if own and '.' in own[0] else None
            if cls and self.mod.has_func(f'{cls}.{meth}'):
                return f'{cls}.{meth}', self.mod.func(f'{cls}.{meth}'), True
        return None

    def _record_fields(self, e: ast.Call) -> T.Optional[T.List[ast.AST]]:
        """Arguments of a call that constructs a plain record class of the same module (typing.NamedTuple subclass or @dataclass
        without an explicit __init__), in field order."""
        if not isinstance(e.func, ast.Name) or not self.mod.has_cls(e.func.id) or e.func.id in self.imps:
            return None
        c = self.mod.cls(e.func.id)
        is_nt = any((attr_chain(b) or '').split('.')[-1] == 'NamedTuple' for b in c.bases)
        is_dc = any((attr_chain(d.func if isinstance(d, ast.Call) else d) or '').split('.')[-1] == 'dataclass' for d in c.decorator_list)
        if not (is_nt or is_dc) or any(isinstance(st, (ast.FunctionDef, ast.AsyncFunctionDef)) and st.name in ('__init__', '__new__', '__post_init__') for st in c.body):
            return None
        fields = [st.target.id for st in c.body if isinstance(st, ast.AnnAssign) and isinstance(st.target, ast.Name)]
        if any(isinstance(a, ast.Starred) for a in e.args) or any(k.arg is None or k.arg not in fields for k in e.keywords) or len(e.args) > len(fields):
            return None
        return list(e.args) + [k.value for k in e.keywords]

    def sig(self, name: str, default: T.Tuple[str, ...]) -> T.Tuple[str, ...]:
        """Parameter names of the rooting helper (read from its definition, wherever it lives)."""
        if self.mod.has_func(name):
            return tuple(params_of(self.mod.func(name), drop_self=False))
        origin = self.imps.get(name, '')
        if origin.startswith('mesonbuild.'):
            try:
                m2 = self.mod.repo.module_by_dotted(origin.rsplit('.', 1)[0])
            except AnalysisError:
                m2 = None
            if m2 is not None and m2.has_func(name):
                return tuple(params_of(m2.func(name), drop_self=False))
        return default

    def need(self, e: ast.AST, busy: T.FrozenSet[str] = frozenset()) -> T.Set[Demand]:
        if isinstance(e, ast.Constant) and e.value is None:
            return set()
        if isinstance(e, ast.Name):
            if e.id in self.neutral:
                return set()
            if e.id in busy:
                return set()    # a cycle adds nothing that the other bindings do not already require
            defs = self.flow.defs.get(e.id, [])
            if e.id in self.params:
                out: T.Set[Demand] = {(e.id, 'rooted')}
                for v in defs:
                    out |= self.need(v, busy | {e.id})
                return out
            if not defs:
                raise NotRooted(e, f'`{e.id}` has no binding in {self.fn.name}')
            out = set()
            for v in defs:
                out |= self.need(v, busy | {e.id})
            return out
        if isinstance(e, ast.Call):
            d = self._d(e.func)
            base = (d or '').split('.')[-1]
            if d is not None and base in self.rooters and d.split('.')[0] != 'self':
                kind = self.rooters[base]
                if kind == 'get_destdir_path':
                    a0, a1, a2 = (call_arg(e, i, k) for i, k in enumerate(self.sig('get_destdir_path', ('destdir', 'fullprefix', 'path'))))
                    if a0 is None or a1 is None or a2 is None or len(e.args) + len(e.keywords) != 3:
                        raise Undecided(f'get_destdir_path call shape: {short(e)}')
                    return self.destdir(a0) | self.need(a1, busy)
                a0, a1 = (call_arg(e, i, k) for i, k in enumerate(self.sig('destdir_join', ('d1', 'd2'))))
                if a0 is None or a1 is None or len(e.args) + len(e.keywords) != 2:
                    raise Undecided(f'destdir_join call shape: {short(e)}')
                return self.destdir(a0)
            if d == 'os.path.join':
                if not e.args or e.keywords or any(isinstance(a, ast.Starred) for a in e.args):
                    raise NotRooted(e, 'os.path.join with star/keyword arguments')
                out = self.need(e.args[0], busy)
                for a in e.args[1:]:
                    if not self.relative(a, frozenset()):
                        raise NotRooted(e, f'component `{short(a)}` of the join is not known to be relative (an absolute component discards the rooted head)')
                return out
            if d in PATH_KEEP and len(e.args) == 1:
                return self.need(e.args[0], busy)
            rec = self._record_fields(e)
            if rec is not None:
                # a NamedTuple / dataclass record built from the arguments: rooted like the tuple of its fields
                out = set()
                for x in rec:
                    out |= self.need(x, busy)
                return out
            callee = self._callee(e)
            if callee is not None and self.depth < 2:
                q, cfn, drop = callee
                sub = Rooting(self.mod, cfn, self.rooters, self.neutral)
                sub.depth = self.depth + 1
                rets = [st.value for st in walk_no_nested(cfn) if isinstance(st, ast.Return) and st.value is not None]
                if not rets:
                    raise NotRooted(e, f'`{q}` returns nothing')
                bound = bind_args(e, cfn, drop)
                out = set()
                for rv in rets:
                    for p_, k_ in sub.need(rv):
                        if p_.startswith('<'):
                            raise Undecided(f'{q}: returns a value rooted in its own local DESTDIR')
                        if p_ not in bound:
                            raise NotRooted(e, f'`{q}` needs its parameter `{p_}` to be {k_}, the call does not pass it')
                        out |= self.need(bound[p_], busy) if k_ == 'rooted' else self.destdir(bound[p_])
                return out
            if isinstance(e.func, ast.Attribute) and e.func.attr in ('rstrip', 'strip', 'lstrip', 'removesuffix') and d is not None and d.split('.')[0] not in ('os', 'shutil'):
                return self.need(e.func.value, busy)       # trimming a rooted path keeps its root
            if d is None or not (d.startswith(('os.', 'shutil.', 'posixpath.', 'glob.')) or d in ('str', 'repr', 'format')):
                if isinstance(e.func, ast.Attribute) and attr_chain(e.func.value) is not None and '.' in (attr_chain(e.func.value) or '') and not (d or '').startswith('self.'):
                    raise NotRooted(e, f'result of `{d or short(e.func)}` (computed from install data) is not derived from DESTDIR')
                raise Undecided(f'destination computed by `{d or short(e.func)}`, a callee the rule cannot read')
            raise NotRooted(e, f'result of `{d or short(e.func)}` is not derived from DESTDIR')
        if isinstance(e, ast.Subscript):
            if isinstance(e.value, ast.Call) and self._d(e.value.func) in PATH_SPLIT and isinstance(e.slice, ast.Constant) and e.slice.value == 0:
                return self.need(e.value.args[0], busy)
            raise NotRooted(e, 'subscript is not split()[0]/splitext()[0] of a rooted path')
        if isinstance(e, ast.BinOp) and isinstance(e.op, ast.Add):
            if isinstance(e.right, ast.Constant) and isinstance(e.right.value, str) and '/' not in e.right.value and '\\' not in e.right.value:
                return self.need(e.left, busy)
            raise NotRooted(e, 'concatenation with a non-constant suffix')
        if isinstance(e, ast.IfExp):
            return self.need(e.body, busy) | self.need(e.orelse, busy)
        if isinstance(e, ast.Tuple):
            out = set()
            for x in e.elts:
                out |= self.need(x, busy)
            return out
        if isinstance(e, ast.JoinedStr):
            raise NotRooted(e, 'formatted string')
        raise NotRooted(e, f'`{short(e)}` is not derived from DESTDIR')

    def destdir(self, e: ast.AST) -> T.Set[Demand]:
        if isinstance(e, ast.Name) and e.id in self.params and not self.flow.defs.get(e.id):
            return {(e.id, 'destdir')}
        if isinstance(e, ast.Name) and e.id not in self.params:
            return {('<local>' + e.id, 'destdir')}
        raise NotRooted(e, f'`{short(e)}` is not the DESTDIR value handed to this function')

    def relative(self, e: ast.AST, busy: T.FrozenSet[str]) -> bool:
        if isinstance(e, ast.Constant):
            return isinstance(e.value, str) and not e.value.startswith(('/', '\\')) and '..' not in e.value and ':' not in e.value
        if isinstance(e, ast.Call):
            return self._d(e.func) in REL_CALLS
        if isinstance(e, ast.Name):
            if e.id in busy or e.id in self.params:
                return False
            defs = self.flow.defs.get(e.id, [])
            return bool(defs) and all(self.relative(v, busy | {e.id}) for v in defs)
        return False


# --------------------------------------------------------------------------------------------
# strip-set algebra of a chain of str methods applied to one variable

WHITESPACE = 'whitespace'   # the set str.strip() removes without argument


class Chain(T.NamedTuple):
    base: str                               # the variable the chain starts from
    left: T.Set[str]                        # characters that may be removed at the left end ('whitespace' = all of them)
    right: T.Set[str]
    right_exact: T.List[str]                # suffixes removed exactly once (removesuffix / [:-n] is given as '?'*n)


def strip_chain(e: ast.AST) -> Chain:
    """Decode `x.strip()`, `x.rstrip('\\n')`, `x.removesuffix('\\n')`, `x[:-1]` ... into what is removed where."""
    left: T.Set[str] = set()
    right: T.Set[str] = set()
    exact: T.List[str] = []
    cur = e
    while True:
        if isinstance(cur, ast.Name):
            return Chain(cur.id, left, right, exact)
        if isinstance(cur, ast.Call) and isinstance(cur.func, ast.Attribute) and not cur.keywords:
            m = cur.func.attr
            if m in ('strip', 'rstrip', 'lstrip') and len(cur.args) <= 1:
                if cur.args:
                    a = cur.args[0]
                    if isinstance(a, ast.Constant) and a.value is None:
                        chars: T.Set[str] = {WHITESPACE}
                    elif isinstance(a, ast.Constant) and isinstance(a.value, str):
                        chars = set(a.value)
                    else:
                        raise Undecided(f'strip characters are not constant: {short(cur)}')
                else:
                    chars = {WHITESPACE}
                if m in ('strip', 'rstrip'):
                    right |= chars
                if m in ('strip', 'lstrip'):
                    left |= chars
                cur = cur.func.value
                continue
            if m == 'removesuffix' and len(cur.args) == 1 and isinstance(cur.args[0], ast.Constant) and isinstance(cur.args[0].value, str):
                exact.append(cur.args[0].value)
                cur = cur.func.value
                continue
            raise Undecided(f'reader applies `{m}` to the log line: outside the understood transforms ({short(e)})')
        if isinstance(cur, ast.Subscript) and isinstance(cur.slice, ast.Slice) and cur.slice.lower is None and cur.slice.step is None:
            up = cur.slice.upper
            if isinstance(up, ast.UnaryOp) and isinstance(up.op, ast.USub) and isinstance(up.operand, ast.Constant) and isinstance(up.operand.value, int):
                exact.append('?' * up.operand.value)
                cur = cur.value
                continue
        raise Undecided(f'reader transform of the log line not understood: {short(e)}')


# --------------------------------------------------------------------------------------------
# folding of *constant* integer expressions (no names other than the stat module's permission constants)

STAT_CONSTS = {'S_IXUSR': 0o100, 'S_IXGRP': 0o010, 'S_IXOTH': 0o001, 'S_IRWXU': 0o700, 'S_IRWXG': 0o070, 'S_IRWXO': 0o007,
               'S_ISUID': 0o4000, 'S_ISGID': 0o2000, 'S_ISVTX': 0o1000,
               'S_IRUSR': 0o400, 'S_IWUSR': 0o200, 'S_IRGRP': 0o040, 'S_IWGRP': 0o020, 'S_IROTH': 0o004, 'S_IWOTH': 0o002}


def const_int(e: ast.AST) -> T.Optional[int]:
    """Value of an integer expression built from literals, stat.S_I* and | & ^ +; None when it depends on anything else."""
    if isinstance(e, ast.Constant) and isinstance(e.value, int) and not isinstance(e.value, bool):
        return e.value
    if isinstance(e, ast.BinOp) and isinstance(e.op, (ast.BitOr, ast.BitAnd, ast.BitXor, ast.Add)):
        a, b = const_int(e.left), const_int(e.right)
        if a is None or b is None:
            return None
        return {ast.BitOr: a | b, ast.BitAnd: a & b, ast.BitXor: a ^ b, ast.Add: a + b}[type(e.op)]
    c = attr_chain(e)
    if c is not None and c.split('.')[-1] in STAT_CONSTS and c.split('.')[0] in ('stat', c.split('.')[-1]):
        return STAT_CONSTS[c.split('.')[-1]]
    return None


class _SubstNames(ast.NodeTransformer):
    def __init__(self, env: T.Dict[str, ast.AST]):
        self.env = env

    def visit_Name(self, n: ast.Name) -> ast.AST:
        if isinstance(n.ctx, ast.Load) and n.id in self.env:
            import copy
            return copy.deepcopy(self.env[n.id])
        return n


def compose_assignments(effects: T.Iterable[str], expr: ast.AST) -> ast.AST:
    """Copy propagation along one table row: substitute the row's own `x := e` / `x op= e` effects (in order) into `expr`.
    Purely symbolic: the result is an expression over the parameters, nothing is evaluated."""
    env: T.Dict[str, ast.AST] = {}
    ops = {'&': ast.BitAnd, '|': ast.BitOr, '^': ast.BitXor, '+': ast.Add, '-': ast.Sub}
    for e in effects:
        if e.startswith('call '):
            continue
        if ' := ' in e:
            t, v = e.split(' := ', 1)
            if t.isidentifier():
                env[t] = _SubstNames(env).visit(ast.parse(v, mode='eval').body)
            continue
        for sym, cls in ops.items():
            if f' {sym}= ' in e:
                t, v = e.split(f' {sym}= ', 1)
                if t.isidentifier():
                    if t not in env:
                        raise Undecided(f'augmented assignment to `{t}` before any binding in the row')
                    env[t] = ast.BinOp(left=env[t], op=cls(), right=_SubstNames(env).visit(ast.parse(v, mode='eval').body))
                break
    return ast.fix_missing_locations(_SubstNames(env).visit(ast.parse(norm(expr), mode='eval').body))


# --------------------------------------------------------------------------------------------
# source-to-source normal form (applied to a copy of the syntax tree before any rule looks at it; node positions of the
# original statements are kept, so locations in findings stay meaningful)
#   N1  `for f in (a, b, c): body`  (constant display of <= 16 elements, directly or through a single-binding local; body without
#       break/continue/else, loop variable only read)                           ->  body[f:=a]; body[f:=b]; body[f:=c]
#   N2  `g = A if c else B` (single binding) ... `g(args)` as a statement / assigned value / returned value
#                                                                               ->  if c: A(args) else: B(args)
#   N3  `for x in filter(P, S): body`                                           ->  for x in S: if not P(x): continue; body
#   N4  `(A if c else B)(args)` as a statement                                  ->  if c: A(args) else: B(args)

import copy as _copy


class _Rename(ast.NodeTransformer):
    def __init__(self, name: str, repl: ast.AST):
        self.name, self.repl = name, repl

    def visit_Name(self, n: ast.Name) -> ast.AST:
        if n.id == self.name and isinstance(n.ctx, ast.Load):
            return ast.copy_location(_copy.deepcopy(self.repl), n)
        return n


def _stores(node: ast.AST, name: str) -> int:
    return sum(1 for n in ast.walk(node) if isinstance(n, ast.Name) and n.id == name and isinstance(n.ctx, (ast.Store, ast.Del)))


def _loads(node: ast.AST, name: str) -> int:
    return sum(1 for n in ast.walk(node) if isinstance(n, ast.Name) and n.id == name and isinstance(n.ctx, ast.Load))


TEST_CALLS = {'isinstance', 'issubclass', 'hasattr', 'callable', 'bool', 'any', 'all', 'len'}
TEST_METHODS = {'startswith', 'endswith', 'isdigit', 'exists', 'lexists', 'isfile', 'isdir', 'islink', 'isabs'}


def _display_elts(e: ast.AST, allow_seq: bool = False) -> T.Optional[T.List[ast.expr]]:
    """Elements of a small set display of pure elements: `{a.b, '*'}`, `frozenset({..})`, `set([..])` (a list/tuple where a
    method accepts any iterable)."""
    if isinstance(e, ast.Call) and isinstance(e.func, ast.Name) and e.func.id in ('set', 'frozenset') and len(e.args) == 1 and not e.keywords:
        return _display_elts(e.args[0], True)
    if isinstance(e, ast.Set) or (allow_seq and isinstance(e, (ast.List, ast.Tuple))):
        if 0 < len(e.elts) <= 4 and all(isinstance(x, ast.Constant) or attr_chain(x) is not None for x in e.elts):
            return list(e.elts)
    return None


def _membership_form(e: ast.AST, truth: bool) -> T.Optional[ast.expr]:
    """N20  set algebra between a collection X (a name / attribute chain) and a small display D of pure elements, read as membership:
        X & D, D & X, X.intersection(D), D.intersection(X)     (only where the truth value is taken)  ->  e1 in X or e2 in X
        X.isdisjoint(D), D.isdisjoint(X)                                                              ->  not (e1 in X or e2 in X)
        D <= X, X >= D, D.issubset(X), X.issuperset(D)                                               ->  e1 in X and e2 in X
        any(v in X for v in D), all(v in X for v in D)                                                ->  or / and of the memberships"""
    def build(x: ast.AST, elts: T.List[ast.expr], conj: bool, neg: bool = False) -> ast.expr:
        parts: T.List[ast.expr] = [ast.Compare(left=_copy.deepcopy(el), ops=[ast.In()], comparators=[_copy.deepcopy(x)]) for el in elts]   # type: ignore[list-item]
        out: ast.expr = parts[0] if len(parts) == 1 else ast.BoolOp(op=ast.And() if conj else ast.Or(), values=parts)
        return ast.UnaryOp(op=ast.Not(), operand=out) if neg else out

    def pair(a: ast.AST, b: ast.AST, seq_b: bool = False) -> T.Optional[T.Tuple[ast.AST, T.List[ast.expr]]]:
        """(X, elements of D) when one of a/b is a collection chain and the other a display."""
        db = _display_elts(b, seq_b)
        if attr_chain(a) is not None and db is not None:
            return a, db
        da = _display_elts(a)
        if da is not None and attr_chain(b) is not None:
            return b, da
        return None
    if isinstance(e, ast.BinOp) and isinstance(e.op, ast.BitAnd) and truth:
        p = pair(e.left, e.right)
        return build(p[0], p[1], False) if p else None
    if isinstance(e, ast.Compare) and len(e.ops) == 1 and isinstance(e.ops[0], (ast.LtE, ast.GtE)):
        sub, sup = (e.left, e.comparators[0]) if isinstance(e.ops[0], ast.LtE) else (e.comparators[0], e.left)
        d = _display_elts(sub)
        return build(sup, d, True) if d is not None and attr_chain(sup) is not None else None
    if isinstance(e, ast.Call) and isinstance(e.func, ast.Attribute) and len(e.args) == 1 and not e.keywords:
        recv, arg, meth = e.func.value, e.args[0], e.func.attr
        if meth == 'intersection' and truth:
            p = pair(recv, arg, True)
            return build(p[0], p[1], False) if p else None
        if meth == 'isdisjoint':
            p = pair(recv, arg, True)
            return build(p[0], p[1], False, neg=True) if p else None
        if meth in ('issubset', 'issuperset'):
            sub, sup = (recv, arg) if meth == 'issubset' else (arg, recv)
            d = _display_elts(sub, sub is arg)
            return build(sup, d, True) if d is not None and attr_chain(sup) is not None else None
    if isinstance(e, ast.Call) and isinstance(e.func, ast.Name) and e.func.id in ('any', 'all') and len(e.args) == 1 and not e.keywords \
            and isinstance(e.args[0], (ast.GeneratorExp, ast.ListComp)) and len(e.args[0].generators) == 1:
        g = e.args[0].generators[0]
        el = e.args[0].elt
        d = _display_elts(g.iter, True)
        if d is not None and not g.ifs and not g.is_async and isinstance(g.target, ast.Name) and isinstance(el, ast.Compare) and len(el.ops) == 1 \
                and isinstance(el.ops[0], ast.In) and isinstance(el.left, ast.Name) and el.left.id == g.target.id and attr_chain(el.comparators[0]) is not None \
                and g.target.id not in {n.id for n in ast.walk(el.comparators[0]) if isinstance(n, ast.Name)}:
            return build(el.comparators[0], d, e.func.id == 'all')
    return None


def _setalg(n: ast.expr, truth: bool, hit: T.List[int]) -> ast.expr:
    """Rewrite the N20 forms in `n`; `truth` says that only the truth value of `n` is observed."""
    if isinstance(n, ast.BoolOp):
        n.values = [_setalg(v, truth, hit) for v in n.values]
        return n
    if isinstance(n, ast.UnaryOp) and isinstance(n.op, ast.Not):
        n.operand = _setalg(n.operand, True, hit)
        return n
    if isinstance(n, ast.IfExp):
        n.test = _setalg(n.test, True, hit)
        n.body, n.orelse = _setalg(n.body, truth, hit), _setalg(n.orelse, truth, hit)
        return n
    if isinstance(n, ast.Call) and isinstance(n.func, ast.Name) and n.func.id == 'bool' and len(n.args) == 1 and not n.keywords:
        n.args[0] = _setalg(n.args[0], True, hit)
        return n
    new = _membership_form(n, truth)
    if new is not None:
        hit.append(1)
        return ast.fix_missing_locations(ast.copy_location(new, n))
    return n


def _testlike(e: ast.AST) -> bool:
    """A pure boolean test: comparisons, and/or/not of tests, os.path probes, isinstance/startswith/... calls."""
    if _membership_form(e, True) is not None:
        return True
    if isinstance(e, ast.BoolOp):
        return all(_testlike(v) or attr_chain(v) is not None for v in e.values)
    if isinstance(e, ast.UnaryOp) and isinstance(e.op, ast.Not):
        return _testlike(e.operand) or attr_chain(e.operand) is not None
    if isinstance(e, ast.Compare):
        return not any(isinstance(n, (ast.Call, ast.Await, ast.Yield, ast.NamedExpr)) and not _testlike(n) for n in ast.walk(e) if n is not e and isinstance(n, ast.Call))
    if isinstance(e, ast.Call) and not any(isinstance(a, ast.Starred) for a in e.args):
        f = e.func
        nm = f.attr if isinstance(f, ast.Attribute) else (f.id if isinstance(f, ast.Name) else '')
        return nm in TEST_CALLS or nm in TEST_METHODS
    return False


def _normalise_function(fn: FuncNode) -> None:
    changed = True
    rounds = 0
    while changed and rounds < 6:
        changed = False
        rounds += 1
        # single-binding locals of the function: name -> (value, the binding statement)
        binds: T.Dict[str, T.List[T.Tuple[ast.AST, ast.stmt]]] = {}
        for n in walk_no_nested(fn):
            if isinstance(n, ast.Assign) and len(n.targets) == 1 and isinstance(n.targets[0], ast.Name):
                binds.setdefault(n.targets[0].id, []).append((n.value, n))
            elif isinstance(n, ast.AnnAssign) and isinstance(n.target, ast.Name) and n.value is not None:
                binds.setdefault(n.target.id, []).append((n.value, n))
        single = {k: v[0] for k, v in binds.items() if len(v) == 1 and _stores(fn, k) == 1}

        def rewrite(body: T.List[ast.stmt]) -> T.List[ast.stmt]:
            nonlocal changed
            out: T.List[ast.stmt] = []
            for st in body:
                for field in ('body', 'orelse', 'finalbody'):
                    sub = getattr(st, field, None)
                    if isinstance(sub, list) and sub and isinstance(sub[0], ast.stmt) and not isinstance(st, (ast.FunctionDef, ast.AsyncFunctionDef, ast.ClassDef)):
                        setattr(st, field, rewrite(sub))
                for h in getattr(st, 'handlers', []):
                    h.body = rewrite(h.body)
                # N6  `x += [a, b]` / `x.extend([a, b])` / `x = x + [a]` / `x = [*x, a]`  ->  x.append(a); x.append(b)
                grown: T.Optional[T.Tuple[ast.AST, T.List[ast.AST]]] = None
                if isinstance(st, ast.AugAssign) and isinstance(st.op, ast.Add) and isinstance(st.value, ast.List) and attr_chain(st.target):
                    grown = (st.target, st.value.elts)
                elif isinstance(st, ast.Expr) and isinstance(st.value, ast.Call) and isinstance(st.value.func, ast.Attribute) and st.value.func.attr == 'extend' \
                        and len(st.value.args) == 1 and isinstance(st.value.args[0], (ast.List, ast.Tuple)) and attr_chain(st.value.func.value):
                    grown = (st.value.func.value, st.value.args[0].elts)
                elif isinstance(st, ast.Assign) and len(st.targets) == 1 and attr_chain(st.targets[0]):
                    t0, v0 = st.targets[0], st.value
                    if isinstance(v0, ast.BinOp) and isinstance(v0.op, ast.Add) and norm(v0.left) == norm(t0) and isinstance(v0.right, ast.List):
                        grown = (t0, v0.right.elts)
                    elif isinstance(v0, ast.List) and v0.elts and isinstance(v0.elts[0], ast.Starred) and norm(v0.elts[0].value) == norm(t0):
                        grown = (t0, v0.elts[1:])
                if grown is not None and 0 < len(grown[1]) <= 4 and not any(isinstance(e, ast.Starred) for e in grown[1]):
                    for e in grown[1]:
                        recv = _copy.deepcopy(grown[0])
                        for n_ in ast.walk(recv):
                            if isinstance(n_, (ast.Name, ast.Attribute)):
                                n_.ctx = ast.Load()
                        ap = ast.Expr(value=ast.Call(func=ast.Attribute(value=recv, attr='append', ctx=ast.Load()), args=[_copy.deepcopy(e)], keywords=[]))
                        out.append(ast.fix_missing_locations(ast.copy_location(ap, st)))
                    changed = True
                    continue
                # N19  `it = <expr>; for p in it:` (single binding, single use)  ->  for p in <expr>:
                if isinstance(st, ast.For) and isinstance(st.iter, ast.Name) and st.iter.id in single and _loads(fn, st.iter.id) == 1 \
                        and isinstance(single[st.iter.id][0], ast.Call) and not getattr(single[st.iter.id][1], '_c11_drop', False) \
                        and all(_stores(fn, nm.id) <= 1 for nm in ast.walk(single[st.iter.id][0]) if isinstance(nm, ast.Name)):
                    val_, bst_ = single[st.iter.id]
                    st.iter = val_
                    bst_._c11_drop = True        # type: ignore[attr-defined]
                    changed = True
                # N18  `for p in itertools.takewhile(lambda q: T, S)` -> for p in S: if not T: break ;  filterfalse(pred, S) -> if pred(p): continue
                if isinstance(st, ast.For) and isinstance(st.iter, ast.Call) and attr_chain(st.iter.func) in ('itertools.takewhile', 'takewhile', 'itertools.filterfalse', 'filterfalse') \
                        and len(st.iter.args) == 2 and not st.iter.keywords and isinstance(st.target, ast.Name) and not st.orelse:
                    pred, seq = st.iter.args
                    x = ast.Name(id=st.target.id, ctx=ast.Load())
                    if isinstance(pred, ast.Lambda) and len(pred.args.args) == 1 and not pred.args.vararg and not pred.args.kwarg:
                        test_: ast.AST = _Rename(pred.args.args[0].arg, x).visit(_copy.deepcopy(pred.body))
                    else:
                        test_ = ast.Call(func=pred, args=[x], keywords=[])
                    take = 'takewhile' in (attr_chain(st.iter.func) or '')
                    guard_ = ast.If(test=ast.UnaryOp(op=ast.Not(), operand=test_) if take else test_, body=[ast.Break() if take else ast.Continue()], orelse=[])
                    ast.copy_location(guard_, st)
                    st.iter = seq
                    st.body = [guard_] + st.body
                    ast.fix_missing_locations(st)
                    changed = True
                # N17  `x = [E for p in S if C]`  ->  x = []; for p in S: if C: x.append(E)
                if isinstance(st, ast.Assign) and len(st.targets) == 1 and isinstance(st.targets[0], ast.Name) and isinstance(st.value, ast.ListComp) \
                        and len(st.value.generators) == 1 and not st.value.generators[0].is_async and isinstance(st.value.generators[0].target, ast.Name):
                    g_ = st.value.generators[0]
                    tgt_ = st.targets[0].id
                    app_: ast.stmt = ast.Expr(value=ast.Call(func=ast.Attribute(value=ast.Name(id=tgt_, ctx=ast.Load()), attr='append', ctx=ast.Load()), args=[st.value.elt], keywords=[]))
                    for c_ in reversed(g_.ifs):
                        app_ = ast.If(test=c_, body=[app_], orelse=[])
                    loop_ = ast.For(target=g_.target, iter=g_.iter, body=[app_], orelse=[])
                    init_ = ast.Assign(targets=[ast.Name(id=tgt_, ctx=ast.Store())], value=ast.List(elts=[], ctx=ast.Load()))
                    for n2 in (init_, loop_):
                        ast.copy_location(n2, st)
                        for sub in ast.walk(n2):
                            if isinstance(sub, (ast.stmt, ast.expr)) and not hasattr(sub, 'lineno'):
                                ast.copy_location(sub, st)
                        out.append(ast.fix_missing_locations(n2))
                    changed = True
                    continue
                # N16  `return A if c else B` / `v = A if c else B`  ->  if c: return A / v = A   else: return B / v = B
                if isinstance(st, (ast.Return, ast.Assign)) and isinstance(st.value, ast.IfExp) and (isinstance(st, ast.Return) or len(st.targets) == 1) \
                        and not (isinstance(st, ast.Assign) and attr_chain(st.value.body) is not None and attr_chain(st.value.orelse) is not None):
                    ie = st.value

                    def arm(v: ast.expr) -> ast.stmt:
                        n2: ast.stmt = ast.Return(value=v) if isinstance(st, ast.Return) else ast.Assign(targets=_copy.deepcopy(st.targets), value=v)   # type: ignore[attr-defined]
                        return ast.fix_missing_locations(ast.copy_location(n2, st))
                    new_if = ast.If(test=ie.test, body=[arm(ie.body)], orelse=[arm(ie.orelse)])
                    out.append(ast.fix_missing_locations(ast.copy_location(new_if, st)))
                    changed = True
                    continue
                # N12  `f.writelines([a, b])`  ->  f.write(a); f.write(b)
                if isinstance(st, ast.Expr) and isinstance(st.value, ast.Call) and isinstance(st.value.func, ast.Attribute) and st.value.func.attr == 'writelines' \
                        and len(st.value.args) == 1 and isinstance(st.value.args[0], (ast.List, ast.Tuple)) and 0 < len(st.value.args[0].elts) <= 4 \
                        and not any(isinstance(e, ast.Starred) for e in st.value.args[0].elts):
                    for e in st.value.args[0].elts:
                        w_ = ast.Expr(value=ast.Call(func=ast.Attribute(value=_copy.deepcopy(st.value.func.value), attr='write', ctx=ast.Load()), args=[_copy.deepcopy(e)], keywords=[]))
                        out.append(ast.fix_missing_locations(ast.copy_location(w_, st)))
                    changed = True
                    continue
                # N3 filter
                if isinstance(st, ast.For) and isinstance(st.iter, ast.Call) and isinstance(st.iter.func, ast.Name) and st.iter.func.id == 'filter' \
                        and len(st.iter.args) == 2 and not st.iter.keywords and isinstance(st.target, ast.Name):
                    pred, seq = st.iter.args
                    x = ast.Name(id=st.target.id, ctx=ast.Load())
                    test: ast.AST = x if (isinstance(pred, ast.Constant) and pred.value is None) else ast.Call(func=pred, args=[x], keywords=[])
                    guard = ast.If(test=ast.UnaryOp(op=ast.Not(), operand=test), body=[ast.Continue()], orelse=[])
                    ast.copy_location(guard, st)
                    st.iter = seq
                    st.body = [guard] + st.body
                    ast.fix_missing_locations(st)
                    changed = True
                # N1 unroll
                if isinstance(st, ast.For) and isinstance(st.target, ast.Name) and not st.orelse:
                    it = st.iter
                    drop: T.Optional[ast.stmt] = None
                    if isinstance(it, ast.Name) and it.id in single and _loads(fn, it.id) == 1:
                        it, drop = single[it.id]
                    if isinstance(it, (ast.Tuple, ast.List)) and 0 < len(it.elts) <= 16 and not any(isinstance(e, ast.Starred) for e in it.elts) \
                            and all(attr_chain(e) is not None or isinstance(e, ast.Constant) for e in it.elts) \
                            and not any(isinstance(n, (ast.Break, ast.Continue)) for b in st.body for n in ast.walk(b)) \
                            and not any(_stores(b, st.target.id) for b in st.body) and len(st.body) <= 4:
                        for e in it.elts:
                            for b in st.body:
                                nb = _Rename(st.target.id, e).visit(_copy.deepcopy(b))
                                out.append(ast.fix_missing_locations(nb))
                        if drop is not None:
                            drop._c11_drop = True      # type: ignore[attr-defined]
                        changed = True
                        continue
                # N2 / N4 conditional callable
                tgt = None
                if isinstance(st, ast.Expr) and isinstance(st.value, ast.Call):
                    tgt = ('expr', st.value)
                elif isinstance(st, ast.Assign) and isinstance(st.value, ast.Call):
                    tgt = ('assign', st.value)
                elif isinstance(st, ast.Return) and isinstance(st.value, ast.Call):
                    tgt = ('return', st.value)
                if tgt is not None:
                    call = tgt[1]
                    sel: T.Optional[ast.IfExp] = None
                    drop = None
                    if isinstance(call.func, ast.IfExp):
                        sel = call.func
                    elif isinstance(call.func, ast.Name) and call.func.id in single and isinstance(single[call.func.id][0], ast.IfExp) \
                            and _loads(fn, call.func.id) == 1:
                        sel, drop = single[call.func.id]     # type: ignore[assignment]
                    if sel is not None and attr_chain(sel.body) is not None and attr_chain(sel.orelse) is not None \
                            and all(_stores(fn, nm.id) <= 1 for nm in ast.walk(sel.test) if isinstance(nm, ast.Name)):
                        def mk(f: ast.AST) -> ast.stmt:
                            c2 = ast.Call(func=_copy.deepcopy(f), args=_copy.deepcopy(call.args), keywords=_copy.deepcopy(call.keywords))
                            if tgt[0] == 'expr':
                                n2: ast.stmt = ast.Expr(value=c2)
                            elif tgt[0] == 'assign':
                                n2 = ast.Assign(targets=_copy.deepcopy(st.targets), value=c2)   # type: ignore[attr-defined]
                            else:
                                n2 = ast.Return(value=c2)
                            return ast.fix_missing_locations(ast.copy_location(n2, st))
                        new = ast.If(test=_copy.deepcopy(sel.test), body=[mk(sel.body)], orelse=[mk(sel.orelse)])
                        ast.fix_missing_locations(ast.copy_location(new, st))
                        out.append(new)
                        if drop is not None:
                            drop._c11_drop = True      # type: ignore[attr-defined]
                        changed = True
                        continue
                out.append(st)
            return out
        fn.body = rewrite(fn.body)

        def copyprop(body: T.List[ast.stmt]) -> None:
            nonlocal changed
            for i_, st in enumerate(body):
                for field in ('body', 'orelse', 'finalbody'):
                    sub = getattr(st, field, None)
                    if isinstance(sub, list) and sub and isinstance(sub[0], ast.stmt) and not isinstance(st, (ast.FunctionDef, ast.AsyncFunctionDef, ast.ClassDef)):
                        copyprop(sub)
                if isinstance(st, ast.Assign) and len(st.targets) == 1 and isinstance(st.targets[0], ast.Name) and isinstance(st.value, ast.Name) \
                        and st.targets[0].id != st.value.id and not getattr(st, '_c11_cp', False):
                    a_, b_ = st.targets[0].id, st.value.id
                    for later in body[i_ + 1:]:
                        if _stores(later, a_) or _stores(later, b_):
                            # uses inside this statement before the store are not rewritten (conservative): stop here
                            break
                        if _loads(later, a_):
                            _Rename(a_, ast.Name(id=b_, ctx=ast.Load())).visit(later)
                            changed = True
                    st._c11_cp = True     # type: ignore[attr-defined]
        copyprop(fn.body)
        # N13  `g = functools.partial(f, a, b)` (single binding, only ever called)  ->  g(x) read as f(a, b, x)
        for name, (val, bst) in list(single.items()):
            if getattr(bst, '_c11_drop', False) or not (isinstance(val, ast.Call) and attr_chain(val.func) in ('functools.partial', 'partial') and val.args):
                continue
            if attr_chain(val.args[0]) is None or not all(attr_chain(a) is not None or isinstance(a, ast.Constant) for a in val.args[1:] + [k.value for k in val.keywords]) \
                    or any(k.arg is None for k in val.keywords):
                continue
            loads = [n for n in ast.walk(fn) if isinstance(n, ast.Name) and n.id == name and isinstance(n.ctx, ast.Load)]
            calls_ = [n for n in ast.walk(fn) if isinstance(n, ast.Call) and isinstance(n.func, ast.Name) and n.func.id == name]
            if not calls_ or len(loads) != len(calls_):
                continue
            if any(_stores(fn, nm.id) > 1 for a in val.args[1:] for nm in ast.walk(a) if isinstance(nm, ast.Name)):
                continue
            for c_ in calls_:
                c_.func = _copy.deepcopy(val.args[0])
                c_.args = [_copy.deepcopy(a) for a in val.args[1:]] + c_.args
                c_.keywords = [_copy.deepcopy(k) for k in val.keywords if k.arg not in {k2.arg for k2 in c_.keywords}] + c_.keywords
                ast.fix_missing_locations(c_)
            bst._c11_drop = True       # type: ignore[attr-defined]
            changed = True
        # N20  set algebra against a small display read as membership (see _membership_form)
        hit20: T.List[int] = []
        bool_fn = fn.returns is not None and norm(fn.returns) in ('bool', "'bool'")
        for n in list(walk_no_nested(fn)):
            if isinstance(n, (ast.If, ast.While, ast.IfExp, ast.Assert)):
                n.test = _setalg(n.test, True, hit20)
            elif isinstance(n, ast.Return) and n.value is not None:
                n.value = _setalg(n.value, bool_fn, hit20)
            elif isinstance(n, ast.Assign):
                n.value = _setalg(n.value, False, hit20)
        if hit20:
            changed = True
        # N8  `x in (c1, c2)` over a display of <= 4 constants  ->  x == c1 or x == c2   (`not in` -> and of !=)
        class _In(ast.NodeTransformer):
            def visit_Compare(self, n: ast.Compare) -> ast.AST:
                self.generic_visit(n)
                if len(n.ops) == 1 and isinstance(n.ops[0], (ast.In, ast.NotIn)) and isinstance(n.comparators[0], (ast.Tuple, ast.List, ast.Set)) \
                        and 0 < len(n.comparators[0].elts) <= 4 and all(isinstance(e, ast.Constant) for e in n.comparators[0].elts) \
                        and attr_chain(n.left) is not None:
                    pos = isinstance(n.ops[0], ast.In)
                    parts: T.List[ast.expr] = [ast.Compare(left=_copy.deepcopy(n.left), ops=[ast.Eq() if pos else ast.NotEq()], comparators=[e]) for e in n.comparators[0].elts]
                    new_: ast.AST = parts[0] if len(parts) == 1 else ast.BoolOp(op=ast.Or() if pos else ast.And(), values=parts)
                    nonlocal changed
                    changed = True
                    return ast.fix_missing_locations(ast.copy_location(new_, n))
                return n
        for n in list(walk_no_nested(fn)):
            if isinstance(n, (ast.If, ast.While, ast.IfExp, ast.Assert)):
                n.test = _In().visit(n.test)
        # N5  a condition named as a local first (`c = <test>` ... `if c:` / `if not c and ...`): substituted into the tests
        tests: T.Set[int] = set()
        for n in walk_no_nested(fn):
            t_ = getattr(n, 'test', None) if isinstance(n, (ast.If, ast.While, ast.IfExp, ast.Assert)) else None
            if t_ is not None:
                stack = [t_]
                while stack:
                    x = stack.pop()
                    tests.add(id(x))
                    if isinstance(x, ast.BoolOp):
                        stack += x.values
                    elif isinstance(x, ast.UnaryOp) and isinstance(x.op, ast.Not):
                        stack.append(x.operand)
        for name, (val, bst) in list(single.items()):
            if getattr(bst, '_c11_drop', False) or not _testlike(val):
                continue
            uses = [n for n in walk_no_nested(fn) if isinstance(n, ast.Name) and n.id == name and isinstance(n.ctx, ast.Load)]
            if not uses or not all(id(u) in tests for u in uses):
                continue
            if any(_stores(fn, nm.id) > 1 for nm in ast.walk(val) if isinstance(nm, ast.Name)):
                continue
            sub = _Rename(name, val)
            for n in walk_no_nested(fn):
                if isinstance(n, (ast.If, ast.While, ast.IfExp, ast.Assert)):
                    n.test = sub.visit(n.test)
            bst._c11_drop = True       # type: ignore[attr-defined]
            changed = True

        def prune(body: T.List[ast.stmt]) -> T.List[ast.stmt]:
            keep = []
            for st in body:
                if getattr(st, '_c11_drop', False):
                    continue
                for field in ('body', 'orelse', 'finalbody'):
                    sub = getattr(st, field, None)
                    if isinstance(sub, list) and sub and isinstance(sub[0], ast.stmt) and not isinstance(st, (ast.FunctionDef, ast.AsyncFunctionDef, ast.ClassDef)):
                        setattr(st, field, prune(sub) or [ast.copy_location(ast.Pass(), st)])
                for h in getattr(st, 'handlers', []):
                    h.body = prune(h.body) or [ast.copy_location(ast.Pass(), st)]
                keep.append(st)
            return keep
        fn.body = prune(fn.body) or [ast.copy_location(ast.Pass(), fn)]


# ---- module-level normal forms: code motion undone -------------------------------------------------------------------------
#   N9   `@deco def m(self, ...): BODY` where `def deco(f): def w(self, *a, **k): PRE; f(self, *a, **k); POST; return w`
#                                                                              ->  def m(self, ...): PRE; BODY; POST
#   N10  a statement `helper(args)` / `self._helper(args)` whose callee (same module / same class) has a single call site, no
#        return value and no early return                                      ->  the callee's body with its parameters substituted
#   N11  `for x in gen(args): BODY` where gen (same module, single call site) is a generator with one `yield E` as the last
#        statement of its loop                                                 ->  gen's body with `yield E` replaced by `x = E; BODY`

def _doc_stripped(body: T.List[ast.stmt]) -> T.List[ast.stmt]:
    return [st for st in body if not (isinstance(st, ast.Expr) and isinstance(st.value, ast.Constant) and isinstance(st.value.value, str))]


def _relocate(node: ast.AST, at: ast.AST) -> ast.AST:
    for n in ast.walk(node):
        if hasattr(n, 'lineno'):
            n.lineno = getattr(at, 'lineno', 0)
            n.end_lineno = getattr(at, 'end_lineno', getattr(at, 'lineno', 0))
            n.col_offset = getattr(at, 'col_offset', 0)
            n.end_col_offset = getattr(at, 'end_col_offset', 0)
    return node


def _subst_params(body: T.List[ast.stmt], mapping: T.Dict[str, ast.AST]) -> T.List[ast.stmt]:
    class S(ast.NodeTransformer):
        def visit_Name(self, n: ast.Name) -> ast.AST:
            if n.id in mapping and isinstance(n.ctx, ast.Load):
                return _copy.deepcopy(mapping[n.id])
            return n
    return [S().visit(_copy.deepcopy(st)) for st in body]


def _simple_params(fn: FuncNode) -> T.Optional[T.List[str]]:
    a = fn.args
    if a.vararg or a.kwarg or a.kwonlyargs or a.posonlyargs:
        return None
    return [x.arg for x in a.args]


def _bind_simple(call: ast.Call, params: T.List[str], fn: FuncNode) -> T.Optional[T.Dict[str, ast.AST]]:
    out: T.Dict[str, ast.AST] = {}
    if any(isinstance(a, ast.Starred) for a in call.args) or any(k.arg is None for k in call.keywords) or len(call.args) > len(params):
        return None
    for p_, a in zip(params, call.args):
        out[p_] = a
    for k in call.keywords:
        if k.arg not in params or k.arg in out:
            return None
        out[k.arg] = k.value       # type: ignore[index]
    defaults = fn.args.defaults
    for p_, d_ in zip(params[len(params) - len(defaults):], defaults):
        out.setdefault(p_, d_)
    if set(out) != set(params):
        return None
    # arguments must be stable expressions (names, attribute chains, constants): no re-evaluation hazards
    if not all(attr_chain(v) is not None or isinstance(v, ast.Constant) for v in out.values()):
        return None
    return out


def _inline_module(tree: ast.Module) -> None:
    top: T.Dict[str, FuncNode] = {st.name: st for st in tree.body if isinstance(st, (ast.FunctionDef, ast.AsyncFunctionDef))}
    classes = [st for st in tree.body if isinstance(st, ast.ClassDef)]
    allfuncs: T.List[T.Tuple[T.Optional[ast.ClassDef], FuncNode]] = [(None, f) for f in top.values()]
    for c in classes:
        allfuncs += [(c, st) for st in c.body if isinstance(st, (ast.FunctionDef, ast.AsyncFunctionDef))]

    # ---- N9 guard decorators
    for c, fn in allfuncs:
        keep = []
        for d in fn.decorator_list:
            dn = d.id if isinstance(d, ast.Name) else None
            deco = top.get(dn or '')
            done = False
            if deco is not None and len(deco.args.args) == 1 and not deco.args.vararg:
                body = _doc_stripped(deco.body)
                if len(body) == 2 and isinstance(body[0], ast.FunctionDef) and isinstance(body[1], ast.Return) and isinstance(body[1].value, ast.Name) \
                        and body[1].value.id == body[0].name:
                    w, fpar = body[0], deco.args.args[0].arg
                    wa = w.args
                    if wa.args and wa.vararg and wa.kwarg and len(wa.args) == 1 and fn.args.args:
                        selfw, va, kw = wa.args[0].arg, wa.vararg.arg, wa.kwarg.arg
                        wbody = _doc_stripped(w.body)
                        fw = [st for b_ in w.body for st in ast.walk(b_) if isinstance(st, ast.Call) and isinstance(st.func, ast.Name) and st.func.id == fpar]
                        ok = len(fw) == 1 and [norm(a) for a in fw[0].args] == [selfw, f'*{va}'] and len(fw[0].keywords) == 1 and fw[0].keywords[0].arg is None \
                            and norm(fw[0].keywords[0].value) == kw
                        other_uses = sum(1 for b_ in w.body for n in ast.walk(b_) if isinstance(n, ast.Name) and n.id in (va, kw, fpar)) - 3
                        if ok and other_uses == 0:
                            def place(stmts: T.List[ast.stmt]) -> T.Optional[T.List[ast.stmt]]:
                                out: T.List[ast.stmt] = []
                                hit = False
                                for st in stmts:
                                    if isinstance(st, (ast.Expr, ast.Return)) and st.value is fw[0]:
                                        out += fn.body
                                        hit = True
                                        continue
                                    st2 = _copy.copy(st)
                                    for field in ('body', 'orelse', 'finalbody'):
                                        sub = getattr(st2, field, None)
                                        if isinstance(sub, list) and sub and isinstance(sub[0], ast.stmt):
                                            r_ = place(sub)
                                            if r_ is not None:
                                                setattr(st2, field, r_)
                                                hit = True
                                    out.append(st2)
                                return out if hit else None
                            nb = place(wbody)
                            if nb is not None:
                                first = fn.args.args[0].arg
                                renamed = _subst_params([x for x in nb if x not in fn.body], {selfw: ast.Name(id=first, ctx=ast.Load())}) if False else nb
                                # rename the wrapper's self to the method's first parameter in the wrapper part only
                                class R(ast.NodeTransformer):
                                    def visit_Name(self, n: ast.Name) -> ast.AST:
                                        if n.id == selfw and selfw != first:
                                            return ast.copy_location(ast.Name(id=first, ctx=n.ctx), n)
                                        return n
                                orig_ids = {id(x) for b_ in fn.body for x in ast.walk(b_)}
                                newbody = []
                                for st in renamed:
                                    if id(st) in orig_ids:
                                        newbody.append(st)
                                    else:
                                        st = _copy.deepcopy(st) if not any(id(x) in orig_ids for x in ast.walk(st)) else st
                                        newbody.append(_relocate_shallow(R().visit(st), fn, orig_ids))
                                fn.body = newbody
                                done = True
            if not done:
                keep.append(d)
        fn.decorator_list = keep

    # call sites per callee name (module functions by bare name, methods by self.<name> inside their class)
    def count_sites(name: str, cls: T.Optional[ast.ClassDef]) -> T.List[T.Tuple[FuncNode, ast.Call]]:
        hits = []
        for c, fn in allfuncs:
            for n in ast.walk(fn):
                if isinstance(n, ast.Call):
                    if cls is None and isinstance(n.func, ast.Name) and n.func.id == name:
                        hits.append((fn, n))
                    elif cls is not None and c is cls and attr_chain(n.func) == f'self.{name}':
                        hits.append((fn, n))
        return hits

    def refs_elsewhere(name: str, cls: T.Optional[ast.ClassDef], ncalls: int) -> bool:
        total = 0
        for n in ast.walk(tree):
            if cls is None and isinstance(n, ast.Name) and n.id == name and isinstance(n.ctx, ast.Load):
                total += 1
            elif cls is not None and isinstance(n, ast.Attribute) and n.attr == name:
                total += 1
        return total != ncalls

    def replace_stmt(holder: FuncNode, target: ast.stmt, new: T.List[ast.stmt]) -> bool:
        def rec(stmts: T.List[ast.stmt]) -> bool:
            for i, st in enumerate(stmts):
                if st is target:
                    stmts[i:i + 1] = new
                    return True
                for field in ('body', 'orelse', 'finalbody'):
                    sub = getattr(st, field, None)
                    if isinstance(sub, list) and sub and isinstance(sub[0], ast.stmt) and not isinstance(st, (ast.FunctionDef, ast.AsyncFunctionDef, ast.ClassDef)):
                        if rec(sub):
                            return True
                for h in getattr(st, 'handlers', []):
                    if rec(h.body):
                        return True
            return False
        return rec(holder.body)

    def drop_def(cls: T.Optional[ast.ClassDef], callee: FuncNode) -> None:
        """The folded-back helper has no caller left: remove its definition so that no rule judges an orphan."""
        owner = tree.body if cls is None else cls.body
        if callee in owner:
            owner.remove(callee)
        if (cls, callee) in allfuncs:
            allfuncs.remove((cls, callee))

    # ---- N14 private predicates (`def _p(self, d): if c: return A; return B`) read as the expression (A if c else B) at their calls
    def ladder(body: T.List[ast.stmt]) -> T.Optional[ast.expr]:
        body = _doc_stripped(body)
        if not body:
            return None
        st = body[0]
        if isinstance(st, ast.Return) and st.value is not None and len(body) == 1:
            return st.value
        if isinstance(st, ast.If):
            a = ladder(st.body)
            b = ladder(st.orelse) if st.orelse else ladder(body[1:])
            if st.orelse and len(body) != 1:
                return None
            if a is None or b is None:
                return None
            return ast.IfExp(test=st.test, body=a, orelse=b)
        return None
    for cls, callee in list(allfuncs):
        name = callee.name
        if not name.startswith('_') or name.startswith('__') or callee.decorator_list:
            continue
        params = _simple_params(callee)
        if params is None or (cls is not None and (not params or params[0] != 'self')):
            continue
        expr = ladder(callee.body)
        if expr is None or sum(1 for _ in ast.walk(expr)) > 120 or any(isinstance(n, (ast.Lambda, ast.Await, ast.Yield, ast.NamedExpr)) for n in ast.walk(expr)):
            continue
        if any(isinstance(n, ast.Call) and (attr_chain(n.func) == (f'self.{name}' if cls is not None else name)) for n in ast.walk(expr)):
            continue       # recursive
        pnames = params[1:] if cls is not None else params
        sites = count_sites(name, cls)
        if not sites:
            continue
        done_all = True
        for holder, call in sites:
            if holder is callee:
                done_all = False
                continue
            bound = _bind_simple(call, pnames, callee)
            if bound is None:
                done_all = False
                continue
            new_e = _subst_params([ast.Expr(value=_copy.deepcopy(expr))], bound)[0].value      # type: ignore[attr-defined]
            _relocate(new_e, call)
            # replace the Call node in place (same object identity for its parents): turn it into a parenthesised expression
            for par in ast.walk(holder):
                for field, val in ast.iter_fields(par):
                    if val is call:
                        setattr(par, field, new_e)
                    elif isinstance(val, list):
                        for i_, v_ in enumerate(val):
                            if v_ is call:
                                val[i_] = new_e
        if done_all and not refs_elsewhere(name, cls, 0):
            drop_def(cls, callee)

    for _round in range(2):
        for cls, callee in list(allfuncs):
            if (cls, callee) not in allfuncs:
                continue
            name = callee.name
            if name.startswith('__') or not name.startswith('_'):
                continue       # only private helpers (the product of an extract-function step) are folded back
            params = _simple_params(callee)
            if params is None:
                continue
            sites = count_sites(name, cls)
            if len(sites) != 1 or refs_elsewhere(name, cls, 1) or callee.decorator_list:
                continue
            holder, call = sites[0]
            if holder is callee:
                continue
            body = _doc_stripped(callee.body)
            if not body or len(body) > 30:
                continue
            is_gen = any(isinstance(n, (ast.Yield, ast.YieldFrom)) for n in walk_no_nested(callee))
            pnames = params[1:] if cls is not None else params
            if cls is not None and (not params or params[0] != 'self'):
                continue
            bound = _bind_simple(call, pnames, callee)
            if bound is None:
                continue
            stored = {n.id for n in walk_no_nested(callee) if isinstance(n, ast.Name) and isinstance(n.ctx, ast.Store)}
            rebound = stored & set(pnames)
            if rebound and not is_gen:
                continue       # the callee rebinds a parameter: substitution would change the caller's variable
            hnames = {n.id for n in walk_no_nested(holder) if isinstance(n, ast.Name)} | {a.arg for a in holder.args.args}
            if not is_gen:
                # N10: the call is a whole statement, the callee returns nothing and has no early return
                stmt = next((st for st in ast.walk(holder) if isinstance(st, ast.Expr) and st.value is call), None)
                if stmt is None or any(isinstance(n, ast.Return) for n in walk_no_nested(callee)):
                    continue
                if (stored - set(pnames)) & hnames:
                    continue
                new = [_relocate(x, stmt) for x in _subst_params(body, bound)]
                if replace_stmt(holder, stmt, new):
                    drop_def(cls, callee)
            else:
                # N11: for x in gen(...): BODY
                loop = next((st for st in ast.walk(holder) if isinstance(st, ast.For) and st.iter is call and isinstance(st.target, ast.Name) and not st.orelse), None)
                ys = [n for n in walk_no_nested(callee) if isinstance(n, (ast.Yield, ast.YieldFrom))]
                if loop is None or len(ys) != 1 or not isinstance(ys[0], ast.Yield) or ys[0].value is None or any(isinstance(n, ast.Return) for n in walk_no_nested(callee)):
                    continue
                gl = [st for st in walk_no_nested(callee) if isinstance(st, (ast.For, ast.While)) and any(isinstance(b_, ast.Expr) and b_.value is ys[0] for b_ in st.body)]
                if len(gl) != 1 or sum(1 for st in walk_no_nested(callee) if isinstance(st, (ast.For, ast.While))) != 1:
                    continue
                y_last = isinstance(gl[0].body[-1], ast.Expr) and gl[0].body[-1].value is ys[0]
                if not y_last and any(isinstance(n, ast.Continue) for b_ in loop.body for n in ast.walk(b_)):
                    continue       # a `continue` of the consumer would skip the generator's statements after the yield
                if ((stored - {loop.target.id}) - set(pnames)) & hnames:
                    continue
                pre_: T.List[ast.stmt] = []
                gsrc = body
                if rebound:
                    # a rebound parameter becomes a fresh local initialised from the argument
                    class _RN(ast.NodeTransformer):
                        def visit_Name(self, n: ast.Name) -> ast.AST:
                            if n.id in rebound:
                                return ast.copy_location(ast.Name(id=f'{n.id}__walk', ctx=n.ctx), n)
                            return n
                    gsrc = [_RN().visit(_copy.deepcopy(b_)) for b_ in body]
                    for rp in sorted(rebound):
                        pre_.append(ast.Assign(targets=[ast.Name(id=f'{rp}__walk', ctx=ast.Store())], value=_copy.deepcopy(bound[rp])))
                gbody = pre_ + _subst_params(gsrc, {k_: v_ for k_, v_ in bound.items() if k_ not in rebound})
                # find the copied loop and splice BODY after `x = E`
                for st in [x for b_ in gbody for x in ast.walk(b_)]:
                    if isinstance(st, (ast.For, ast.While)):
                        for yi, ys_ in enumerate(st.body):
                            if isinstance(ys_, ast.Expr) and isinstance(ys_.value, ast.Yield):
                                e = ys_.value.value
                                bind: T.List[ast.stmt] = [] if (isinstance(e, ast.Name) and e.id == loop.target.id) else \
                                    [ast.Assign(targets=[ast.Name(id=loop.target.id, ctx=ast.Store())], value=e)]
                                st.body = st.body[:yi] + bind + loop.body + st.body[yi + 1:]
                                break
                new = [ast.fix_missing_locations(_relocate_keep(x, loop)) for x in gbody]
                if replace_stmt(holder, loop, new):
                    drop_def(cls, callee)


def _bind_closure(call: ast.Call, fn: FuncNode) -> T.Optional[T.Dict[str, ast.AST]]:
    """Parameter -> argument expression of a direct call of a local helper (positional, keyword, keyword-only, defaults); None when the
    call cannot be bound statically (star arguments, *args / **kwargs parameters, missing or doubled arguments)."""
    a = fn.args
    if a.vararg or a.kwarg or any(isinstance(x, ast.Starred) for x in call.args) or any(k.arg is None for k in call.keywords):
        return None
    pos = [x.arg for x in a.posonlyargs + a.args]
    kwo = [x.arg for x in a.kwonlyargs]
    if len(call.args) > len(pos):
        return None
    out: T.Dict[str, ast.AST] = dict(zip(pos, call.args))
    for k in call.keywords:
        if k.arg in out or k.arg not in pos[len(a.posonlyargs):] + kwo:
            return None
        out[k.arg] = k.value       # type: ignore[index]
    # a default is evaluated when the helper is defined, not when it is called: only constants are read through
    for p_, d_ in zip(pos[len(pos) - len(a.defaults):], a.defaults):
        if isinstance(d_, ast.Constant):
            out.setdefault(p_, d_)
    for p_, d_ in zip(kwo, a.kw_defaults):
        if isinstance(d_, ast.Constant):
            out.setdefault(p_, d_)
    return out if set(out) == set(pos + kwo) else None


def _stable_expr(e: ast.AST) -> bool:
    return attr_chain(e) is not None or isinstance(e, ast.Constant)


def _inline_closures(holder: FuncNode) -> None:
    """N15  a local helper `def h(p..): BODY` defined inside a function and used there only by direct calls is read at its calls
    (the closure never escapes, so its free variables are the holder's variables at the time of the call):
      * expression form: BODY is `return E`  ->  every `h(a..)` becomes E[p := a]   (an argument that is not a name / attribute chain /
        constant must be used at most once in E);
      * statement form: BODY has no `return` and `h(a..)` is a whole statement  ->  BODY[p := a] in its place (an unstable argument, or a
        parameter that BODY rebinds, is first bound to a local); locals of BODY that the holder also uses are renamed `x__h`.
    Anything else (generators, decorators, recursion, the name used other than by calling it, calls from inside another nested scope,
    `return` in a statement-form body) is left as written: the helper stays a nested scope that no rule reads as the holder's code."""
    for _round in range(3):
        nested = [n for n in walk_no_nested(holder, include_root=False) if isinstance(n, (ast.FunctionDef, ast.AsyncFunctionDef))]
        nested = [h for h in nested if isinstance(h, ast.FunctionDef) and not h.decorator_list]
        progress = False
        for h in nested:
            name = h.name
            body = _doc_stripped(h.body)
            inner = [n for n in ast.walk(h) if n is not h]
            if not body or any(isinstance(n, (ast.Yield, ast.YieldFrom, ast.Await, ast.FunctionDef, ast.AsyncFunctionDef, ast.Lambda, ast.ClassDef, ast.Global))
                               for n in inner):
                continue
            if any(isinstance(n, ast.Name) and n.id == name for n in inner):
                continue       # recursive
            loads = [n for n in ast.walk(holder) if isinstance(n, ast.Name) and n.id == name]
            calls = [n for n in walk_no_nested(holder, include_root=False) if isinstance(n, ast.Call) and isinstance(n.func, ast.Name) and n.func.id == name]
            if not calls or len(loads) != len(calls) or sum(1 for n in walk_no_nested(holder, include_root=False)
                                                             if isinstance(n, (ast.FunctionDef, ast.AsyncFunctionDef, ast.ClassDef)) and n.name == name) != 1:
                continue       # used other than by a direct call from the holder's own scope, or defined twice
            params = [x.arg for x in h.args.posonlyargs + h.args.args + h.args.kwonlyargs]
            nonloc = {g for n in inner if isinstance(n, ast.Nonlocal) for g in n.names}
            stored = {n.id for n in inner if isinstance(n, ast.Name) and isinstance(n.ctx, (ast.Store, ast.Del))} - nonloc
            comp_targets = {n.id for c_ in inner if isinstance(c_, ast.comprehension) for n in ast.walk(c_.target) if isinstance(n, ast.Name)}
            if comp_targets & set(params):
                continue
            binds = [_bind_closure(c_, h) for c_ in calls]
            if any(b is None for b in binds):
                continue
            nload = {p_: sum(1 for n in inner if isinstance(n, ast.Name) and n.id == p_ and isinstance(n.ctx, ast.Load)) for p_ in params}
            if len(body) == 1 and isinstance(body[0], ast.Return) and body[0].value is not None and not stored:
                expr = body[0].value
                if not all(_stable_expr(v) or nload[p_] <= 1 for b in binds for p_, v in b.items()):     # type: ignore[union-attr]
                    continue
                for c_, b in zip(calls, binds):
                    new_e = _relocate(_subst_params([ast.Expr(value=_copy.deepcopy(expr))], b)[0].value, c_)     # type: ignore[attr-defined,arg-type]
                    for par in ast.walk(holder):
                        for field, val in ast.iter_fields(par):
                            if val is c_:
                                setattr(par, field, new_e)
                            elif isinstance(val, list):
                                for i_, v_ in enumerate(val):
                                    if v_ is c_:
                                        val[i_] = new_e
            else:
                if any(isinstance(n, ast.Return) for n in inner):
                    continue
                stmts = [(st, c_) for c_ in calls for st in ast.walk(holder) if isinstance(st, ast.Expr) and st.value is c_]
                if len(stmts) != len(calls):
                    continue
                hnames = {n.id for n in walk_no_nested(holder) if isinstance(n, ast.Name)} | {x.arg for x in ast.walk(holder.args) if isinstance(x, ast.arg)}
                body2 = [st for st in body if not isinstance(st, ast.Nonlocal)]
                for (stmt, c_), b in zip(stmts, binds):
                    pre: T.List[ast.stmt] = []
                    mapping: T.Dict[str, ast.AST] = {}
                    rename: T.Dict[str, str] = {x: f'{x}__{name}' for x in (stored - set(params)) & hnames}
                    for p_, v in b.items():      # type: ignore[union-attr]
                        same = isinstance(v, ast.Name) and v.id == p_
                        if p_ in stored:       # BODY rebinds its parameter: a local of its own, initialised from the argument
                            rename[p_] = f'{p_}__{name}' if p_ in hnames else p_
                            pre.append(ast.Assign(targets=[ast.Name(id=rename[p_], ctx=ast.Store())], value=_copy.deepcopy(v)))
                        elif same:
                            pass       # `h(x)` with parameter x that BODY only reads (or mutates in place): the holder's own x
                        elif _stable_expr(v):
                            mapping[p_] = v
                        else:
                            rename[p_] = f'{p_}__{name}' if p_ in hnames else p_
                            pre.append(ast.Assign(targets=[ast.Name(id=rename[p_], ctx=ast.Store())], value=_copy.deepcopy(v)))

                    class _RN(ast.NodeTransformer):
                        def visit_Name(self, n: ast.Name) -> ast.AST:
                            if n.id in rename and rename[n.id] != n.id:
                                return ast.copy_location(ast.Name(id=rename[n.id], ctx=n.ctx), n)
                            return n
                    nb = [_RN().visit(x) for x in _subst_params(body2, mapping)]
                    new = [ast.fix_missing_locations(_relocate(x, stmt)) for x in pre + nb]
                    _replace_stmt_in(holder, stmt, new)
            _drop_stmt_in(holder, h)
            progress = True
        if not progress:
            break


def _replace_stmt_in(holder: FuncNode, target: ast.stmt, new: T.List[ast.stmt]) -> bool:
    def rec(stmts: T.List[ast.stmt]) -> bool:
        for i, st in enumerate(stmts):
            if st is target:
                stmts[i:i + 1] = new if new or len(stmts) > 1 else [ast.copy_location(ast.Pass(), target)]
                return True
            if isinstance(st, (ast.FunctionDef, ast.AsyncFunctionDef, ast.ClassDef)):
                continue
            for field in ('body', 'orelse', 'finalbody'):
                sub = getattr(st, field, None)
                if isinstance(sub, list) and sub and isinstance(sub[0], ast.stmt) and rec(sub):
                    return True
            for h in getattr(st, 'handlers', []):
                if rec(h.body):
                    return True
            for cs in getattr(st, 'cases', []):
                if rec(cs.body):
                    return True
        return False
    return rec(holder.body)


def _drop_stmt_in(holder: FuncNode, target: ast.stmt) -> bool:
    return _replace_stmt_in(holder, target, [])


def _relocate_keep(node: ast.AST, at: ast.AST) -> ast.AST:
    """Give nodes without a position the position of `at` (nodes moved from elsewhere keep theirs only if inside `at`'s range)."""
    lo, hi = getattr(at, 'lineno', 0), getattr(at, 'end_lineno', getattr(at, 'lineno', 0))
    for n in ast.walk(node):
        ln = getattr(n, 'lineno', None)
        if isinstance(n, (ast.expr, ast.stmt, ast.excepthandler)) and (ln is None or not (lo <= ln <= hi)):
            n.lineno, n.end_lineno, n.col_offset, n.end_col_offset = lo, hi, 0, 0     # type: ignore[attr-defined]
    return node


def _relocate_shallow(node: ast.AST, fn: FuncNode, keep_ids: T.Set[int]) -> ast.AST:
    for n in ast.walk(node):
        if id(n) not in keep_ids and isinstance(n, (ast.expr, ast.stmt, ast.excepthandler)):
            n.lineno, n.end_lineno, n.col_offset, n.end_col_offset = fn.lineno, fn.lineno, 0, 0     # type: ignore[attr-defined]
    return node


class NormModule(Module):
    """A Module whose functions are in the normal form above."""

    def __init__(self, orig: Module):
        self.repo, self.rel, self.src, self.digest = orig.repo, orig.rel, orig.src, orig.digest
        self.tree = _copy.deepcopy(orig.tree)
        # N7  a literal hoisted into a module- or class-level constant (`_X_BITS = 0o111`, `COMMENT = '#'`): read back as the literal
        consts: T.Dict[str, ast.Constant] = {}
        counts: T.Dict[str, int] = {}
        for n in ast.walk(self.tree):
            if isinstance(n, ast.Name) and isinstance(n.ctx, (ast.Store, ast.Del)):
                counts[n.id] = counts.get(n.id, 0) + 1
            elif isinstance(n, ast.arg):
                counts[n.arg] = counts.get(n.arg, 0) + 1
            elif isinstance(n, ast.Global):
                for g in n.names:
                    counts[g] = counts.get(g, 0) + 2
        for st in self.tree.body:
            tg = st.targets[0] if isinstance(st, ast.Assign) and len(st.targets) == 1 else (st.target if isinstance(st, ast.AnnAssign) else None)
            val = getattr(st, 'value', None)
            if isinstance(tg, ast.Name) and isinstance(val, ast.Constant) and isinstance(val.value, (str, int)) and not isinstance(val.value, bool) \
                    and counts.get(tg.id, 0) == 1:
                consts[tg.id] = val
        if consts:
            class _K(ast.NodeTransformer):
                def visit_Name(self, n: ast.Name) -> ast.AST:
                    if isinstance(n.ctx, ast.Load) and n.id in consts:
                        return ast.copy_location(ast.Constant(value=consts[n.id].value), n)
                    return n
            for n in ast.walk(self.tree):
                if isinstance(n, (ast.FunctionDef, ast.AsyncFunctionDef)):
                    n.body = [_K().visit(b) for b in n.body]
        # N15 local helpers (closures) read at their calls: in every function that defines one
        for st in list(self.tree.body) + [x for c_ in self.tree.body if isinstance(c_, ast.ClassDef) for x in c_.body]:
            if isinstance(st, (ast.FunctionDef, ast.AsyncFunctionDef)) and any(isinstance(n, ast.FunctionDef) for n in ast.walk(st) if n is not st):
                _inline_closures(st)
        nfun = sum(1 for n in ast.walk(self.tree) if isinstance(n, (ast.FunctionDef, ast.AsyncFunctionDef)))
        if nfun <= 120:         # the installer / uninstaller modules; the big backend modules are read for tables only
            try:
                _inline_module(self.tree)
                for n in list(ast.walk(self.tree)):
                    if isinstance(n, (ast.FunctionDef, ast.AsyncFunctionDef)):
                        _normalise_function(n)
                _inline_module(self.tree)        # generators / helpers that only became visible in for-position after the first pass
            except RecursionError:     # pragma: no cover
                pass
        for n in ast.walk(self.tree):
            if isinstance(n, (ast.FunctionDef, ast.AsyncFunctionDef)):
                try:
                    _normalise_function(n)
                except RecursionError:    # pragma: no cover
                    pass
        self._funcs = {}
        self._classes = {}
        self._parents = None
        self._imports = None
        self._index(self.tree, '')


_NORM: T.Dict[int, T.Tuple[Module, NormModule]] = {}


def nmodule(repo: T.Any, rel: str) -> Module:
    orig = repo.module(rel)
    hit = _NORM.get(id(orig))
    if hit is None or hit[0] is not orig:
        if len(_NORM) > 32:
            _NORM.clear()
        hit = (orig, NormModule(orig))
        _NORM[id(orig)] = hit
    return hit[1]


def synthetic_module(rel: str, src: str) -> Module:
    from ..core import Repo
    try:
        return NormModule(Module(Repo('/nonexistent'), rel, src))
    except AnalysisError as e:  # pragma: no cover
        raise AnalysisError(f'built-in example does not parse: {e}')
