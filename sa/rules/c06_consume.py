"""C06 helper: consumers of hash-ordered values (DESIGN B.5, second half) - loop bodies, ordered results
and their sinks, callee summaries (effects, parameter consumption)."""
from __future__ import annotations

import ast
import typing as T

from ..core import Module, attr_chain, walk_no_nested, norm, short
from .c06_types import Ty, UNKNOWN, is_abstract_stub
from .c06_order import (Analyzer, FC, Site, FuncNode, INSENSITIVE_FUNCS, PASSTHROUGH_FUNCS, SET_MUTATORS, SET_QUERIES, ORDERED_MUTATORS,
                        ITER_MUTATORS, STR_METHODS, PURE_FUNCS, PURE_METHODS, EXC_SUFFIXES)

V = T.Tuple[str, str]   # (verdict, reason); verdict in benign | escapes | unknown   (sinks)  /  benign | sensitive | unknown (loops)

MAX_DEPTH = 3


def _callee_last(call: ast.Call) -> str:
    f = call.func
    if isinstance(f, ast.Attribute):
        return f.attr
    if isinstance(f, ast.Name):
        return f.id
    return ''


def _combine(vs: T.Iterable[V], bad: str) -> V:
    """bad dominates, then unknown, then benign."""
    unknown: T.Optional[V] = None
    for v in vs:
        if v[0] == bad:
            return v
        if v[0] == 'unknown' and unknown is None:
            unknown = v
    return unknown or ('benign', '')


class OrderAnalyzer(Analyzer):

    # ------------------------------------------------------------------ helpers
    def is_mlog(self, call: ast.Call, fc: FC) -> bool:
        n = attr_chain(call.func) or ''
        head = n.split('.')[0]
        if head == 'mlog' or n.startswith('self.logger') or head in ('logging', 'warnings'):
            return True
        m = self.res.module_alias(fc.mod, head) if head and fc.owner(head) is None else None
        return m is not None and m.rel.endswith('mlog.py')

    def is_exception_ctor(self, call: ast.Call, fc: FC) -> bool:
        n = attr_chain(call.func) or ''
        last = n.split('.')[-1]
        if last.endswith(EXC_SUFFIXES):
            return True
        p = self.parent(fc, call)
        return isinstance(p, ast.Raise)

    def recv_ty(self, call: ast.Call, fc: FC) -> Ty:
        if isinstance(call.func, ast.Attribute):
            return self.ty(call.func.value, fc)
        return UNKNOWN

    def _arg_param(self, call: ast.Call, arg: ast.AST, fn: FuncNode, is_method: bool) -> T.Optional[str]:
        """Name of the callee parameter that receives `arg` (positional or keyword)."""
        pos = [a.arg for a in fn.args.posonlyargs + fn.args.args]
        decos = {attr_chain(d) for d in fn.decorator_list}
        if is_method and 'staticmethod' not in decos and pos:
            pos = pos[1:]
        for i, a in enumerate(call.args):
            if a is arg:
                if any(isinstance(x, ast.Starred) for x in call.args[:i + 1]):
                    return None
                return pos[i] if i < len(pos) else (fn.args.vararg.arg if fn.args.vararg else None)
        for k in call.keywords:
            if k.value is arg and k.arg:
                names = pos + [a.arg for a in fn.args.kwonlyargs]
                return k.arg if k.arg in names else None
        return None

    # ------------------------------------------------------------------ callee summaries
    def effect_of(self, mod: Module, cls: T.Optional[ast.ClassDef], fn: FuncNode, depth: int = 0) -> V:
        """Does calling fn leave an order-dependent trace (append/insert/keyed store into non-local state, write, yield)?
        -> ('ordered', what) | ('none', '') | ('unknown', why)."""
        key = id(fn)
        if key in self._effect_memo:
            return self._effect_memo[key]
        self._effect_memo[key] = ('unknown', f'recursive call of {fn.name}')
        fc = self.fc_for(mod, fn, cls=cls)
        res = self._effect_scan(fc, depth)
        self._effect_memo[key] = res
        return res

    def _effect_scan(self, fc: FC, depth: int) -> V:
        unknown: T.Optional[V] = None
        q = fc.qual

        def nonlocal_recv(e: ast.AST) -> bool:
            c = attr_chain(e)
            if c is None:
                return True
            head = c.split('.')[0]
            if '.' in c:
                return True          # attribute of self / of a parameter / of a local alias: state that outlives the call
            return head in fc.params or fc.owner(head) is None

        for n in fc._own_nodes():
            if isinstance(n, (ast.Yield, ast.YieldFrom)):
                return ('ordered', f'{q} yields')
            if isinstance(n, (ast.Assign, ast.AugAssign, ast.AnnAssign)):
                tgts = n.targets if isinstance(n, ast.Assign) else [n.target]
                for t in tgts:
                    for tt in (t.elts if isinstance(t, (ast.Tuple, ast.List)) else [t]):
                        if isinstance(tt, ast.Subscript) and nonlocal_recv(tt.value):
                            if self.ty(tt.value, fc).kind == 'set':
                                continue
                            where = self.res.attr_iterated(tt.value.attr) if isinstance(tt.value, ast.Attribute) else 'parameter / closure variable'
                            if where:
                                return ('ordered', f'{q} stores into {short(tt.value, 40)}[...] (insertion-ordered, iterated at {where})')
                            if unknown is None:
                                unknown = ('unknown', f'{q} stores into {short(tt.value, 40)}[...], which is not seen to be iterated')
                            continue
                        if isinstance(tt, ast.Attribute) and unknown is None:
                            if not (isinstance(n, ast.Assign) and isinstance(n.value, ast.Constant)):
                                unknown = ('unknown', f'{q} assigns {short(tt, 40)}')
                        if isinstance(tt, ast.Name) and isinstance(n, ast.AugAssign) and isinstance(n.op, ast.Add) and nonlocal_recv(tt) \
                                and tt.id in fc.params:
                            pass
            if isinstance(n, ast.Call):
                m = _callee_last(n)
                if isinstance(n.func, ast.Attribute):
                    rt = self.ty(n.func.value, fc)
                    if m in ORDERED_MUTATORS and rt.kind != 'set':
                        if nonlocal_recv(n.func.value):
                            return ('ordered', f'{q} does {short(n.func.value, 40)}.{m}(...)')
                        continue
                    if m in SET_MUTATORS:
                        if rt.kind == 'set' or not nonlocal_recv(n.func.value):
                            continue
                        if rt.kind == 'ordered' and m in ('add', 'update'):
                            return ('ordered', f'{q} does {short(n.func.value, 40)}.{m}(...) on an insertion-ordered container')
                        if unknown is None:
                            unknown = ('unknown', f'{q} does {short(n.func.value, 40)}.{m}(...) on a container of unknown kind')
                        continue
                    if m in PURE_METHODS or m in ('pop', 'sort', 'reverse'):
                        continue
                elif m in PURE_FUNCS:
                    continue
                if self.is_mlog(n, fc) or self.is_exception_ctor(n, fc):
                    continue
                fns = self.callees(n, fc)
                if not fns:
                    cn = attr_chain(n.func) or ''
                    if cn and (self.res.resolve_cls(fc.mod, cn) is not None or (isinstance(n.func, ast.Name) and cn[:1].isupper())
                               or cn in ('deque', 'defaultdict', 'collections.deque', 'collections.defaultdict', 'super')):
                        continue     # constructing a fresh object
                    if unknown is None:
                        unknown = ('unknown', f'{q} calls unresolved {short(n.func, 40)}')
                    continue
                if depth >= MAX_DEPTH:
                    if unknown is None:
                        unknown = ('unknown', f'{q}: depth limit at {short(n.func, 40)}')
                    continue
                for m2, c2, f2 in fns:
                    if isinstance(f2, (ast.FunctionDef, ast.AsyncFunctionDef)) and f2.name == '__init__':
                        continue
                    r = self.effect_of(m2, c2, f2, depth + 1)
                    if r[0] == 'ordered':
                        return ('ordered', f'{q} -> {r[1]}')
                    if r[0] == 'unknown' and unknown is None:
                        unknown = r
        return unknown or ('none', '')

    def param_summary(self, mod: Module, cls: T.Optional[ast.ClassDef], fn: FuncNode, param: str, depth: int) -> V:
        """How does fn consume the iteration order of its parameter: benign | escapes | unknown."""
        key = (id(fn), param)
        if key in self._param_memo:
            return self._param_memo[key]
        self._param_memo[key] = ('unknown', f'recursive use of {fn.name}({param})')
        fc = self.fc_for(mod, fn, cls=cls)
        if is_abstract_stub(fn):
            res: V = ('unknown', f'{fc.qual} is an abstract stub')
        elif param in fc.values or param in fc.aug:
            # re-bound inside the callee: follow every load anyway, the re-binding itself is a use
            res = self.follow_local(param, fc, depth + 1)
        else:
            res = self.follow_local(param, fc, depth + 1)
        self._param_memo[key] = res
        return res

    def set_param_summary(self, mod: Module, cls: T.Optional[ast.ClassDef], fn: FuncNode, param: str, depth: int) -> V:
        """A *set* is bound to `param` (which is not declared a set): classify every use of it in the callee."""
        key = (id(fn), param + '/set')
        if key in self._param_memo:
            return self._param_memo[key]
        self._param_memo[key] = ('unknown', f'recursive use of {fn.name}({param})')
        fc = self.fc_for(mod, fn, cls=cls)
        res: V
        if is_abstract_stub(fn):
            res = ('unknown', f'{fc.qual} is an abstract stub')
        elif depth > 4:
            res = ('unknown', 'interprocedural depth')
        else:
            vs: T.List[V] = []
            t = Ty('set', None, mod, f'set bound to parameter {param} of {fc.qual}')
            for u in fc.loads.get(param, []):
                s = self.consume(u, t, fc)   # type: ignore[attr-defined]
                if s is None:
                    continue
                if s.verdict == 'violation':
                    vs.append(('escapes', f'{s.consumer}: {s.reason}'))
                elif s.verdict == 'info':
                    vs.append(('unknown', f'{s.consumer}: {s.reason}'))
            res = _combine(vs, 'escapes')
        self._param_memo[key] = res
        return res

    # ------------------------------------------------------------------ ordered results and their sinks
    def follow_local(self, name: str, fc: FC, depth: int) -> V:
        """All uses of a local that holds a hash-ordered sequence."""
        key = (id(fc), name)
        if key in self._busy_local:
            return ('benign', '')
        self._busy_local.add(key)
        try:
            uses = list(fc.loads.get(name, []))
            # closures reading the name
            for n in ast.walk(fc.fn):
                if isinstance(n, (ast.FunctionDef, ast.AsyncFunctionDef, ast.Lambda)) and n is not fc.fn:
                    for x in ast.walk(n):
                        if isinstance(x, ast.Name) and x.id == name and isinstance(x.ctx, ast.Load) and x not in uses:
                            return ('unknown', f'{name} is read inside a nested function')
            if not uses and name not in fc.params:
                return ('benign', f'{name} is never read')
            # an in-place sort of the local neutralises the order (flow-insensitively only when nothing else escapes first)
            vs = [self.use_verdict(u, fc, depth) for u in uses]
            sorts = [u for u in uses if self._is_inplace_sort(u, fc)]
            if sorts and all(v[0] != 'unknown' for v in vs):
                from ..cfg import CFG
                cfg = CFG(fc.fn)
                sort_nodes = [x for u in sorts for x in cfg.node_containing(u)]
                ok = True
                for u, v in zip(uses, vs):
                    if v[0] == 'escapes':
                        ns = cfg.node_containing(u)
                        if not ns or not all(cfg.dominated_by_any(x, sort_nodes) for x in ns):
                            ok = False
                if ok:
                    return ('benign', f'{name}.sort() dominates every order-exposing use')
            return _combine(vs, 'escapes')
        finally:
            self._busy_local.discard(key)

    def _is_inplace_sort(self, u: ast.Name, fc: FC) -> bool:
        p = self.parent(fc, u)
        if isinstance(p, ast.Attribute) and p.attr == 'sort':
            pp = self.parent(fc, p)
            return isinstance(pp, ast.Call) and pp.func is p and not any(k.arg == 'key' for k in pp.keywords)
        return False

    def use_verdict(self, u: ast.AST, fc: FC, depth: int = 0) -> V:
        """Where does the hash-ordered *sequence/text* held by expression `u` go?"""
        if depth > 10:
            return ('unknown', 'sink chain too deep')
        p = self.parent(fc, u)
        what = short(u, 60)
        if p is None:
            return ('unknown', 'no parent')
        if isinstance(p, ast.Starred):
            return self.use_verdict(p, fc, depth + 1)
        if isinstance(p, ast.keyword):
            pp = self.parent(fc, p)
            if isinstance(pp, ast.Call):
                return self._call_arg_verdict(pp, p.value, fc, depth, seq=True)
            return ('unknown', 'keyword outside a call')
        if isinstance(p, ast.Call):
            if u is p.func:
                return ('unknown', 'called')
            return self._call_arg_verdict(p, u, fc, depth, seq=True)
        if isinstance(p, ast.Attribute):
            pp = self.parent(fc, p)
            if isinstance(pp, ast.Call) and pp.func is p:
                m = p.attr
                if m == 'sort':
                    return ('benign', 'sorted in place')
                if m in ('append', 'extend', 'insert', 'remove', 'pop', 'clear', 'count', 'index', 'startswith', 'endswith', 'isdigit',
                         'find', 'rfind', 'add', 'update', 'discard', 'reverse', 'extend_direct', 'append_direct', 'appendleft'):
                    return ('benign', '')
                if m in STR_METHODS or m in ('join', 'to_native', 'copy'):
                    return self.use_verdict(pp, fc, depth + 1)
                return ('unknown', f'method .{m}() of the ordered result')
            return ('unknown', f'attribute .{p.attr} of the ordered result')
        if isinstance(p, ast.Return):
            return ('escapes', f'`{what}` is returned from {fc.qual}')
        if isinstance(p, (ast.Yield, ast.YieldFrom)):
            return ('escapes', f'`{what}` is yielded from {fc.qual}')
        if isinstance(p, (ast.Assign, ast.AnnAssign, ast.NamedExpr)):
            tgts = p.targets if isinstance(p, ast.Assign) else [p.target]
            vs: T.List[V] = []
            for t in tgts:
                if isinstance(t, ast.Name):
                    o = fc.owner(t.id)
                    if o is fc:
                        vs.append(self.follow_local(t.id, fc, depth + 1))
                    else:
                        vs.append(('escapes', f'`{what}` is stored in the non-local {t.id}'))
                elif isinstance(t, (ast.Attribute, ast.Subscript)):
                    base = t.value if isinstance(t, ast.Subscript) else t
                    c = attr_chain(base)
                    if isinstance(t, ast.Subscript) and c and '.' not in c and fc.owner(c) is fc and c not in fc.params:
                        vs.append(self.follow_local(c, fc, depth + 1))
                    else:
                        vs.append(('escapes', f'`{what}` is stored in {short(t, 40)}'))
                else:
                    vs.append(('unknown', 'unpacked'))
            return _combine(vs, 'escapes')
        if isinstance(p, ast.AugAssign):
            if p.value is u:
                t = p.target
                if isinstance(t, ast.Name) and fc.owner(t.id) is fc and t.id not in fc.params:
                    return self.follow_local(t.id, fc, depth + 1)
                return ('escapes', f'`{what}` is appended to {short(t, 40)}')
            return ('benign', '')
        if isinstance(p, (ast.For, ast.AsyncFor)):
            if p.iter is u:
                k = self.loop_kind(p, fc, depth + 1)
                return ('escapes', k[1]) if k[0] == 'sensitive' else k
            return ('benign', '')
        if isinstance(p, ast.comprehension):
            if p.iter is u:
                comp = self.parent(fc, p)
                if isinstance(comp, ast.SetComp):
                    return ('benign', 'collected into a set')
                if comp is None:
                    return ('unknown', 'comprehension without parent')
                return self.use_verdict(comp, fc, depth + 1)
            return ('benign', '')
        if isinstance(p, ast.BinOp):
            if isinstance(p.op, (ast.Add, ast.Mod, ast.Mult)):
                return self.use_verdict(p, fc, depth + 1)
            return ('unknown', f'operator {p.op.__class__.__name__}')
        if isinstance(p, (ast.FormattedValue, ast.JoinedStr, ast.List, ast.Tuple, ast.Subscript, ast.Await)):
            if isinstance(p, ast.Subscript) and p.value is not u:
                return ('benign', 'used as an index')
            return self.use_verdict(p, fc, depth + 1)
        if isinstance(p, ast.Dict):
            return self.use_verdict(p, fc, depth + 1)
        if isinstance(p, ast.Set):
            return ('benign', 'element of a set')
        if isinstance(p, (ast.ListComp, ast.DictComp, ast.GeneratorExp)):
            return self.use_verdict(p, fc, depth + 1)     # element / key / value of a comprehension result
        if isinstance(p, ast.SetComp):
            return ('benign', 'element of a set')
        if isinstance(p, ast.IfExp):
            if p.test is u:
                return ('benign', 'truth test')
            return self.use_verdict(p, fc, depth + 1)
        if isinstance(p, (ast.Compare, ast.BoolOp, ast.UnaryOp, ast.If, ast.While, ast.Assert, ast.Expr, ast.Delete)):
            if isinstance(p, ast.BoolOp):
                return self.use_verdict(p, fc, depth + 1)
            if isinstance(p, ast.Compare) and any(isinstance(o, (ast.Eq, ast.NotEq, ast.Lt, ast.Gt, ast.LtE, ast.GtE)) for o in p.ops):
                return ('unknown', 'ordered comparison of the hash-ordered sequence')
            return ('benign', 'truth / membership test')
        if isinstance(p, ast.Raise):
            return ('benign', 'exception text')
        if isinstance(p, ast.withitem):
            return ('unknown', 'context manager')
        if isinstance(p, ast.Lambda):
            return ('unknown', 'lambda body')
        return ('unknown', f'{p.__class__.__name__}')

    def _call_arg_verdict(self, call: ast.Call, arg: ast.AST, fc: FC, depth: int, seq: bool) -> V:
        """`arg` (a hash-ordered sequence if seq else a set) is passed to `call`."""
        m = _callee_last(call)
        cn = attr_chain(call.func) or m
        is_attr = isinstance(call.func, ast.Attribute)
        if m == 'sorted' and not is_attr:
            return ('benign', 'sorted')
        if m in INSENSITIVE_FUNCS and not is_attr or cn in ('collections.Counter',):
            if m in ('min', 'max') and any(k.arg == 'key' for k in call.keywords):
                return ('unknown', f'{m}(..., key=...) returns the first of equal keys')
            return ('benign', f'{m}() is order-insensitive')
        if self.is_mlog(call, fc):
            return ('benign', 'log text')
        if self.is_exception_ctor(call, fc):
            return ('benign', 'exception text')
        if is_attr:
            rt = self.recv_ty(call, fc)
            if m in (SET_MUTATORS | SET_QUERIES) and rt.kind == 'set':
                return ('benign', f'{short(call.func, 40)}() of a set')
            if m in ITER_MUTATORS or (m in ('update', 'add') and rt.kind == 'ordered' and m == 'update'):
                r = call.func.value  # type: ignore[union-attr]
                c = attr_chain(r)
                if c and '.' not in c and fc.owner(c) is fc and c not in fc.params:
                    return self.follow_local(c, fc, depth + 1)
                return ('escapes', f'`{short(arg, 50)}` is iterated into {short(r, 40)} by .{m}()')
            if m in ('append', 'insert', 'add', 'setdefault', 'put') and seq:
                r = call.func.value  # type: ignore[union-attr]
                c = attr_chain(r)
                if rt.kind == 'set':
                    return ('benign', 'stored as an element of a set')
                if c and '.' not in c and fc.owner(c) is fc and c not in fc.params:
                    return self.follow_local(c, fc, depth + 1)
                return ('escapes', f'`{short(arg, 50)}` is stored into {short(r, 40)} by .{m}()')
            if m == 'join' or (m in ('format',) and seq):
                return self.use_verdict(call, fc, depth + 1)
        if (m in PASSTHROUGH_FUNCS and not (is_attr and m in ('format',))) or cn in ('os.path.join', 'itertools.chain', 'T.cast', 'copy.copy', 'copy.deepcopy'):
            return self.use_verdict(call, fc, depth + 1)
        fns = self.callees(call, fc)
        if not fns and cn:
            # constructor of a repository class: the __init__ parameter summary, or a dataclass-style record that keeps the value
            rc = self.res.resolve_cls(fc.mod, cn) if fc.owner(cn.split('.')[0]) is None else None
            if cn == 'cls' and fc.cls is not None and list(fc.params)[:1] == ['cls']:
                rc = (fc.mod, fc.cls)       # cls(...) inside a classmethod
            if rc is not None:
                init = self.repo.find_method(rc[0], rc[1], '__init__')
                if init is not None:
                    fns = [init]
                elif seq:
                    return ('escapes', f'`{short(arg, 50)}` is kept in a field of the {rc[1].name}(...) record')
        if not fns:
            self.calls_unresolved += 1
            if seq and (m in ('write', 'writelines', 'dump', 'dumps', 'print') or cn in ('json.dump', 'json.dumps', 'pickle.dump', 'pickle.dumps')):
                return ('escapes', f'`{short(arg, 50)}` is written out by {short(call.func, 40)}()')
            # closed world: a callee the analysis cannot read may sort or discard the order - not a finding
            return ('unknown', f'`{short(arg, 50)}` is handed to {short(call.func, 40)}(), which is not resolved')
        self.calls_resolved += 1
        if depth >= 8:
            return ('unknown', 'interprocedural depth')
        vs: T.List[V] = []
        for m2, c2, f2 in fns:
            pn = self._arg_param(call, arg, f2, c2 is not None)
            if pn is None:
                vs.append(('unknown', f'cannot map the argument to a parameter of {f2.name}'))
                continue
            pann = {a.arg: a.annotation for a in f2.args.posonlyargs + f2.args.args + f2.args.kwonlyargs}.get(pn)
            if not seq and pann is not None and self.res.ann_ty(pann, m2).kind == 'set':
                vs.append(('benign', f'parameter {f2.name}({pn}) is declared a set (consumers are judged in the callee)'))
                continue
            r = self.param_summary(m2, c2, f2, pn, depth + 1) if seq else self.set_param_summary(m2, c2, f2, pn, depth + 1)
            q = f'{c2.name}.{f2.name}' if c2 is not None else f2.name
            if r[0] == 'benign':
                vs.append(('benign', f'{q}({pn}) consumes it order-insensitively'))
            elif r[0] == 'escapes':
                vs.append(('escapes', f'{q}({pn}): {r[1]}'))
            else:
                vs.append(('unknown', f'{q}({pn}): {r[1]}'))
        return _combine(vs, 'escapes')

    # ------------------------------------------------------------------ loops
    def loop_kind(self, loop: T.Union[ast.For, ast.AsyncFor], fc: FC, depth: int = 0) -> V:
        """benign | sensitive | unknown for a loop whose iteration order is hash order."""
        st = _LoopState(loop, fc)
        vs = [self._stmt_kind(s, st, depth) for s in loop.body]
        if loop.orelse:
            vs += [self._stmt_kind(s, st, depth) for s in loop.orelse]
        v = _combine(vs, 'sensitive')
        if v[0] == 'sensitive':
            return v
        if st.breaks and st.element_effects:
            return ('sensitive', f'`break` after `{st.element_effects[0]}`: the first matching element wins')
        return v

    def _stmt_kind(self, s: ast.stmt, st: '_LoopState', depth: int) -> V:
        fc = st.fc
        if isinstance(s, (ast.FunctionDef, ast.AsyncFunctionDef, ast.ClassDef, ast.Pass, ast.Continue, ast.Global, ast.Nonlocal, ast.Import, ast.ImportFrom)):
            return ('benign', '')
        if isinstance(s, ast.Break):
            st.breaks = True
            return ('benign', '')
        if isinstance(s, ast.Raise):
            return ('benign', '')
        if isinstance(s, ast.Assert):
            return self._expr_kind(s.test, st, depth)
        if isinstance(s, ast.Return):
            if s.value is None or isinstance(s.value, ast.Constant):
                return self._expr_kind(s.value, st, depth) if s.value is not None else ('benign', '')
            if not ({n.id for n in ast.walk(s.value) if isinstance(n, ast.Name)} & st.all_defined()):
                return self._expr_kind(s.value, st, depth)      # the value does not depend on which element was reached (existence test)
            return ('sensitive', f'`{short(s, 60)}` exposes the first element reached')
        if isinstance(s, ast.Expr):
            return self._expr_kind(s.value, st, depth)
        if isinstance(s, ast.If):
            vs = [self._expr_kind(s.test, st, depth)] + [self._stmt_kind(x, st, depth) for x in s.body + s.orelse]
            return _combine(vs, 'sensitive')
        if isinstance(s, ast.While):
            vs = [self._expr_kind(s.test, st, depth)] + [self._stmt_kind(x, st, depth) for x in s.body + s.orelse]
            return _combine(vs, 'sensitive')
        if isinstance(s, (ast.For, ast.AsyncFor)):
            inner = _LoopState(s, fc, st)
            vs = [self._expr_kind(s.iter, st, depth)] + [self._stmt_kind(x, inner, depth) for x in s.body + s.orelse]
            st.element_effects += inner.element_effects
            return _combine(vs, 'sensitive')
        if isinstance(s, (ast.With, ast.AsyncWith)):
            vs = [self._expr_kind(i.context_expr, st, depth) for i in s.items] + [self._stmt_kind(x, st, depth) for x in s.body]
            return _combine(vs, 'sensitive')
        if isinstance(s, ast.Try):
            body = s.body + s.orelse + s.finalbody + [x for h in s.handlers for x in h.body]
            return _combine([self._stmt_kind(x, st, depth) for x in body], 'sensitive')
        if isinstance(s, (ast.Assign, ast.AnnAssign)):
            tgts = s.targets if isinstance(s, ast.Assign) else [s.target]
            val = s.value
            vs = [self._expr_kind(val, st, depth)] if val is not None else []
            flat: T.List[ast.AST] = []
            for t in tgts:
                flat += list(t.elts) if isinstance(t, (ast.Tuple, ast.List)) else [t]
            for t in flat:
                if isinstance(t, ast.Starred):
                    t = t.value
                if isinstance(t, ast.Name):
                    if val is None or isinstance(val, ast.Constant):
                        continue
                    if st.read_outside(t.id):
                        st.element_effects.append(short(s, 50))
                        vs.append(('unknown', f'`{short(s, 50)}`: the last element assigned wins (read after the loop)'))
                elif isinstance(t, ast.Subscript):
                    vs.append(self._store_kind(t.value, 'keyed store ' + short(t, 40) + ' = ...', st, depth))
                elif isinstance(t, ast.Attribute):
                    if not isinstance(val, ast.Constant):
                        st.element_effects.append(short(s, 50))
                        vs.append(('unknown', f'`{short(s, 50)}`: the last element assigned wins'))
            return _combine(vs, 'sensitive')
        if isinstance(s, ast.AugAssign):
            vs = [self._expr_kind(s.value, st, depth)]
            if isinstance(s.op, (ast.BitOr, ast.BitAnd, ast.BitXor)):
                return _combine(vs, 'sensitive')
            if isinstance(s.op, (ast.Add, ast.Sub, ast.Mult)) and _is_numeric(s.value):
                return _combine(vs, 'sensitive')
            if isinstance(s.op, ast.Sub):
                return _combine(vs, 'sensitive')
            tt = self.ty(s.target, fc)
            if tt.kind == 'set':
                return _combine(vs, 'sensitive')
            vs.append(self._store_kind(s.target, f'`{short(s, 50)}` (concatenation)', st, depth))
            return _combine(vs, 'sensitive')
        if isinstance(s, ast.Delete):
            return ('benign', '')
        return ('unknown', f'statement {s.__class__.__name__}')

    def _store_kind(self, recv: ast.AST, what: str, st: '_LoopState', depth: int) -> V:
        """An insertion-ordered container `recv` is extended once per element."""
        fc = st.fc
        rt = self.ty(recv, fc)
        if rt.kind == 'set':
            return ('benign', '')
        c = attr_chain(recv)
        st.element_effects.append(what)
        if c and '.' not in c:
            o = fc.owner(c)
            if o is fc and c not in fc.params:
                if st.defined_inside(c):
                    return ('benign', f'{c} is rebuilt for every element')
                r = self.follow_local(c, fc, depth + 1)
                if r[0] == 'escapes':
                    return ('sensitive', f'{what} fills {c} in hash order; {r[1]}')
                if r[0] == 'benign':
                    return ('benign', f'{what}: every use of {c} is order-insensitive')
                return ('unknown', f'{what} fills {c} in hash order; {r[1]}')
            if o is not None and c in o.params:
                return ('sensitive', f'{what} fills the parameter {c} in hash order')
        return ('sensitive', f'{what} fills {short(recv, 40)} in hash order')

    def _expr_kind(self, e: T.Optional[ast.AST], st: '_LoopState', depth: int) -> V:
        if e is None:
            return ('benign', '')
        fc = st.fc
        vs: T.List[V] = []
        for n in walk_no_nested(e):
            if isinstance(n, (ast.Yield, ast.YieldFrom)):
                return ('sensitive', f'`{short(n, 50)}` yields once per element, in hash order')
            if isinstance(n, ast.NamedExpr) and isinstance(n.target, ast.Name) and st.read_outside(n.target.id):
                vs.append(('unknown', f'`{short(n, 40)}`: the last element assigned wins'))
            if isinstance(n, ast.Call):
                vs.append(self._call_kind(n, st, depth))
        return _combine(vs, 'sensitive')

    def _call_kind(self, call: ast.Call, st: '_LoopState', depth: int) -> V:
        fc = st.fc
        m = _callee_last(call)
        if isinstance(call.func, ast.Attribute):
            recv = call.func.value
            rt = self.ty(recv, fc)
            if m in SET_MUTATORS and m != 'clear':
                if rt.kind == 'set':
                    return ('benign', '')
                if rt.kind == 'ordered' and m in ('add', 'update'):
                    return self._store_kind(recv, f'`{short(call, 50)}` (insertion-ordered container)', st, depth)
                if m in ('discard', 'remove'):
                    return ('benign', '')
                return ('unknown', f'`{short(call, 50)}`: kind of the receiver is not known')
            if m in ORDERED_MUTATORS and rt.kind != 'set':
                return self._store_kind(recv, f'`{short(call, 50)}`', st, depth)
            if m in PURE_METHODS or m in ('pop', 'sort', 'reverse', 'clear'):
                return ('benign', '')
        elif m in PURE_FUNCS:
            return ('benign', '')
        if self.is_mlog(call, fc) or self.is_exception_ctor(call, fc):
            return ('benign', '')
        cn = attr_chain(call.func) or ''
        if cn.startswith(('os.path.', 'os.fspath', 're.', 'shlex.', 'copy.', 'itertools.', 'T.', 'mesonlib.OrderedSet', 'hashlib.')):
            return ('benign', '')
        fns = self.callees(call, fc)
        if not fns:
            return ('unknown', f'`{short(call, 50)}`: callee not resolved, effects unknown')
        vs: T.List[V] = []
        for m2, c2, f2 in fns:
            if f2.name == '__init__':
                continue
            r = self.effect_of(m2, c2, f2, 1)
            if r[0] == 'ordered':
                st.element_effects.append(short(call, 50))
                vs.append(('sensitive', f'`{short(call, 60)}` once per element, in hash order: {r[1]}'))
            elif r[0] == 'unknown':
                vs.append(('unknown', f'`{short(call, 50)}`: {r[1]}'))
        return _combine(vs, 'sensitive')


def _is_numeric(e: ast.AST) -> bool:
    if isinstance(e, ast.Constant) and isinstance(e.value, (int, float)) and not isinstance(e.value, bool):
        return True
    if isinstance(e, ast.Call) and isinstance(e.func, ast.Name) and e.func.id in ('len', 'int', 'float', 'sum'):
        return True
    if isinstance(e, ast.BinOp):
        return _is_numeric(e.left) and _is_numeric(e.right)
    return False


class _LoopState:
    def __init__(self, loop: T.Union[ast.For, ast.AsyncFor], fc: FC, outer: T.Optional['_LoopState'] = None):
        self.loop = loop
        self.fc = fc
        self.outer = outer
        self.breaks = False
        self.element_effects: T.List[str] = []
        top = outer.top if outer is not None else loop
        self.top = top
        self._inside = {id(n) for n in ast.walk(top)}
        self._defined: T.Set[str] = set()
        for n in ast.walk(top):
            if isinstance(n, ast.Name) and isinstance(n.ctx, ast.Store):
                self._defined.add(n.id)

    def all_defined(self) -> T.Set[str]:
        out = set(self._defined)
        o = self.outer
        while o is not None:
            out |= o._defined
            o = o.outer
        return out

    def read_outside(self, name: str) -> bool:
        return any(id(n) not in self._inside for n in self.fc.loads.get(name, []))

    def defined_inside(self, name: str) -> bool:
        """The container is created afresh inside the loop body (plain assignment in the body)."""
        for n in ast.walk(self.top):
            if isinstance(n, (ast.Assign, ast.AnnAssign)) and n is not self.top:
                tg = n.targets if isinstance(n, ast.Assign) else [n.target]
                if any(isinstance(t, ast.Name) and t.id == name for t in tg):
                    vals = self.fc.values.get(name, [])
                    return all(id(v) in self._inside for v in vals) and name not in self.fc.params and not self.read_outside(name)
        return False
