"""C01.R9 (documented index bounds of array.get / format placeholders: K6 decision tables over ordering worlds) and
C01.R10 (presence of an optional `object` argument is decided by identity with None, never by truthiness: K7/K8)."""
from __future__ import annotations

import ast
import copy
import typing as T

from ..core import Module, Undecided, norm, short, attr_chain
from ..report import RuleCtx
from .. import tables
from ..tables import Atom

PRIM = 'mesonbuild/interpreter/primitives/'
ARRAY = PRIM + 'array.py'
STRING = PRIM + 'string.py'


class _Unchain(ast.NodeTransformer):
    """`a < b < c` -> `a < b and b < c` (the middle operands of the anchored bounds tests are pure)."""

    def visit_Compare(self, n: ast.Compare) -> ast.AST:
        self.generic_visit(n)
        if len(n.ops) == 1:
            return n
        parts = []
        left = n.left
        for op, right in zip(n.ops, n.comparators):
            parts.append(ast.Compare(left=copy.deepcopy(left), ops=[op], comparators=[copy.deepcopy(right)]))
            left = right
        return ast.copy_location(ast.BoolOp(op=ast.And(), values=parts), n)


class _Unpack(ast.NodeTransformer):
    """`a, b = args` (a name on the right) -> `a = args[0]; b = args[1]`, so that sa.tables can inline the single-definition locals."""

    def visit_Assign(self, n: ast.Assign) -> T.Any:
        if len(n.targets) == 1 and isinstance(n.targets[0], (ast.Tuple, ast.List)) and isinstance(n.value, ast.Name) \
                and all(isinstance(t, ast.Name) for t in n.targets[0].elts):
            out = []
            for i, t in enumerate(n.targets[0].elts):
                st = ast.Assign(targets=[ast.Name(id=t.id, ctx=ast.Store())],        # type: ignore[attr-defined]
                                value=ast.Subscript(value=ast.Name(id=n.value.id, ctx=ast.Load()), slice=ast.Constant(value=i), ctx=ast.Load()))
                out.append(ast.copy_location(st, n))
            return out
        return n


def _unchained(fn: ast.FunctionDef) -> ast.FunctionDef:
    f = _Unpack().visit(_Unchain().visit(copy.deepcopy(fn)))
    ast.fix_missing_locations(f)
    return f


def _bounds_table(ctx: RuleCtx, mod: Module, qn: str, fn: ast.FunctionDef, index: str, length: str, lower: bool,
                  classify: T.Callable[[tables.Row], str], want_in: str, want_out: T.Callable[[tables.Row], str], inline_calls: T.Iterable[str] = ()) -> None:
    """Rows of `fn` against the reference: in range iff (-length <= index) < length (lower bound only when `lower`).

    Worlds: the position of the index relative to the ordered points -length < 0 < length (a non-empty sequence); every ordering atom
    between the index and one of these points is decided by the position, all other atoms are free."""
    tab = tables.extract(_unchained(fn), name=qn, inline_calls=inline_calls)
    neg = f'-{length}'
    points = {neg: 2, '0': 4, length: 6}
    order_atoms: T.Dict[Atom, T.Tuple[str, str, str]] = {}
    free: T.List[Atom] = []
    for a in tab.atoms():
        if a.kind == 'cmp' and index in a.args[1:]:
            other = a.args[2] if a.args[1] == index else a.args[1]
            if other not in points:
                raise Undecided(f'{qn}: bounds test {a!r} compares the index with something else than -length, 0 or length')
            order_atoms[a] = a.args
        elif a.kind == 'cmp' and (set(a.args[1:]) & set(points)) and a.args[1] != a.args[2] and set(a.args[1:]) <= set(points) | {index}:
            raise Undecided(f'{qn}: test {a!r} relates the bounds to each other')
        else:
            free.append(a)
    if not any(length in a.args[1:] for a in order_atoms):
        raise Undecided(f'{qn}: no ordering test between {index} and {length} found')
    if len(free) > 6:
        raise Undecided(f'{qn}: too many free atoms')

    def val(x: str, pos: int) -> int:
        return pos if x == index else points[x]
    n = 0
    bad: T.Dict[str, T.Tuple[tables.Row, str, str, str]] = {}
    names = {1: f'{index} < {neg}', 2: f'{index} == {neg}', 3: f'{neg} < {index} < 0', 4: f'{index} == 0', 5: f'0 < {index} < {length}', 6: f'{index} == {length}', 7: f'{index} > {length}'}
    for pos in range(1 if lower else 4, 8):
        in_range = (2 <= pos < 6) if lower else (pos < 6)
        for bits in range(1 << len(free)):
            w: T.Dict[Atom, bool] = {a: bool(bits >> i & 1) for i, a in enumerate(free)}
            for a, (op, x, y) in order_atoms.items():
                w[a] = (val(x, pos) < val(y, pos)) if op == 'lt' else (val(x, pos) == val(y, pos))
            rows = tab.fire(w)
            if not rows:
                continue        # an inconsistent assignment of the free atoms
            if len(rows) != 1:
                raise Undecided(f'{qn}: {len(rows)} rows fire in one world')
            n += 1
            got = classify(rows[0])
            want = want_in if in_range else want_out(rows[0])
            if got != want:
                bad.setdefault(repr(rows[0]), (rows[0], got, want, names[pos]))
    for key, (row, got, want, where) in bad.items():
        ctx.violation(mod, qn, key, f'for an index with {where} the code does `{got}`; the documented bounds ({"-length <= " if lower else ""}index < length is in range) require `{want}`',
                      row.path.events[-1].node if row.path.events else fn)
    if not bad:
        ctx.ok(f'{qn}: {len(tab.rows)} rows agree with the documented bounds on {n} worlds (7 index positions x free atoms)')
    ctx.floor(f'{qn}: worlds compared', n, 4)


def r9(ctx: RuleCtx) -> None:
    repo = ctx.repo
    # array.get(index[, fallback]): every index that array[index] accepts (-len <= i < len) returns the element, unmodified index
    mod = repo.module(ARRAY)
    fn = None
    for st in mod.cls('ArrayHolder').body:
        if isinstance(st, ast.FunctionDef) and any(isinstance(d, ast.Call) and (attr_chain(d.func) or '').endswith('.method') and d.args and isinstance(d.args[0], ast.Constant)
                                                   and d.args[0].value == 'get' for d in st.decorator_list):
            fn = st
    if fn is None:
        raise Undecided('ArrayHolder registers no `get` method')
    qn = f'ArrayHolder.{fn.name}'

    def classify(r: tables.Row) -> str:
        if r.outcome[0] == 'raise':
            return 'raise ' + r.outcome[1]
        return 'return ' + r.outcome[1]

    def want_out(r: tables.Row) -> str:
        absent = r.conds.get(Atom('is', ('ARG1[1]', 'None')))
        if absent is None:
            return '<fallback tested for absence by `is None`>'
        return 'raise InvalidArguments' if absent else 'return ARG1[1]'
    _bounds_table(ctx, mod, qn, fn, 'ARG1[0]', 'len(self.held_object)', True, classify, 'return self.held_object[ARG1[0]]', want_out)
    # str.format: placeholder @N@ is valid iff N < number of arguments
    smod = repo.module(STRING)
    fm = None
    for st in smod.cls('StringHolder').body:
        if isinstance(st, ast.FunctionDef) and any(isinstance(d, ast.Call) and (attr_chain(d.func) or '').endswith('.method') and d.args and isinstance(d.args[0], ast.Constant)
                                                   and d.args[0].value == 'format' for d in st.decorator_list):
            fm = st
    if fm is None:
        raise Undecided('StringHolder registers no `format` method')
    subs = [c for c in ast.walk(fm) if isinstance(c, ast.Call) and (attr_chain(c.func) or '').endswith('.sub') and len(c.args) >= 2]
    if len(subs) != 1:
        raise Undecided('StringHolder.format: expected one regex substitution with a replacement callback')
    cb = subs[0].args[1] if attr_chain(subs[0].func) == 're.sub' and len(subs[0].args) >= 3 else subs[0].args[0]      # re.sub(p, cb, s) / P.sub(cb, s)
    nested = {s_.name: s_ for s_ in ast.walk(fm) if isinstance(s_, ast.FunctionDef) and s_ is not fm}
    if isinstance(cb, ast.Name) and cb.id in nested:
        rfn = nested[cb.id]
    else:
        raise Undecided(f'StringHolder.format: replacement callback {norm(cb)} is not a local function')
    cands = [f'StringHolder.{fm.name}.{rfn.name}']
    lens = {norm(c) for c in ast.walk(rfn) if isinstance(c, ast.Call) and norm(c.func) == 'len' and len(c.args) == 1}
    if len(lens) != 1:
        raise Undecided(f'{cands[0]}: expected one len(...) in the bounds test')
    length = next(iter(lens))
    seq = length[4:-1]
    tab0 = tables.extract(rfn, name=cands[0])
    idx = {a.args[1] if a.args[2] == length else a.args[2] for a in tab0.atoms() if a.kind == 'cmp' and length in a.args[1:]}
    if len(idx) != 1:
        raise Undecided(f'{cands[0]}: cannot identify the placeholder index compared with {length}')
    index = next(iter(idx))
    _bounds_table(ctx, smod, cands[0], rfn, index, length, False, classify, f'return {seq}[{index}]', lambda r: 'raise InvalidArguments')


# ---------------------------------------------------------------------------
# R10
# ---------------------------------------------------------------------------

R10_FILES = [PRIM + f for f in ('array.py', 'dict.py', 'string.py', 'integer.py', 'boolean.py', 'range.py')] + \
    ['mesonbuild/interpreter/interpreter.py', 'mesonbuild/interpreter/interpreterobjects.py', 'mesonbuild/interpreter/mesonmain.py']


def _truth_leaves(e: ast.AST, in_truth: bool) -> T.Iterator[ast.AST]:
    """Sub-expressions whose truth value is taken when `e` is evaluated (in_truth: the value of e itself is used as a truth value)."""
    if isinstance(e, ast.BoolOp):
        for i, v in enumerate(e.values):
            yield from _truth_leaves(v, in_truth or i < len(e.values) - 1)
    elif isinstance(e, ast.UnaryOp) and isinstance(e.op, ast.Not):
        yield from _truth_leaves(e.operand, True)
    elif isinstance(e, ast.IfExp):
        yield from _truth_leaves(e.test, True)
        yield from _truth_leaves(e.body, in_truth)
        yield from _truth_leaves(e.orelse, in_truth)
    elif isinstance(e, ast.Call) and isinstance(e.func, ast.Name) and e.func.id == 'bool' and len(e.args) == 1:
        yield from _truth_leaves(e.args[0], True)
    elif isinstance(e, ast.NamedExpr):
        yield from _truth_leaves(e.value, in_truth)
    elif in_truth:
        yield e


def _truth_positions(fn: ast.AST) -> T.Iterator[ast.AST]:
    for n in ast.walk(fn):
        if isinstance(n, (ast.If, ast.While, ast.IfExp, ast.Assert)):
            yield from _truth_leaves(n.test, True)
        elif isinstance(n, ast.comprehension):
            for c in n.ifs:
                yield from _truth_leaves(c, True)
        elif isinstance(n, ast.BoolOp):
            # value context: every operand but the last is truth-tested (nested ones are reached by the walk as well; duplicates are harmless)
            for v in n.values[:-1]:
                yield from _truth_leaves(v, True)
        elif isinstance(n, ast.UnaryOp) and isinstance(n.op, ast.Not):
            yield from _truth_leaves(n.operand, True)
        elif isinstance(n, ast.Call) and isinstance(n.func, ast.Name) and n.func.id == 'bool' and len(n.args) == 1:
            yield from _truth_leaves(n.args[0], True)


class _OptScan:
    """Which local names ARE the optional value (V) or the argument tuple holding it at a known index (A), by reaching definitions."""

    def __init__(self, fn: ast.FunctionDef, vnames: T.Iterable[str], anames: T.Dict[str, int]):
        self.fn = fn
        self.V: T.Set[str] = set(vnames)
        self.A: T.Dict[str, int] = dict(anames)
        defs: T.Dict[str, T.List[T.Tuple[str, T.Any]]] = {}
        for n in ast.walk(fn):
            if isinstance(n, ast.Assign) and len(n.targets) == 1:
                t = n.targets[0]
                if isinstance(t, ast.Name):
                    defs.setdefault(t.id, []).append(('val', n.value))
                elif isinstance(t, (ast.Tuple, ast.List)):
                    for i, x in enumerate(t.elts):
                        if isinstance(x, ast.Name):
                            defs.setdefault(x.id, []).append(('elem', (n.value, i, len(t.elts))))
            elif isinstance(n, (ast.AugAssign, ast.AnnAssign, ast.For, ast.NamedExpr, ast.comprehension, ast.With)):
                for x in ast.walk(getattr(n, 'target', n) if not isinstance(n, ast.With) else ast.Tuple(elts=[i.optional_vars for i in n.items if i.optional_vars is not None], ctx=ast.Store())):
                    if isinstance(x, ast.Name) and isinstance(x.ctx, ast.Store):
                        defs.setdefault(x.id, []).append(('other', None))
        changed = True
        while changed:
            changed = False
            for name, ds in defs.items():
                if name in self.V or name in self.A or name in vnames or name in anames:
                    continue
                if all(k == 'val' and self.is_value(v) for k, v in ds) or all(k == 'elem' and isinstance(v[0], ast.Name) and self.A.get(v[0].id) == v[1] for k, v in ds):
                    self.V.add(name)
                    changed = True
                elif all(k == 'val' and isinstance(v, ast.Name) and v.id in self.A for k, v in ds) and len({self.A[v.id] for _, v in ds}) == 1:
                    self.A[name] = self.A[ds[0][1].id]
                    changed = True

    def is_value(self, e: ast.AST) -> bool:
        if isinstance(e, ast.Name):
            return e.id in self.V
        if isinstance(e, ast.Subscript) and isinstance(e.value, ast.Name) and e.value.id in self.A and isinstance(e.slice, ast.Constant):
            return e.slice.value == self.A[e.value.id]
        return False


def _scan_optional(mod: Module, cls: T.Optional[ast.ClassDef], fn: ast.FunctionDef, vnames: T.Iterable[str], anames: T.Dict[str, int], depth: int,
                   seen: T.Set[T.Tuple[str, T.Tuple[str, ...]]]) -> T.List[T.Tuple[ast.FunctionDef, ast.AST]]:
    key = (fn.name, tuple(sorted(vnames)) + tuple(sorted(anames)))
    if key in seen:
        return []
    seen.add(key)
    sc = _OptScan(fn, vnames, anames)
    hits = [(fn, e) for e in _truth_positions(fn) if sc.is_value(e)]
    if depth > 0 and cls is not None:
        meths = {s.name: s for s in cls.body if isinstance(s, ast.FunctionDef)}
        for c in ast.walk(fn):
            if isinstance(c, ast.Call) and isinstance(c.func, ast.Attribute) and isinstance(c.func.value, ast.Name) and c.func.value.id == 'self':
                name = c.func.attr
                if name.startswith('__') and not name.endswith('__'):
                    pass        # private name: defined under the same spelling in the class body
                callee = meths.get(name)
                if callee is None:
                    continue
                ps = [a.arg for a in callee.args.args[1:]]
                v2: T.Set[str] = set()
                a2: T.Dict[str, int] = {}
                for p, a in zip(ps, c.args):
                    if sc.is_value(a):
                        v2.add(p)
                    elif isinstance(a, ast.Name) and a.id in sc.A:
                        a2[p] = sc.A[a.id]
                for k in c.keywords:
                    if k.arg and sc.is_value(k.value):
                        v2.add(k.arg)
                if v2 or a2:
                    hits += _scan_optional(mod, cls, callee, v2, a2, depth - 1, seen)
    return hits


_POSITIVE = '''
class Demo:
    @typed_pos_args('demo.get', str, optargs=[object])
    def get_method(self, args, kwargs):
        name, fallback = args
        return self._impl(name, fallback)

    def _impl(self, name, default):
        if name in self.table:
            return self.table[name]
        if default:
            return default
        raise KeyError(name)
'''


def object_optargs(fn: ast.FunctionDef) -> T.List[T.Tuple[str, int]]:
    """[(documented function name, index in the args tuple)] of optional positional arguments typed `object`."""
    out = []
    for d in fn.decorator_list:
        if isinstance(d, ast.Call) and (attr_chain(d.func) or '').split('.')[-1] == 'typed_pos_args' and d.args:
            nreq = len(d.args) - 1
            for k in d.keywords:
                if k.arg == 'optargs':
                    if not isinstance(k.value, (ast.List, ast.Tuple)):
                        raise Undecided(f'{fn.name}: optargs is not a list display')
                    for i, t in enumerate(k.value.elts):
                        names = {norm(x) for x in (t.elts if isinstance(t, ast.Tuple) else [t])}
                        if 'object' in names:
                            out.append((norm(d.args[0]).strip('\'"'), nreq + i))
    return out


def _instances(tree: ast.AST) -> T.Iterator[T.Tuple[T.Optional[ast.ClassDef], ast.FunctionDef, str, int]]:
    for c in ast.walk(tree):
        if isinstance(c, ast.ClassDef):
            for st in c.body:
                if isinstance(st, ast.FunctionDef):
                    for name, idx in object_optargs(st):
                        yield c, st, name, idx


def r10(ctx: RuleCtx) -> None:
    repo = ctx.repo
    pos = ast.parse(_POSITIVE)
    found = 0
    for c, fn, name, idx in _instances(pos):
        found += len(_scan_optional(None, c, fn, [], {fn.args.args[1].arg: idx}, 2, set()))     # type: ignore[arg-type]
    if found != 1:
        raise Undecided(f'built-in positive example of the optional-presence scan: {found} of 1 truthiness tests recognised')
    n = 0
    for rel in R10_FILES:
        mod = repo.module(rel)
        for c, fn, name, idx in _instances(mod.tree):
            params = [a.arg for a in fn.args.args]
            # (self, args, kwargs) for methods, (self, node, args, kwargs) for interpreter functions: the args tuple is the last-but-one parameter
            if len(params) < 3:
                raise Undecided(f'{c.name}.{fn.name}: unexpected signature for a typed_pos_args function')
            argsp = params[-2]
            n += 1
            hits = _scan_optional(mod, c, fn, [], {argsp: idx}, 2, set())
            qn = f'{c.name}.{fn.name}'
            for f, e in hits:
                ctx.violation(mod, f'{c.name}.{f.name}', f'{name}: truth value of the optional argument `{short(e, 40)}`',
                              f'{name}(): the optional argument #{idx + 1} accepts any value (typed `object`), but `{short(e, 40)}` is tested by truthiness: '
                              f'the legitimate values false, 0, \'\', [] and {{}} would be treated as "not given"; presence must be tested with `is None` / `is not None`', e)
            if not hits:
                ctx.ok(f'{name}: presence of the optional argument #{idx + 1} is never decided by truthiness ({qn} and the same-class helpers it is handed to)')
    ctx.floor('functions with an optional positional argument typed object', n, 4)


# ---------------------------------------------------------------------------
# R11: get_variable(name[, fallback]) reads exactly the variable table; a miss is the KeyError that selects the fallback
# ---------------------------------------------------------------------------

IB_REL = 'mesonbuild/interpreterbase/interpreterbase.py'


def _accessor_summary(ctx: RuleCtx) -> T.Optional[str]:
    """What InterpreterBase.get_variable does beyond indexing self.variables (read off its rows), or None if it cannot be summarised."""
    from .c01_sym import sym_paths, is_call
    im = ctx.repo.module(IB_REL)
    if not im.has_func('InterpreterBase.get_variable'):
        return None
    fn = im.func('InterpreterBase.get_variable')
    name = fn.args.args[1].arg
    other_tables = set()
    raises = set()
    for sp in sym_paths(fn):
        r = sp.result
        if sp.outcome == 'return' and isinstance(r, tuple) and r[0] == 'sub' and r[1][0] == 'name' and r[2] == ('name', name):
            if r[1][1] != 'self.variables':
                other_tables.add(r[1][1])
        elif sp.outcome == 'raise' and is_call(r):
            raises.add(r[2].split('.')[-1])
        else:
            return None
    bits = []
    if other_tables:
        bits.append(f'also resolves names from {sorted(other_tables)}')
    if raises and 'KeyError' not in raises:
        bits.append(f'signals an unknown name with {sorted(raises)}, not KeyError')
    return '; '.join(bits) if bits else ''


def r11(ctx: RuleCtx) -> None:
    from .c01_sym import sym_paths, is_call, show
    repo = ctx.repo
    n = 0
    for rel in R10_FILES:
        mod = repo.module(rel)
        for c, fn, name, idx in _instances(mod.tree):
            if name.split('.')[-1] != 'get_variable':
                continue
            meths = {s.name: s for s in c.body if isinstance(s, ast.FunctionDef) and s is not fn}
            argsp = [a.arg for a in fn.args.args][-2]
            qn = f'{c.name}.{fn.name}'
            sps = sym_paths(fn, handlers=True, helpers=meths, mod=mod)
            key = ('sub', ('name', argsp), ('const', 0))
            judged = 0
            for sp in sps:
                if sp.outcome != 'return' or any(a.kind == 'exc' for a in sp.actions):
                    continue
                r = sp.result
                if r == key or r == ('const', None):
                    continue            # disabler passed through
                # an `unholder_return`-style wrapper is applied by a decorator, not in the body
                if isinstance(r, tuple) and r[0] == 'sub' and r[1][0] == 'name' and r[1][1].split('.')[-1] == 'variables' and r[2] == key:
                    judged += 1
                    ctx.ok(f'{name}: a defined variable is read from {r[1][1]}[name]')
                    continue
                own = {s_.name for s_ in c.body if isinstance(s_, ast.FunctionDef)}
                if is_call(r) and r[4] == (key,) and (r[2] == 'self.held_object.get_variable' or (r[2] == 'self.get_variable' and 'get_variable' not in own)):
                    why = _accessor_summary(ctx)
                    if why:
                        judged += 1
                        ctx.violation(mod, qn, f'{name}: lookup through {r[2]}',
                                      f'{name}() looks the name up with the interpreter accessor {r[2]}(), which {why}: only variables may be reachable and a miss must '
                                      f'select the fallback (the handler catches KeyError)', sp.last_node)
                        continue
                fb = ('sub', ('name', argsp), ('const', idx))
                if is_call(r) and r[2].split('.')[-1] == '_holderify' and r[4] == (fb,):
                    # the miss row of a look-before-you-leap spelling: it must be selected by `name not in <the same table>`
                    tabs = {t[2][1] for t, v in sp.conds() if isinstance(t, tuple) and t[:2] in (('op', 'In'), ('op', 'NotIn')) and t[2][0] == key
                            and ((t[1] == 'In') != v)}
                    if len(tabs) == 1 and next(iter(tabs))[0] == 'name' and next(iter(tabs))[1].split('.')[-1] == 'variables':
                        continue
                    raise Undecided(f'{qn}: the fallback row is not selected by a membership test on the variable table')
                if r == fb:
                    continue
                raise Undecided(f'{qn}: the variable lookup has the shape {show(r)}, which this rule does not model')
            if not judged:
                raise Undecided(f'{qn}: no lookup row found')
            # the miss handler is KeyError (the exception a dict subscript raises)
            hs = {a.term.split('.')[-1] for sp in sps for a in sp.actions if a.kind == 'exc'}
            if hs:
                ctx.require(hs == {'KeyError'}, f'{name}: a miss is the KeyError of the table lookup', mod, qn, f'{name}: miss handler {sorted(hs)}',
                            f'{name}() handles {sorted(hs)} around the lookup; the dict lookup signals an unknown variable with KeyError', fn)
            n += 1
    ctx.floor('get_variable functions with a fallback', n, 1)


# ---------------------------------------------------------------------------
# R12: a duplicate-key guard tests the key that is stored (K8, guard / store agreement on one path)
# R13: str.underscorify replaces exactly the characters outside [a-zA-Z0-9] (K11, regex-language fact)
# ---------------------------------------------------------------------------

def _raising_in_tests(fn: ast.AST) -> T.Set[int]:
    """ids of the `X in D` atoms inside the test of an `if` whose body raises (a duplicate guard)."""
    out: T.Set[int] = set()
    for n in ast.walk(fn):
        if isinstance(n, ast.If) and n.body and isinstance(n.body[-1], ast.Raise) and not n.orelse:
            for c in ast.walk(n.test):
                if isinstance(c, ast.Compare) and len(c.ops) == 1 and isinstance(c.ops[0], ast.In):
                    out.add(id(c))
    return out


def _contains(big: T.Any, small: T.Any) -> bool:
    if big == small:
        return True
    return isinstance(big, tuple) and any(_contains(x, small) for x in big if isinstance(x, tuple))


def r12(ctx: RuleCtx) -> None:
    from .c01_sym import sym_paths, show
    from .c01_eval import IB, evaluator_helpers
    mod = ctx.repo.module(IB)
    n = 0
    for q, fn in mod.funcs().items():
        if not q.startswith('InterpreterBase.') or q.count('.') != 1:
            continue
        guards = _raising_in_tests(fn)
        if not guards:
            continue
        seen: T.Set[T.Tuple[str, str]] = set()
        for sp in sym_paths(fn, unroll=1, mod=mod):
            tested: T.List[T.Tuple[T.Any, T.Any]] = []          # (key, table) known absent on this path
            for a in sp.actions:
                if a.kind == 'cond' and id(a.node) in guards and a.val is False and isinstance(a.term, tuple) and a.term[:2] == ('op', 'In'):
                    tested.append((a.term[2][0], a.term[2][1]))
                elif a.kind == 'setitem':
                    table, key = a.term[0], a.term[1]
                    for gk, gt in tested:
                        if gt != table:
                            continue
                        desc = (show(gk), show(key))
                        if desc in seen:
                            continue
                        seen.add(desc)
                        n += 1
                        if gk == key:
                            ctx.ok(f'{q}: the duplicate guard on {show(table)} tests the key that is stored ({show(key)[:60]})')
                        elif _contains(key, gk) or _contains(gk, key):
                            ctx.violation(mod, q, f'duplicate guard tests {show(gk)[:80]} but stores under {show(key)[:80]}',
                                          f'{q} raises for a duplicate only when `{show(gk)[:80]}` is already in {show(table)}, but the entry is stored under '
                                          f'`{show(key)[:80]}` (derived from it): the guard can never see an earlier entry, a duplicate key silently overwrites', a.node)
                        else:
                            raise Undecided(f'{q}: guard key {show(gk)[:60]} and stored key {show(key)[:60]} are unrelated expressions')
    ctx.floor('duplicate-key guards followed by a store into the same table', n, 1)


def r13(ctx: RuleCtx) -> None:
    from .. import rx
    from .c01_sym import fold_expr
    from .c01_sym import sym_paths, is_call, subterms
    repo = ctx.repo
    smod = repo.module(STRING)
    # the documented method -> the helper it delegates to
    fm = None
    for st in smod.cls('StringHolder').body:
        if isinstance(st, ast.FunctionDef) and any(isinstance(d, ast.Call) and (attr_chain(d.func) or '').endswith('.method') and d.args and isinstance(d.args[0], ast.Constant)
                                                   and d.args[0].value == 'underscorify' for d in st.decorator_list):
            fm = st
    if fm is None:
        raise Undecided('StringHolder registers no `underscorify` method')
    calls = [c for c in ast.walk(fm) if isinstance(c, ast.Call) and isinstance(c.func, ast.Name) and len(c.args) == 1 and norm(c.args[0]) == 'self.held_object']
    if len(calls) != 1:
        raise Undecided('str.underscorify does not delegate to one helper applied to the held string')
    origin = smod.imports().get(calls[0].func.id, '')
    um = repo.module('mesonbuild/utils/universal.py')
    hname = origin.split('.')[-1] or calls[0].func.id
    if not um.has_func(hname):
        raise Undecided(f'str.underscorify: helper {hname} not found in utils/universal.py')
    hf = um.func(hname)
    p = hf.args.args[0].arg
    subs = []
    for sp in sym_paths(hf, mod=um):
        if sp.outcome == 'return':
            subs += [t for t in subterms(sp.result) if is_call(t) and (t[2] == 're.sub' or t[2].endswith('.sub'))]
    if len(subs) != 1:
        raise Undecided(f'{hname}: not a single regex substitution')
    c = subs[0]
    if c[2] == 're.sub' and len(c[4]) == 3:
        pat_t, repl, subj = c[4]
        pat = fold_expr(repo, um, ast.parse(pat_t[1], mode='eval').body) if pat_t[0] == 'name' else pat_t[1] if pat_t[0] == 'const' else None
        flags = 0
    elif len(c[4]) == 2:
        repl, subj = c[4]
        reg = fold_expr(repo, um, ast.parse(c[2][:-4], mode='eval').body)
        pat, flags = getattr(reg, 'pattern', None), getattr(reg, 'flags', 0)
    else:
        raise Undecided(f'{hname}: substitution call of unknown shape')
    if hasattr(pat, 'pattern'):
        pat, flags = pat.pattern, pat.flags
    if not isinstance(pat, str) or repl != ('const', '_') or subj != ('name', p):
        raise Undecided(f'{hname}: substitution is not `sub(<constant pattern>, "_", <argument>)`')
    # representative characters: ASCII letters/digits, underscore, punctuation, blank, non-ASCII letter, non-ASCII digit, combining mark
    keep = 'azAZ09mM5'
    other = ['_', '-', ' ', '.', '/', '+', '\t', '\n', 'é', 'ß', '٣', '中', '́']
    wrong_keep = [ch for ch in keep if rx.full_matches(pat, ch, flags)]
    wrong_other = [ch for ch in other if not rx.full_matches(pat, ch, flags)]
    ctx.require(not wrong_keep and not wrong_other, 'str.underscorify replaces exactly the characters outside [a-zA-Z0-9]', um, hname, f'underscorify pattern {pat!r}',
                f'the pattern {pat!r} of {hname} {"replaces " + repr(wrong_keep) if wrong_keep else ""}{" keeps " + repr(wrong_other) if wrong_other else ""}: '
                'the reference replaces every character that is not an ASCII letter or digit by `_`', hf)
    ctx.require(rx.full_matches(pat, '__', flags) is False, 'str.underscorify replaces character by character', um, hname, f'underscorify pattern {pat!r} per character',
                f'the pattern {pat!r} matches runs of characters: several characters would collapse into one `_`', hf)


# ---------------------------------------------------------------------------
# R14: array.contains() scans every element - a search loop leaves early only on success (K1 on the loop's exits)
# R7 extension (called from c01_lit.r7): dict.values() is ordered by the sorted keys
# ---------------------------------------------------------------------------

def _registered(cls: ast.ClassDef, name: str) -> T.Optional[ast.FunctionDef]:
    for st in cls.body:
        if isinstance(st, ast.FunctionDef) and any(isinstance(d, ast.Call) and (attr_chain(d.func) or '').endswith('.method') and d.args and isinstance(d.args[0], ast.Constant)
                                                   and d.args[0].value == name for d in st.decorator_list):
            return st
    return None


def r14(ctx: RuleCtx) -> None:
    from .c01_sym import sym_paths, is_call, show
    mod = ctx.repo.module(ARRAY)
    cls = mod.cls('ArrayHolder')
    fm = _registered(cls, 'contains')
    if fm is None:
        raise Undecided('ArrayHolder registers no `contains` method')
    funcs = [fm] + [n for n in ast.walk(fm) if isinstance(n, ast.FunctionDef) and n is not fm]
    # the search may live in a module-level function or a sibling method the registered method hands the array to
    meths_c = {s_.name: s_ for s_ in cls.body if isinstance(s_, ast.FunctionDef)}
    for _ in range(2):
        for f0 in list(funcs):
            for c in ast.walk(f0):
                if isinstance(c, ast.Call):
                    tgt = None
                    if isinstance(c.func, ast.Name) and mod.has_func(c.func.id):
                        tgt = mod.func(c.func.id)
                    elif isinstance(c.func, ast.Attribute) and isinstance(c.func.value, ast.Name) and c.func.value.id in ('self', 'cls') and c.func.attr in meths_c:
                        tgt = meths_c[c.func.attr]
                    if tgt is not None and tgt not in funcs:
                        funcs.append(tgt)
    loops = [(f, n) for f in funcs for n in ast.walk(f) if isinstance(n, (ast.For, ast.While)) and not any(n in ast.walk(g) for g in funcs if g is not f and g in ast.walk(f))]
    if not loops:
        # no loop: the scan must be an exhaustive any()/in over the array
        rets = [n for f in funcs for n in ast.walk(f) if isinstance(n, ast.Return) and n.value is not None]
        ok = bool(rets) and any(isinstance(c, ast.Call) and isinstance(c.func, ast.Name) and c.func.id == 'any' and c.args and isinstance(c.args[0], (ast.GeneratorExp, ast.ListComp))
                                for r in rets for c in ast.walk(r.value))
        if not ok:
            raise Undecided('array.contains: neither a search loop nor any() over a generator')
        ctx.ok('array.contains: the scan is an any() over all elements (no early exit to judge)')
        return
    n = 0
    for f, loop in loops:
        inside = {id(x) for x in ast.walk(loop) if isinstance(x, ast.Return)}
        if not inside:
            continue
        qn = f'ArrayHolder.{fm.name}' if f is fm else (f'ArrayHolder.{fm.name}.{f.name}' if any(f is x for x in ast.walk(fm)) else f.name)
        seen: T.Set[str] = set()
        for sp in sym_paths(f, unroll=1, mod=mod):
            if sp.outcome != 'return' or id(sp.last_node) not in inside:
                continue
            r = sp.result
            desc = show(r)[:80]
            if desc in seen:
                continue
            seen.add(desc)
            n += 1
            truth = [v for t, v in sp.conds() if t == r]
            if r == ('const', True) or (truth and truth[-1] is True):
                ctx.ok(f'{qn}: the scan loop is left early with {desc} only on success')
            elif r[0] == 'const' or is_call(r) or r[0] in ('name', 'op'):
                ctx.violation(mod, qn, f'array.contains: early exit from the scan loop with {desc}',
                              f'the scan loop of array.contains() returns `{desc}` without having tested it: when it is false the remaining elements are never examined '
                              '(contains() must be true if ANY element, also a later or nested one, equals the argument)', sp.last_node)
            else:
                raise Undecided(f'{qn}: early exit with a value of unknown shape: {desc}')
    ctx.floor('early exits of the array.contains scan loop judged', n, 1)


def dict_values_order(ctx: RuleCtx) -> None:
    """dict.values(): the order of the returned values derives from the sorted keys (docs/yaml/elementary/dict.yml)."""
    mod = ctx.repo.module(PRIM + 'dict.py')
    cls = mod.cls('DictHolder')
    fm = _registered(cls, 'values')
    if fm is None:
        return          # C01.R8 reports a missing documented method
    meths = {s.name: s for s in cls.body if isinstance(s, ast.FunctionDef)}
    held = 'self.held_object'

    def source(e: ast.AST, fn: ast.FunctionDef, depth: int = 0) -> str:
        """'sorted' | 'held' (insertion order) | raises Undecided"""
        if isinstance(e, ast.Call):
            f = attr_chain(e.func)
            if f == 'sorted' and e.args and not e.keywords:
                a = norm(e.args[0])
                if a in (held, held + '.keys()', held + '.items()'):
                    return 'sorted'
                raise Undecided(f'dict.values: sorted() over {a}')
            if f in ('list', 'tuple', 'iter', 'reversed') and len(e.args) == 1:
                if f == 'reversed':
                    raise Undecided('dict.values: reversed order')
                return source(e.args[0], fn, depth)
            if f and f.startswith('self.') and f[5:] in meths and not e.args and depth < 2:
                kinds = {source(r.value, meths[f[5:]], depth + 1) for r in ast.walk(meths[f[5:]]) if isinstance(r, ast.Return) and r.value is not None}
                if len(kinds) == 1:
                    return next(iter(kinds))
                raise Undecided(f'dict.values: helper {f} has several result shapes')
            if norm(e) in (held + '.values()', held + '.items()', held + '.keys()'):
                return 'held'
            raise Undecided(f'dict.values: order source {norm(e)[:60]}')
        if isinstance(e, (ast.ListComp, ast.GeneratorExp)) and len(e.generators) == 1 and not e.generators[0].ifs:
            return source(e.generators[0].iter, fn, depth)
        if isinstance(e, ast.Name):
            defs = [s_ for s_ in ast.walk(fn) if isinstance(s_, ast.Assign) and len(s_.targets) == 1 and norm(s_.targets[0]) == e.id]
            fills = [l for l in ast.walk(fn) if isinstance(l, ast.For) and any(isinstance(c, ast.Call) and isinstance(c.func, ast.Attribute) and c.func.attr == 'append'
                                                                             and norm(c.func.value) == e.id for c in ast.walk(l))]
            touched = [c.func.attr for c in ast.walk(fn) if isinstance(c, ast.Call) and isinstance(c.func, ast.Attribute) and norm(c.func.value) == e.id
                       and c.func.attr not in ('append', 'index', 'count', 'copy')]
            if touched:
                # the local is reordered in place: a bare .sort() of the keys is the sorted order, anything else is not read
                inner = source(defs[0].value, fn, depth) if len(defs) == 1 else None
                if touched == ['sort'] and inner == 'held' and norm(defs[0].value) in (f'list({held})', f'list({held}.keys())') and \
                        all(not c.args and not c.keywords for c in ast.walk(fn) if isinstance(c, ast.Call) and isinstance(c.func, ast.Attribute) and c.func.attr == 'sort'):
                    return 'sorted'
                raise Undecided(f'dict.values: {e.id} is modified in place by {touched}')
            if len(defs) == 1 and not fills and not isinstance(defs[0].value, (ast.List, ast.Constant)):
                return source(defs[0].value, fn, depth)
            if len(fills) == 1 and len(defs) == 1 and isinstance(defs[0].value, ast.List) and not defs[0].value.elts:
                return source(fills[0].iter, fn, depth)
            raise Undecided(f'dict.values: cannot follow {e.id}')
        if norm(e) == held:
            return 'held'
        raise Undecided(f'dict.values: order source {norm(e)[:60]}')
    aliases = {s_.targets[0].id for s_ in ast.walk(fm) if isinstance(s_, ast.Assign) and len(s_.targets) == 1 and isinstance(s_.targets[0], ast.Name) and norm(s_.value) == held}
    stores = [n.id for n in ast.walk(fm) if isinstance(n, ast.Name) and isinstance(n.ctx, ast.Store)]
    aliases = {a for a in aliases if stores.count(a) == 1}
    if aliases:
        class _Alias(ast.NodeTransformer):
            def visit_Name(self, n: ast.Name) -> ast.AST:
                if isinstance(n.ctx, ast.Load) and n.id in aliases:
                    return ast.copy_location(ast.parse(held, mode='eval').body, n)
                return n
        fm = _Alias().visit(copy.deepcopy(fm))
        ast.fix_missing_locations(fm)
    rets = [r for r in ast.walk(fm) if isinstance(r, ast.Return) and r.value is not None]
    if not rets:
        raise Undecided('dict.values never returns a value')
    for r in rets:
        k = source(r.value, fm)
        ctx.require(k == 'sorted', 'dict.values() enumerates the values in the order of the sorted keys', mod, f'DictHolder.{fm.name}', f'dict.values order source: {k}',
                    f'dict.values() returns `{short(r.value, 70)}`: the values come in insertion order of the held dictionary; the reference prescribes the order of the sorted keys '
                    '(matching dict.keys())', r)


# ---------------------------------------------------------------------------
# R15: a core-language callable that takes an arbitrary value receives it unflattened
# ---------------------------------------------------------------------------

DECOR_REL = 'mesonbuild/interpreterbase/decorators.py'
BASEOBJ_REL = 'mesonbuild/interpreterbase/baseobjects.py'
R15_FILES = [PRIM + f for f in ('array.py', 'dict.py', 'string.py', 'integer.py', 'boolean.py', 'range.py')]
R15_NAMED = {'mesonbuild/interpreter/interpreter.py': {'set_variable', 'get_variable', 'is_variable', 'unset_variable'},
             'mesonbuild/interpreter/interpreterobjects.py': {'subproject.get_variable'}}


def _expr_guards(node: ast.AST, guards: T.List[T.Tuple[T.Optional[ast.AST], bool]]) -> T.Iterator[T.Tuple[ast.Call, T.List[T.Tuple[T.Optional[ast.AST], bool]]]]:
    """Calls inside a simple statement / expression with the tests they are control dependent on *within the expression*: arms of a conditional
    expression, later operands of and/or.  Calls inside comprehensions / lambdas get the unknown guard (None, True)."""
    if isinstance(node, ast.IfExp):
        yield from _expr_guards(node.test, guards)
        yield from _expr_guards(node.body, guards + [(node.test, True)])
        yield from _expr_guards(node.orelse, guards + [(node.test, False)])
        return
    if isinstance(node, ast.BoolOp):
        g = list(guards)
        for v in node.values:
            yield from _expr_guards(v, g)
            g = g + [(v, isinstance(node.op, ast.And))]
        return
    if isinstance(node, (ast.ListComp, ast.SetComp, ast.DictComp, ast.GeneratorExp, ast.Lambda)):
        guards = guards + [(None, True)]
    if isinstance(node, ast.Call):
        yield node, guards
    for ch in ast.iter_child_nodes(node):
        yield from _expr_guards(ch, guards)


def _flatten_guard_flags(mod: Module, qn: str) -> T.Tuple[T.Set[str], T.List[ast.Call]]:
    """Flag names under whose absence the dispatcher `qn` flattens the positional arguments: every `flatten(..)` call must be control dependent on
    `not getattr(<callee>, FLAG, False)` (the test may be named as a local first).  Returns (flags, unguarded flatten calls)."""
    from .c01_ops import _guarded
    fn = mod.func(qn)
    single: T.Dict[str, ast.AST] = {}
    counts: T.Dict[str, int] = {}
    for n in ast.walk(fn):
        if isinstance(n, ast.Assign) and len(n.targets) == 1 and isinstance(n.targets[0], ast.Name):
            counts[n.targets[0].id] = counts.get(n.targets[0].id, 0) + 1
            single[n.targets[0].id] = n.value
        elif isinstance(n, (ast.AugAssign, ast.AnnAssign, ast.NamedExpr)) and isinstance(n.target, ast.Name):
            counts[n.target.id] = counts.get(n.target.id, 0) + 2
    flags: T.Set[str] = set()
    unguarded: T.List[ast.Call] = []
    nflat = 0
    for st, guards in _guarded(fn.body, []):
        if isinstance(st, (ast.If, ast.For, ast.While, ast.With, ast.Try, ast.FunctionDef)):
            continue
        calls = [(c, g) for c, g in _expr_guards(st, list(guards)) if (attr_chain(c.func) or '').split('.')[-1] == 'flatten']
        for c, cguards in calls:
            nflat += 1
            found = None
            inverted = False
            for test, pol in cguards:
                if test is None:
                    continue
                t, p = test, pol
                for _ in range(3):
                    if isinstance(t, ast.UnaryOp) and isinstance(t.op, ast.Not):
                        t, p = t.operand, not p
                    elif isinstance(t, ast.Name) and counts.get(t.id) == 1:
                        t = single[t.id]
                if isinstance(t, ast.Call) and norm(t.func) == 'getattr' and len(t.args) == 3 and isinstance(t.args[1], ast.Constant) and isinstance(t.args[1].value, str) \
                        and isinstance(t.args[2], ast.Constant) and t.args[2].value is False:
                    if p is False:
                        found = t.args[1].value
                    else:
                        inverted = True
            if found is None and inverted:
                unguarded.append(c)         # flattened exactly when the callee carries the flag: the polarity is reversed
            elif found is None:
                # "unconditional" is claimed only when no enclosing test could carry the flag in another spelling (a helper predicate, hasattr ...)
                for test, pol in cguards:
                    t = test
                    if isinstance(t, ast.Name) and counts.get(t.id) == 1:
                        t = single[t.id]
                    if test is None or any(isinstance(x, ast.Call) and norm(x.func) != 'isinstance' for x in ast.walk(t)) or \
                            any(isinstance(x, ast.Name) and counts.get(x.id, 0) > 1 for x in ast.walk(t)):
                        raise Undecided(f'{qn}: flatten(..) depends on `{short(test, 60) if test is not None else "a comprehension / lambda"}`, a test this rule does not read')
                unguarded.append(c)
            else:
                flags.add(found)
    if not nflat:
        raise Undecided(f'{qn}: no flatten(..) call found - positional arguments are flattened in a way this rule does not read')
    return flags, unguarded


def _object_positions(fn: ast.FunctionDef) -> T.List[T.Tuple[str, str]]:
    """[(documented name, position description)] of the positional parameters whose declared type admits any value (`object`)."""
    out = []
    for d in fn.decorator_list:
        if isinstance(d, ast.Call) and (attr_chain(d.func) or '').split('.')[-1] == 'typed_pos_args' and d.args and isinstance(d.args[0], ast.Constant):
            name = str(d.args[0].value)

            def has_object(t: ast.AST) -> bool:
                return any(norm(x) == 'object' for x in (t.elts if isinstance(t, ast.Tuple) else [t]))
            for i, t in enumerate(d.args[1:]):
                if has_object(t):
                    out.append((name, f'argument #{i + 1}'))
            for k in d.keywords:
                if k.arg in ('optargs',):
                    if not isinstance(k.value, (ast.List, ast.Tuple)):
                        raise Undecided(f'{fn.name}: optargs is not a list display')
                    for i, t in enumerate(k.value.elts):
                        if has_object(t):
                            out.append((name, f'optional argument #{len(d.args) + i}'))
                elif k.arg == 'varargs' and has_object(k.value):
                    out.append((name, 'variadic arguments'))
            if not out:
                out.append((name, ''))
    return out


def r15(ctx: RuleCtx) -> None:
    repo = ctx.repo
    # consumer side: both dispatchers flatten positional arguments unless the callee carries one and the same flag
    flags: T.Set[str] = set()
    for rel, qn in ((IB_REL, 'InterpreterBase.function_call'), (BASEOBJ_REL, 'InterpreterObject.method_call')):
        mod = repo.module(rel)
        fl, ung = _flatten_guard_flags(mod, qn)
        ctx.require(not ung and len(fl) == 1, f'{qn}: positional arguments are flattened only when the callee lacks the flag {sorted(fl)}', mod, qn, 'flatten() guarded by the no-flattening flag',
                    f'{qn} flattens the positional arguments {"unconditionally (or exactly when the flag is set)" if ung else "under the flags " + str(sorted(fl))}: a callee that asks for unflattened arguments '
                    '(set_variable, array.contains, dict.get ...) would see a one-element array as its element', ung[0] if ung else mod.func(qn))
        flags |= fl
    if len(flags) != 1:
        ctx.violation(repo.module(IB_REL), 'InterpreterBase.function_call', 'no-flattening flag names', f'function_call and method_call test different flags {sorted(flags)}', None)
        return
    flag = next(iter(flags))
    dm = repo.module(DECOR_REL)
    setters = set()
    for q, f in dm.funcs().items():
        if '.' in q or not f.args.args:
            continue
        p0 = f.args.args[0].arg
        for c in ast.walk(f):
            if isinstance(c, ast.Call) and norm(c.func) == 'setattr' and len(c.args) == 3 and norm(c.args[0]) == p0 and isinstance(c.args[1], ast.Constant) and c.args[1].value == flag \
                    and isinstance(c.args[2], ast.Constant) and c.args[2].value is True:
                setters.add(q)
    if not setters:
        raise Undecided(f'decorators.py: no decorator sets the flag {flag!r} the dispatchers test')
    # producer side: every core-language callable with an `object` positional parameter carries the flag
    n = 0
    for rel in R15_FILES + sorted(R15_NAMED):
        mod = repo.module(rel)
        for c in ast.walk(mod.tree):
            if not isinstance(c, ast.ClassDef):
                continue
            for fn in c.body:
                if not isinstance(fn, ast.FunctionDef):
                    continue
                pos = [(nm, where) for nm, where in _object_positions(fn) if where and (rel not in R15_NAMED or nm in R15_NAMED[rel])]
                if not pos:
                    continue
                n += 1
                decos = {(attr_chain(d.func if isinstance(d, ast.Call) else d) or '').split('.')[-1] for d in fn.decorator_list}
                name = pos[0][0]
                ctx.require(bool(decos & setters), f'{name}(): takes any value ({", ".join(w for _, w in pos)}) and is marked {sorted(setters)[0]}', mod, f'{c.name}.{fn.name}',
                            f'{name}: arbitrary-value arguments are not flattened',
                            f'{name}() accepts any value as {", ".join(w for _, w in pos)} but is not decorated {sorted(setters)[0]}: the dispatcher flattens its positional arguments first, '
                            'so an array value arrives as its elements (a one-element array as its element, any other length as a wrong argument count)', fn)
    ctx.floor('core-language callables with a positional parameter typed object', n, 7)


# ---------------------------------------------------------------------------
# R16: range(stop) / range(start, stop[, step]) fails exactly when start < 0, stop < start or step < 1 (docs/yaml/functions/range.yaml)
# ---------------------------------------------------------------------------

INTERP_REL = 'mesonbuild/interpreter/interpreter.py'
_ORD = {'Lt': lambda a, b: a < b, 'LtE': lambda a, b: a <= b, 'Gt': lambda a, b: a > b, 'GtE': lambda a, b: a >= b, 'Eq': lambda a, b: a == b, 'NotEq': lambda a, b: a != b}


def r16(ctx: RuleCtx) -> None:
    from .c01_sym import sym_paths, is_call, show
    repo = ctx.repo
    mod = repo.module(INTERP_REL)
    fn = None
    for st in mod.cls('Interpreter').body:
        if isinstance(st, ast.FunctionDef) and any(nm == 'range' for nm, _ in _object_positions(st)):
            fn = st
    if fn is None:
        raise Undecided('Interpreter registers no function with typed_pos_args(\'range\', ...)')
    qn = f'Interpreter.{fn.name}'
    params = [a.arg for a in fn.args.args]
    if len(params) < 3:
        raise Undecided(f'{qn}: unexpected signature')
    argsp = params[-2]
    A = [('sub', ('name', argsp), ('const', i)) for i in range(3)]
    helpers = {s_.name: s_ for s_ in mod.cls('Interpreter').body if isinstance(s_, ast.FunctionDef) and s_.name.startswith('_') and not s_.name.startswith('__')
               and all(norm(d) == 'staticmethod' for d in s_.decorator_list)}
    sps = sym_paths(fn, helpers=helpers, mod=mod)
    # reference: per presence configuration of the optional arguments, the terms playing start / stop / step
    configs = {(True, True): (('const', 0), A[0], ('const', 1)),         # range(stop)
               (False, True): (A[0], A[1], ('const', 1)),                # range(start, stop)
               (False, False): (A[0], A[1], A[2])}                       # range(start, stop, step)
    NONE = ('const', None)

    def none_test(t: T.Any, v: bool) -> T.Optional[T.Tuple[int, bool]]:
        if isinstance(t, tuple) and t[0] == 'op' and t[1] in ('Is', 'IsNot', 'Eq', 'NotEq') and len(t[2]) == 2 and NONE in t[2]:
            x = t[2][0] if t[2][1] == NONE else t[2][1]
            if x in A[1:]:
                return A.index(x), (v if t[1] in ('Is', 'Eq') else not v)
            raise Undecided(f'{qn}: None test on {show(x)}')
        return None
    worlds = bad = 0
    reported: T.Set[str] = set()
    for (stop_absent, step_absent), (S, E, P) in configs.items():
        absent = {1: stop_absent, 2: step_absent}
        for s in (-1, 0, 1, 2):
            for e in (-2, -1, 0, 1, 2, 3):
                for p in (-1, 0, 1, 2):
                    pos: T.Dict[T.Any, int] = {}
                    for term, val in ((S, s), (E, e), (P, p)):
                        if term[0] != 'const':
                            pos[term] = val
                    if S[0] == 'const' and s != S[1] or P[0] == 'const' and p != P[1]:
                        continue

                    def value(x: T.Any) -> int:
                        if isinstance(x, tuple) and x[0] == 'const' and isinstance(x[1], int) and not isinstance(x[1], bool):
                            return x[1]
                        if x in pos:
                            return pos[x]
                        raise Undecided(f'{qn}: ordering test on {show(x)}, which is not start, stop, step or an integer constant in this call form')

                    def holds(t: T.Any) -> bool:
                        if isinstance(t, tuple) and t[0] == 'op' and t[1] in _ORD and len(t[2]) == 2:
                            return _ORD[t[1]](value(t[2][0]), value(t[2][1]))
                        if isinstance(t, tuple) and t[0] == 'op' and t[1].startswith('Chain:'):
                            ops = t[1][6:].split(',')
                            if all(o in _ORD for o in ops):
                                return all(_ORD[o](value(a), value(b)) for o, a, b in zip(ops, t[2], t[2][1:]))
                        raise Undecided(f'{qn}: test of unknown shape {show(t)}')
                    fired = []
                    for sp in sps:
                        ok = True
                        for t, v in sp.conds():
                            nt = none_test(t, v)
                            if nt is not None:
                                ok = absent[nt[0]] == nt[1]
                            else:
                                ok = holds(t) == v
                            if not ok:
                                break
                        if ok:
                            fired.append(sp)
                    if len(fired) != 1:
                        raise Undecided(f'{qn}: {len(fired)} paths are consistent with one ordering world')
                    sp = fired[0]
                    worlds += 1
                    want_err = s < 0 or e < s or p < 1
                    form = 'range(stop)' if stop_absent else 'range(start, stop)' if step_absent else 'range(start, stop, step)'
                    rel = f'start {"<" if s < 0 else "==" if s == 0 else ">"} 0, stop {"<" if e < s else "==" if e == s else ">"} start, step {"<" if p < 1 else "==" if p == 1 else ">"} 1'
                    if want_err:
                        good = sp.outcome == 'raise'
                        got = 'returns ' + show(sp.result) if not good else ''
                    else:
                        r = sp.result
                        good = sp.outcome == 'return' and is_call(r) and r[2].split('.')[-1] == 'RangeHolder' and tuple(r[4]) == (S, E, P)
                        got = ('raises ' + (r[2] if is_call(r) else show(r))) if sp.outcome == 'raise' else 'returns ' + show(r)
                    if not good:
                        bad += 1
                        key = f'{form}: {"error expected" if want_err else "range expected"}; {got.split("(")[0]}'
                        if key not in reported:
                            reported.add(key)
                            ctx.violation(mod, qn, key, f'{form} with {rel}: the code {got}; the reference (start >= 0, stop >= start, step >= 1, defaults start=0 step=1) requires '
                                          f'{"an error" if want_err else "RangeHolder(start, stop, step)"}', sp.last_node)
    if not bad:
        ctx.ok(f'{qn}: fails exactly for start < 0, stop < start or step < 1 and otherwise builds RangeHolder(start, stop, step) with the documented defaults ({worlds} ordering worlds x 3 call forms)')
    ctx.floor(f'{qn}: ordering worlds compared', worlds, 60)
