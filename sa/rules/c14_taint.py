"""C14 helper: path-sensitive must-not-flow analysis "configuration value -> text argument of a placeholder scan".

sa.flow is flow-insensitive: in `do_conf_str_meson` the name `line` is bound to the result of
`do_define_meson` in one branch and passed to `do_replacement_meson` in the other, which a
flow-insensitive origin set reports as a flow.  Here the tags are propagated along every enumerated
path (sa.paths, loops unrolled twice, handlers included), with bottom-up summaries of the module's own
functions (DESIGN B.2).

Tags:  'V'        a value read from a ConfigurationData object (`.get(..)`, `.values`)
       'C'        the ConfigurationData object itself (parameter annotated with that class)
       'P:<name>' the caller-supplied parameter <name> of the analysed function
       'U:<f>'    result of an unknown callee that was handed a ConfigurationData object
A *scan* is `re.sub/subn(pattern, repl, TEXT)` / `<pattern>.sub/subn(repl, TEXT)`, or a call of a module
function one of whose parameters reaches such a TEXT (its summary says so).
"""
from __future__ import annotations

import ast
import typing as T

from ..core import Module, Undecided, norm, short, attr_chain
from ..paths import enumerate_paths

Tags = T.FrozenSet[str]
EMPTY: Tags = frozenset()

PURE_FUNCS = {'str', 'int', 'bool', 'len', 'repr', 'isinstance', 'list', 'tuple', 'set', 'sorted', 'dict', 'frozenset', 'float', 'min', 'max',
              'any', 'all', 'enumerate', 'zip', 'reversed', 'range', 'format', 'type', 'ord', 'chr', 'abs', 'sum', 'MesonException', 'KeyError'}
PURE_METHODS = {'strip', 'lstrip', 'rstrip', 'split', 'rsplit', 'splitlines', 'join', 'startswith', 'endswith', 'format', 'lower', 'upper', 'replace',
                'find', 'rfind', 'index', 'count', 'partition', 'rpartition', 'removeprefix', 'removesuffix', 'expandtabs', 'group', 'groups',
                'groupdict', 'start', 'end', 'span', 'get', 'keys', 'values', 'items', 'copy', 'search', 'match', 'fullmatch', 'encode', 'decode',
                'isspace', 'isdigit', 'title', 'zfill'}
MUTATORS = {'append', 'extend', 'add', 'update', 'insert', 'setdefault', 'appendleft'}
SCAN_FUNCS = {'re.sub', 're.subn'}
SCAN_METHODS = {'sub', 'subn'}
# scans that enumerate every match of the pattern in a text without substituting themselves (the caller assembles the result):
# `re.finditer/findall/split(pattern, TEXT)`, `<pattern>.finditer/findall(TEXT)` (`.split` is not listed as a method: str has one too)
ITER_SCAN_FUNCS = {'re.finditer', 're.findall', 're.split'}
ITER_SCAN_METHODS = {'finditer', 'findall'}
LOGGING = {'mlog', 'FeatureNew', 'FeatureDeprecated'}


class Sink(T.NamedTuple):
    func: str              # qualified name of the function containing the call
    call: ast.Call
    what: str              # 're.sub text' | 'parameter line of do_replacement_meson'
    tags: Tags
    path: str
    root: str = ''         # the re.sub-family call the text finally reaches


class Summary:
    def __init__(self) -> None:
        self.ret: Tags = EMPTY
        self.scan_params: T.Dict[str, str] = {}     # parameter name -> description of the scan it reaches
        self.sinks: T.List[Sink] = []               # every scan site inside (with the tags of its text)
        self.paths = 0


class Analysis:
    def __init__(self, mod: Module, conf_class: str = 'ConfigurationData'):
        self.mod = mod
        self.conf_class = conf_class
        self.summaries: T.Dict[str, Summary] = {}
        self.busy: T.Set[str] = set()
        self.unknown: T.Set[str] = set()
        self._reach: T.Dict[str, bool] = {}

    # -- resolution ---------------------------------------------------------
    def resolve(self, scope: str, name: str) -> T.Optional[str]:
        """Qualified name of the function `name` denotes inside function `scope` (nested def, sibling nested def, module function)."""
        parts = scope.split('.')
        for i in range(len(parts), -1, -1):
            q = '.'.join(parts[:i] + [name])
            if self.mod.has_func(q):
                return q
        return None

    def conf_params(self, q: str) -> T.Set[str]:
        """Names that denote a ConfigurationData object inside q: own annotated parameters and those of enclosing functions."""
        out: T.Set[str] = set()
        parts = q.split('.')
        for i in range(1, len(parts) + 1):
            qq = '.'.join(parts[:i])
            if not self.mod.has_func(qq):
                continue
            fn = self.mod.func(qq)
            for a in fn.args.posonlyargs + fn.args.args + fn.args.kwonlyargs:
                if a.annotation is not None and self.conf_class in norm(a.annotation):
                    out.add(a.arg)
        return out

    def params(self, q: str) -> T.List[str]:
        fn = self.mod.func(q)
        return [a.arg for a in fn.args.posonlyargs + fn.args.args + fn.args.kwonlyargs]

    def free_vars(self, q: str) -> T.List[str]:
        """Free variables of a nested function that are parameters / locals of an enclosing function: implicit arguments, bound to what the
        enclosing scope holds when the closure runs."""
        if '.' not in q or not self.mod.has_func(q.rsplit('.', 1)[0]):
            return []
        fn = self.mod.func(q)
        own = set(self.params(q)) | {n.id for n in ast.walk(fn) if isinstance(n, ast.Name) and isinstance(n.ctx, ast.Store)}
        own |= {n.name for n in ast.walk(fn) if isinstance(n, (ast.FunctionDef, ast.AsyncFunctionDef)) and n is not fn}
        loaded = {n.id for n in ast.walk(fn) if isinstance(n, ast.Name) and isinstance(n.ctx, ast.Load)} - own
        outer: T.Set[str] = set()
        parts = q.split('.')
        for i in range(1, len(parts)):
            qq = '.'.join(parts[:i])
            if self.mod.has_func(qq):
                ofn = self.mod.func(qq)
                outer |= set(self.params(qq)) | {n.id for n in ast.walk(ofn) if isinstance(n, ast.Name) and isinstance(n.ctx, ast.Store)}
        return sorted(loaded & outer)

    # -- summaries ------------------------------------------------------------
    def summary(self, q: str) -> Summary:
        if q in self.summaries:
            return self.summaries[q]
        if q in self.busy:
            return Summary()      # recursion cut at the first repeat (B.2)
        self.busy.add(q)
        try:
            s = self._analyse(q)
        finally:
            self.busy.discard(q)
        self.summaries[q] = s
        return s

    def _outer_tags(self, q: str) -> T.Dict[str, Tags]:
        """Path-insensitive tags of the locals of the enclosing functions (free variables of a nested def)."""
        out: T.Dict[str, Tags] = {}
        parts = q.split('.')
        for i in range(1, len(parts)):
            qq = '.'.join(parts[:i])
            if not self.mod.has_func(qq):
                continue
            fn = self.mod.func(qq)
            conf = self.conf_params(qq)
            env: T.Dict[str, Tags] = {p: frozenset({'P:' + p} | ({'C'} if p in conf else set())) for p in self.params(qq)}
            ev = _Eval(self, qq, Summary(), record=False)
            for _ in range(3):
                for st in ast.walk(fn):
                    if isinstance(st, (ast.FunctionDef, ast.AsyncFunctionDef)) and st is not fn:
                        continue
                    if isinstance(st, ast.Assign):
                        t = ev.tags(st.value, env)
                        for tg in st.targets:
                            for n in ast.walk(tg):
                                if isinstance(n, ast.Name):
                                    env[n.id] = env.get(n.id, EMPTY) | t
                    elif isinstance(st, ast.AnnAssign) and st.value is not None and isinstance(st.target, ast.Name):
                        env[st.target.id] = env.get(st.target.id, EMPTY) | ev.tags(st.value, env)
            # parameters of the enclosing function are *its* caller's business: drop the P: tags, keep C/V
            for k, v in env.items():
                out[k] = frozenset(t for t in v if not t.startswith('P:'))
        return out

    def reaches_scan(self, q: str, _seen: T.Optional[T.Set[str]] = None) -> bool:
        """Syntactic call-graph closure: can a scan be reached from q (nested defs included)?"""
        if q in self._reach:
            return self._reach[q]
        seen = _seen if _seen is not None else set()
        if q in seen:
            return False
        seen.add(q)
        res = False
        for n in ast.walk(self.mod.func(q)):
            if not isinstance(n, ast.Call):
                continue
            cn = attr_chain(n.func)
            if cn in SCAN_FUNCS or cn in ITER_SCAN_FUNCS or (isinstance(n.func, ast.Attribute) and n.func.attr in SCAN_METHODS | ITER_SCAN_METHODS):
                res = True
                break
            if isinstance(n.func, ast.Name):
                rq = self.resolve(q, n.func.id)
                if rq is not None and rq != q and self.reaches_scan(rq, seen):
                    res = True
                    break
        if _seen is None or res:
            self._reach[q] = res
        return res

    def _cheap(self, q: str) -> Summary:
        """Functions from which no scan is reachable only need `ret`: path-insensitive union (an over-approximation)."""
        fn = self.mod.func(q)
        s = Summary()
        conf = self.conf_params(q)
        env: T.Dict[str, Tags] = dict(self._outer_tags(q))
        for c in conf:
            env[c] = env.get(c, EMPTY) | {'C'}
        for p in self.free_vars(q):
            env[p] = env.get(p, EMPTY) | {'P:' + p}
        for p in self.params(q):
            env[p] = frozenset({'P:' + p} | ({'C'} if p in conf else set()))
        ev = _Eval(self, q, s, record=False)
        for _ in range(3):
            for st in ast.walk(fn):
                if isinstance(st, (ast.FunctionDef, ast.AsyncFunctionDef, ast.Lambda)) and st is not fn:
                    continue
                if isinstance(st, ast.Expr) and isinstance(st.value, (ast.Yield, ast.YieldFrom)):
                    ev.tags(st.value, env)
                if isinstance(st, (ast.Assign, ast.AnnAssign, ast.AugAssign)):
                    try:
                        ev.stmt(st, env, weak=True)
                    except Undecided:
                        raise
                elif isinstance(st, (ast.For, ast.AsyncFor)):
                    ev.bind(st.target, ev.tags(st.iter, env), env, None, True)
                elif isinstance(st, ast.Return) and st.value is not None:
                    s.ret = s.ret | ev.tags(st.value, env)
        return s

    def _analyse(self, q: str) -> Summary:
        if not self.reaches_scan(q):
            return self._cheap(q)
        fn = self.mod.func(q)
        s = Summary()
        conf = self.conf_params(q)
        own = self.params(q)
        base: T.Dict[str, Tags] = dict(self._outer_tags(q))
        for c in conf:
            base[c] = base.get(c, EMPTY) | {'C'}
        free = self.free_vars(q)
        for p in free:
            base[p] = base.get(p, EMPTY) | {'P:' + p}
        for p in own:
            base[p] = frozenset({'P:' + p} | ({'C'} if p in conf else set()))
        paths = enumerate_paths(fn.body, unroll=2, handlers=True, max_paths=5000)
        s.paths = len(paths)
        seen_sinks: T.Dict[T.Tuple[int, str], Sink] = {}
        for p in paths:
            env = dict(base)
            ev = _Eval(self, q, s, record=True, path=p.describe()[:200])
            for e in p.events:
                if e.node is None:
                    continue
                if e.kind == 'cond':
                    ev.tags(e.node, env)
                elif e.kind == 'stmt':
                    ev.stmt(e.node, env)
                elif e.kind == 'iter':
                    if e.val == 'iter':
                        t = ev.tags(e.node.iter, env)  # type: ignore[attr-defined]
                        ev.bind(e.node.target, t, env, None)  # type: ignore[attr-defined]
                elif e.kind == 'with':
                    for it in e.node.items:  # type: ignore[attr-defined]
                        t = ev.tags(it.context_expr, env)
                        if it.optional_vars is not None:
                            ev.bind(it.optional_vars, t, env, None)
                elif e.kind == 'exc':
                    h = e.node
                    if getattr(h, 'name', None):
                        env[h.name] = EMPTY  # type: ignore[index]
                    # the try body may have run partly: its bindings are unknown here; be conservative
                    t_body = self._try_of(fn, h)
                    if t_body is not None:
                        ev.weak_block(t_body.body, env)
            if p.outcome == 'return' and p.value is not None:
                s.ret = s.ret | ev.tags(p.value, env)
            for snk in ev.found:
                key = (id(snk.call), snk.what)
                old = seen_sinks.get(key)
                if old is None:
                    seen_sinks[key] = snk
                else:
                    seen_sinks[key] = Sink(old.func, old.call, old.what, old.tags | snk.tags,
                                           old.path if ('V' in old.tags or 'V' not in snk.tags) else snk.path, old.root)
        s.sinks = list(seen_sinks.values())
        for snk in s.sinks:
            for t in snk.tags:
                if t.startswith('P:') and (t[2:] in own or t[2:] in free):
                    s.scan_params.setdefault(t[2:], snk.root)
        # a closure that is handed on as a value (not called by name here) may run with whatever the variables it captures hold:
        # what it scans of them is scanned of this function's parameters (path-insensitive)
        called = {id(c.func) for c in ast.walk(fn) if isinstance(c, ast.Call)}
        for n in ast.walk(fn):
            if isinstance(n, ast.Name) and isinstance(n.ctx, ast.Load) and id(n) not in called and self.mod.has_func(q + '.' + n.id):
                for p, why in self.summary(q + '.' + n.id).scan_params.items():
                    if p in own or p in free:
                        s.scan_params.setdefault(p, why)
        return s

    def _try_of(self, fn: ast.AST, h: ast.AST) -> T.Optional[ast.Try]:
        for n in ast.walk(fn):
            if isinstance(n, ast.Try) and any(x is h for x in n.handlers):
                return n
        return None


class _Eval:
    def __init__(self, an: Analysis, q: str, summ: Summary, record: bool, path: str = ''):
        self.an = an
        self.q = q
        self.summ = summ
        self.record = record
        self.path = path
        self.found: T.List[Sink] = []

    def sink(self, call: ast.Call, what: str, tags: Tags, root: str) -> None:
        if self.record:
            self.found.append(Sink(self.q, call, what, tags, self.path, root))

    def union(self, nodes: T.Iterable[ast.AST], env: T.Dict[str, Tags]) -> Tags:
        out: T.Set[str] = set()
        for n in nodes:
            out |= self.tags(n, env)
        return frozenset(out)

    def tags(self, e: T.Optional[ast.AST], env: T.Dict[str, Tags]) -> Tags:
        if e is None or isinstance(e, ast.Constant):
            return EMPTY
        if isinstance(e, ast.Name):
            return env.get(e.id, EMPTY)
        if isinstance(e, ast.Call):
            return self.call(e, env)
        if isinstance(e, ast.Attribute):
            base = self.tags(e.value, env)
            if 'C' in base:
                # reading state of the configuration object: its values (keys() is handled as a call)
                return frozenset({'V'})
            return base
        if isinstance(e, ast.Lambda):
            return self.tags(e.body, env)
        if isinstance(e, (ast.Yield, ast.YieldFrom)):
            # a generator function hands its yielded values to whoever iterates the call: they are its result
            self.summ.ret = self.summ.ret | (self.tags(e.value, env) - {'C'})
            return EMPTY
        if isinstance(e, (ast.ListComp, ast.SetComp, ast.GeneratorExp, ast.DictComp)):
            env2 = dict(env)
            for g in e.generators:
                t = self.tags(g.iter, env2)
                self.bind(g.target, t, env2, None)
                for c in g.ifs:
                    self.tags(c, env2)
            if isinstance(e, ast.DictComp):
                return self.tags(e.key, env2) | self.tags(e.value, env2)
            return self.tags(e.elt, env2)
        if isinstance(e, ast.Compare):
            # a comparison yields a bool: nothing of the text survives (the operands are still visited for scans)
            self.union([e.left] + list(e.comparators), env)
            return EMPTY
        out: T.Set[str] = set()
        for ch in ast.iter_child_nodes(e):
            if isinstance(ch, (ast.expr, ast.keyword, ast.FormattedValue)):
                out |= self.tags(ch.value if isinstance(ch, ast.keyword) else ch, env)
        return frozenset(out)

    def call(self, e: ast.Call, env: T.Dict[str, Tags]) -> Tags:
        args = list(e.args)
        kws = {k.arg: k.value for k in e.keywords if k.arg}
        cn = attr_chain(e.func)
        # scans
        text: T.Optional[ast.AST] = None
        repl: T.Optional[ast.AST] = None
        if cn in SCAN_FUNCS:
            repl = args[1] if len(args) > 1 else kws.get('repl')
            text = args[2] if len(args) > 2 else kws.get('string')
        elif isinstance(e.func, ast.Attribute) and e.func.attr in SCAN_METHODS and not (cn or '').startswith('re.'):
            repl = args[0] if args else kws.get('repl')
            text = args[1] if len(args) > 1 else kws.get('string')
        if repl is not None or text is not None:
            if text is None or repl is None:
                raise Undecided(f'{self.q}: scan call with unrecognised arguments: {short(e)}')
            t_text = self.tags(text, env)
            self.sink(e, 'text of ' + (cn or norm(e.func)), t_text, f'{short(e)} in {self.q}')
            t_repl = self.tags(repl, env)
            if isinstance(repl, ast.Name):
                rq = self.an.resolve(self.q, repl.id)
                if rq is not None:
                    t_repl = frozenset(t for t in self.an.summary(rq).ret if not t.startswith('P:'))
            other = self.union([a for a in args if a is not text and a is not repl], env)
            return frozenset((t_text | t_repl | other) - {'C'})
        if cn in ITER_SCAN_FUNCS or (isinstance(e.func, ast.Attribute) and e.func.attr in ITER_SCAN_METHODS and not (cn or '').startswith('re.')):
            text = (args[1] if len(args) > 1 else kws.get('string')) if cn in ITER_SCAN_FUNCS else (args[0] if args else kws.get('string'))
            if text is None or any(isinstance(a, ast.Starred) for a in args):
                raise Undecided(f'{self.q}: scan call with unrecognised arguments: {short(e)}')
            t_text = self.tags(text, env)
            self.sink(e, 'text of ' + (cn or norm(e.func)), t_text, f'{short(e)} in {self.q}')
            other = self.union([a for a in args + list(kws.values()) if a is not text], env)
            return frozenset((t_text | other) - {'C'})      # match objects / pieces of the text
        # module functions (by summary)
        if isinstance(e.func, ast.Name):
            rq = self.an.resolve(self.q, e.func.id)
            if rq is not None:
                return self.known(e, rq, env)
        # ConfigurationData accessors
        if isinstance(e.func, ast.Attribute):
            recv = self.tags(e.func.value, env)
            a_t = self.union(args + list(kws.values()), env)
            if 'C' in recv:
                if e.func.attr == 'keys':
                    return EMPTY          # names are not values
                return frozenset({'V'} | (a_t - {'C'}))
            if e.func.attr in MUTATORS:
                base = e.func.value
                while isinstance(base, (ast.Attribute, ast.Subscript)):
                    base = base.value
                if isinstance(base, ast.Name):
                    env[base.id] = env.get(base.id, EMPTY) | (a_t - {'C'})
                return EMPTY
            head = (cn or '').split('.')[0]
            if e.func.attr in PURE_METHODS or head in LOGGING:
                return frozenset((recv | a_t) - {'C'})
            return self.unknown(e, cn or norm(e.func), recv | a_t)
        if isinstance(e.func, ast.Name) and e.func.id in PURE_FUNCS:
            return frozenset(self.union(args + list(kws.values()), env) - {'C'})
        t = self.union(args + list(kws.values()), env)
        if isinstance(e.func, ast.Name) and e.func.id in env:
            t = t | env[e.func.id]   # a local callable (lambda bound earlier)
            return frozenset(t - {'C'})
        return self.unknown(e, cn or norm(e.func), t)

    def unknown(self, e: ast.Call, name: str, t: Tags) -> Tags:
        if 'C' in t:
            self.an.unknown.add(name)
            return frozenset((t - {'C'}) | {'U:' + name})
        return t

    def known(self, e: ast.Call, rq: str, env: T.Dict[str, Tags]) -> Tags:
        fn = self.an.mod.func(rq)
        names = [a.arg for a in fn.args.posonlyargs + fn.args.args]
        konly = [a.arg for a in fn.args.kwonlyargs]
        actual: T.Dict[str, ast.AST] = {}
        for i, a in enumerate(e.args):
            if isinstance(a, ast.Starred) or i >= len(names):
                raise Undecided(f'{self.q}: cannot bind arguments of {short(e)}')
            actual[names[i]] = a
        for k in e.keywords:
            if k.arg is None or k.arg not in names + konly:
                raise Undecided(f'{self.q}: cannot bind arguments of {short(e)}')
            actual[k.arg] = k.value
        summ = self.an.summary(rq)
        a_tags = {p: self.tags(a, env) for p, a in actual.items()}
        encl = rq.rsplit('.', 1)[0]
        if '.' in rq and (self.q == encl or self.q.startswith(encl + '.')):
            # a closure called from the scope that defines it: its free variables are implicit arguments, bound to what the scope holds now
            for p in self.an.free_vars(rq):
                if p not in actual:
                    a_tags[p] = env.get(p, EMPTY)
        for p, why in summ.scan_params.items():
            if p in actual:
                self.sink(e, f'argument `{p}` of {rq}', a_tags[p], why)
            elif p in a_tags:
                self.sink(e, f'variable `{p}` captured by {rq}', a_tags[p], why)
        out: T.Set[str] = set()
        for t in summ.ret:
            if t.startswith('P:'):
                out |= a_tags.get(t[2:], EMPTY)
            else:
                out.add(t)
        out.discard('C')
        return frozenset(out)

    # -- statements --------------------------------------------------------------
    def bind(self, target: ast.AST, t: Tags, env: T.Dict[str, Tags], value: T.Optional[ast.AST], weak: bool = False) -> None:
        if isinstance(target, ast.Name):
            env[target.id] = (env.get(target.id, EMPTY) | t) if weak else t
        elif isinstance(target, (ast.Tuple, ast.List)):
            if isinstance(value, (ast.Tuple, ast.List)) and len(value.elts) == len(target.elts):
                for x, v in zip(target.elts, value.elts):
                    self.bind(x, self.tags(v, env), env, v, weak)
            else:
                for x in target.elts:
                    self.bind(x, t, env, None, weak)
        elif isinstance(target, ast.Starred):
            self.bind(target.value, t, env, None, weak)
        elif isinstance(target, (ast.Subscript, ast.Attribute)):
            base: ast.AST = target
            while isinstance(base, (ast.Attribute, ast.Subscript)):
                base = base.value
            if isinstance(base, ast.Name):
                env[base.id] = env.get(base.id, EMPTY) | t

    def weak_block(self, stmts: T.List[ast.stmt], env: T.Dict[str, Tags]) -> None:
        """A block that may have run partly (try body seen from a handler): every binding in it may or may not have happened."""
        for top in stmts:
            for st in ast.walk(top):
                if isinstance(st, (ast.FunctionDef, ast.AsyncFunctionDef, ast.Lambda)):
                    continue
                if isinstance(st, (ast.Assign, ast.AnnAssign, ast.AugAssign, ast.Expr)):
                    self.stmt(st, env, weak=True)
                elif isinstance(st, (ast.For, ast.AsyncFor)):
                    self.bind(st.target, self.tags(st.iter, env), env, None, True)
                elif isinstance(st, (ast.With, ast.AsyncWith)):
                    for it in st.items:
                        t = self.tags(it.context_expr, env)
                        if it.optional_vars is not None:
                            self.bind(it.optional_vars, t, env, None, True)

    def stmt(self, st: ast.AST, env: T.Dict[str, Tags], weak: bool = False) -> None:
        if isinstance(st, ast.Assign):
            t = self.tags(st.value, env)
            for tg in st.targets:
                self.bind(tg, t, env, st.value, weak)
        elif isinstance(st, ast.AnnAssign):
            if st.value is not None:
                self.bind(st.target, self.tags(st.value, env), env, st.value, weak)
        elif isinstance(st, ast.AugAssign):
            t = self.tags(st.value, env)
            self.bind(st.target, t, env, None, True)
        elif isinstance(st, ast.Expr):
            self.tags(st.value, env)
        elif isinstance(st, (ast.Return, ast.Raise)):
            v = st.value if isinstance(st, ast.Return) else st.exc
            if v is not None:
                self.tags(v, env)
        elif isinstance(st, (ast.FunctionDef, ast.AsyncFunctionDef, ast.Import, ast.ImportFrom, ast.Pass, ast.Global, ast.Nonlocal, ast.Delete, ast.Assert)):
            pass
        else:
            raise Undecided(f'{self.q}: statement kind {st.__class__.__name__} in a straight-line position')
