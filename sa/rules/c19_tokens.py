"""C19.R2 (second half): how Version turns the matches of its token regex into components.

The producer is found by role - the value stored into the field that __eq__ compares - and followed through
wrappers (`tuple(..)`), a local, or a module-level helper function.  Both spellings are read as rows
(condition atoms over the match object -> component expression):
  * a comprehension / generator expression over `<regex>.finditer(..)` whose element is a conditional expression;
  * a loop over `<regex>.finditer(..)` that appends the component to a list.
A row is compared symbolically: for a digit run (group 1) the component must be `int(<that text>)`, for a
letter run (group 2) the text itself.  Shapes that cannot be read are Undecided; only a component that is
determinately wrong for its kind of run is a violation."""
from __future__ import annotations

import ast
import typing as T

from ..core import Module, Undecided, attr_chain, norm, short, walk_no_nested
from ..report import RuleCtx
from .. import tables
from ..tables import Atom
from .c19_norm import normalise

PATTERN = r'(\d+)|([a-zA-Z]+)'
Row = T.Tuple[T.Dict[Atom, bool], ast.AST, ast.AST]      # conditions, component expression, node for the report


def _unwrap(e: ast.AST) -> ast.AST:
    while isinstance(e, ast.Call) and norm(e.func) in ('tuple', 'list') and len(e.args) == 1 and not e.keywords:
        e = e.args[0]
    return e


def _split(conds: T.Dict[Atom, bool], e: ast.AST, node: ast.AST) -> T.List[Row]:
    if isinstance(e, ast.IfExp):
        out: T.List[Row] = []
        for val, branch in ((True, e.body), (False, e.orelse)):
            for t, v in _atoms_of(e.test, val):
                c = dict(conds)
                feasible = True
                for a, b in t.items():
                    if c.get(a, b) != b:
                        feasible = False
                    c[a] = b
                if feasible:
                    out.extend(_split(c, branch, node))
        return out
    return [(conds, e, node)]


def _atoms_of(test: ast.AST, val: bool) -> T.List[T.Tuple[T.Dict[Atom, bool], bool]]:
    """The ways `test` evaluates to `val` as atom assignments (and/or/not are decomposed by the path enumerator)."""
    from ..paths import Enumerator
    out = []
    for ev, _env in Enumerator()._assume(test, val, [], {}):
        d: T.Dict[Atom, bool] = {}
        ok = True
        for x in ev:
            a, v = tables.canon(x.node, x.val)
            if d.get(a, v) != v:
                ok = False
            d[a] = v
        if ok:
            out.append((d, val))
    return out


def _single_def(fn: ast.AST, name: str) -> T.Optional[ast.AST]:
    vals: T.Dict[str, ast.AST] = {}
    plain: T.Set[int] = set()
    for n in walk_no_nested(fn, include_root=False):
        if isinstance(n, ast.Assign) and len(n.targets) == 1 and isinstance(n.targets[0], ast.Name) and n.targets[0].id == name:
            vals[norm(n.value)] = n.value
            plain.add(id(n.targets[0]))
        elif isinstance(n, ast.AnnAssign) and isinstance(n.target, ast.Name) and n.target.id == name:
            plain.add(id(n.target))
            if n.value is not None:
                vals[norm(n.value)] = n.value
    for n in walk_no_nested(fn, include_root=False):
        if isinstance(n, ast.Name) and n.id == name and isinstance(n.ctx, (ast.Store, ast.Del)) and id(n) not in plain:
            return None
    return next(iter(vals.values())) if len(vals) == 1 else None


def _finditer(e: ast.AST) -> T.Optional[ast.AST]:
    if isinstance(e, ast.Call) and isinstance(e.func, ast.Attribute) and e.func.attr == 'finditer' and len(e.args) >= 1:
        return e.func.value
    return None


def producer(mod: Module, fn: T.Any, e: ast.AST, depth: int = 0) -> T.Tuple[T.List[Row], ast.AST, str, str]:
    """(rows, regex expression, name of the match variable, qualified name of the function that holds the rows)."""
    if depth > 3:
        raise Undecided('Version tokens: producer nested too deep')
    fnn = normalise(fn)
    e = _unwrap(e)
    qn = getattr(fn, 'name', '?')
    if isinstance(e, (ast.GeneratorExp, ast.ListComp)):
        if len(e.generators) == 1 and not e.generators[0].ifs and isinstance(e.generators[0].target, ast.Tuple) \
                and all(isinstance(t, ast.Name) for t in e.generators[0].target.elts):
            # B3  `for digits, letters in RX.findall(s)`: findall yields one tuple of ALL groups per match ('' for a group that did
            # not take part) - the k-th name is `m.group(k)` of the finditer form, as far as its truth value and its text go
            src = e.generators[0].iter
            if isinstance(src, ast.Name):
                src = _single_def(fnn, src.id) or src
            if isinstance(src, ast.Call) and isinstance(src.func, ast.Attribute) and src.func.attr == 'findall' and len(src.args) >= 1:
                from ..tables import _Subst
                names = [t.id for t in e.generators[0].target.elts]       # type: ignore[attr-defined]
                FINDALL[0] = len(names)
                mapping = {n: ast.parse(f'{FINDALL_M}.group({k + 1})', mode='eval').body for k, n in enumerate(names)}
                elt = _Subst(mapping).visit(ast.parse(norm(e.elt), mode='eval').body)
                return _split({}, elt, e.elt), src.func.value, FINDALL_M, qn
        if len(e.generators) != 1 or e.generators[0].ifs or not isinstance(e.generators[0].target, ast.Name):
            raise Undecided(f'Version tokens: cannot read the comprehension {short(e)}')
        rx = _finditer(e.generators[0].iter)
        if rx is None:
            raise Undecided(f'Version tokens: {short(e)} does not iterate <regex>.finditer(..)')
        return _split({}, e.elt, e.elt), rx, e.generators[0].target.id, qn
    if isinstance(e, ast.Name):
        d = _single_def(fnn, e.id)
        if d is None:
            raise Undecided(f'Version tokens: `{e.id}` in {qn} has no single definition')
        if isinstance(_unwrap(d), (ast.GeneratorExp, ast.ListComp)):
            return producer(mod, fn, d, depth + 1)
        if not ((isinstance(d, ast.List) and not d.elts) or (isinstance(d, ast.Call) and norm(d.func) == 'list' and not d.args)):
            raise Undecided(f'Version tokens: cannot read how `{e.id}` is built in {qn}: {short(d)}')
        loops = {norm(l): l for l in ast.walk(fnn) if isinstance(l, ast.For) and _finditer(l.iter) is not None}
        if len(loops) != 1:
            raise Undecided(f'Version tokens: expected one loop over <regex>.finditer(..) in {qn}')
        loop = next(iter(loops.values()))
        if not isinstance(loop.target, ast.Name):
            raise Undecided(f'Version tokens: loop target {short(loop.target)}')
        lst = e.id

        def eff(st: ast.AST) -> T.Optional[str]:
            if isinstance(st, ast.Expr) and isinstance(st.value, ast.Call) and isinstance(st.value.func, ast.Attribute) and norm(st.value.func.value) == lst:
                if st.value.func.attr == 'append' and len(st.value.args) == 1:
                    return 'append ' + norm(st.value.args[0])
                return 'other ' + norm(st)
            if isinstance(st, ast.AugAssign) and norm(st.target) == lst:
                if isinstance(st.op, ast.Add) and isinstance(st.value, (ast.List, ast.Tuple)) and len(st.value.elts) == 1:
                    return 'append ' + norm(st.value.elts[0])
                return 'other ' + norm(st)
            if isinstance(st, (ast.Assign, ast.AnnAssign)) and lst in {n.id for n in ast.walk(st) if isinstance(n, ast.Name)}:
                return 'other ' + norm(st)
            return None
        tab = tables.extract(fnn, body=loop.body, effects=eff, inline=False, name=f'{qn}:token loop')
        rows: T.List[Row] = []
        for r in tab.rows:
            node = r.path.events[-1].node if r.path.events else loop
            if r.outcome[0] not in ('fall', 'continue'):
                raise Undecided(f'Version tokens: row {r!r} leaves the token loop by {r.outcome}')
            if any(x.startswith('other ') for x in r.effects) or len(r.effects) > 1:
                raise Undecided(f'Version tokens: cannot read what row {r!r} stores')
            if not r.effects:
                rows.append((dict(r.conds), ast.Constant(value=Ellipsis), node))      # nothing stored for this match
                continue
            comp = ast.parse(r.effects[0][len('append '):], mode='eval').body
            rows.extend(_split(dict(r.conds), comp, node))
        return rows, _finditer(loop.iter), loop.target.id, qn     # type: ignore[return-value]
    if isinstance(e, ast.Call) and isinstance(e.func, ast.Name) and mod.has_func(e.func.id):
        callee = mod.func(e.func.id)
        cn = normalise(callee)
        rets = {norm(x.value): x.value for x in walk_no_nested(cn, include_root=False) if isinstance(x, ast.Return) and x.value is not None}
        if len(rets) != 1:
            raise Undecided(f'Version tokens: helper {e.func.id} has {len(rets)} distinct results')
        return producer(mod, callee, next(iter(rets.values())), depth + 1)
    raise Undecided(f'Version tokens: cannot read the producer {short(e)}')


FINDALL_M = '_findall_item'
FINDALL: T.List[int] = [0]         # number of names the findall tuples are unpacked into (0: finditer form)
GROUPS: T.Dict[str, int] = {}        # names of the groups of the token regex at hand (B3: positional <-> named groups)


def _gid(c: ast.AST) -> T.Optional[int]:
    if isinstance(c, ast.Constant) and isinstance(c.value, int) and not isinstance(c.value, bool):
        return c.value
    if isinstance(c, ast.Constant) and isinstance(c.value, str):
        return GROUPS.get(c.value)
    return None


def _group(e: ast.AST, m: str) -> T.Optional[int]:
    """`m.group(k)` / `m[k]` / `m.group()` / `m.group('name')` -> k."""
    if isinstance(e, ast.Call) and isinstance(e.func, ast.Attribute) and e.func.attr == 'group' and norm(e.func.value) == m and not e.keywords:
        if not e.args:
            return 0
        if len(e.args) == 1:
            return _gid(e.args[0])
    if isinstance(e, ast.Subscript) and norm(e.value) == m:
        return _gid(e.slice)
    return None


def check_tokens(ctx: RuleCtx, mod: Module, field: str) -> None:
    from ..consteval import fold_expr, Regex
    init = mod.func('Version.__init__')
    stores = [st for st in walk_no_nested(init, include_root=False) if isinstance(st, (ast.Assign, ast.AnnAssign)) and getattr(st, 'value', None) is not None
              and any(attr_chain(t) == f'self.{field}' for t in (st.targets if isinstance(st, ast.Assign) else [st.target]))]
    if len(stores) != 1:
        raise Undecided(f'Version.__init__: expected one store to self.{field}, found {len(stores)}')
    FINDALL[0] = 0
    rows, rx, m, qn = producer(mod, init, stores[0].value)
    where = f'Version.__init__' if qn == '__init__' else qn
    r = fold_expr(ctx.repo, mod, rx)
    if not isinstance(r, Regex):
        raise Undecided(f'Version tokens: {short(rx)} does not fold to a regular expression')
    import re
    try:
        compiled = re.compile(r.pattern, r.flags)          # the constant pattern of the source is parsed, nothing of the repository runs
    except re.error as ex:
        raise Undecided(f'Version tokens: the token regex does not compile: {ex}')
    plain = re.sub(r'\(\?P<[A-Za-z_][A-Za-z_0-9]*>', '(', r.pattern)      # group names do not change the language or the numbering
    GROUPS.clear()
    GROUPS.update(compiled.groupindex)
    if m == FINDALL_M and FINDALL[0] != compiled.groups:
        raise Undecided(f'Version tokens: findall() tuples are unpacked into {FINDALL[0]} names but the regex has {compiled.groups} groups')
    ctx.require(plain == PATTERN and not (r.flags & ~32), 'Version token regex is digits | letters', mod, '<module>', rx, f'token regex changed: {r!r}')
    if plain != PATTERN:
        return
    n = 0
    for conds, comp, node in rows:
        digit: T.Optional[bool] = None
        facts: T.List[bool] = []
        for a, v in conds.items():
            e = ast.parse(a.args[0], mode='eval').body if a.kind in ('truth', 'is') else None
            g = _group(e, m) if e is not None else None
            if a.kind == 'is' and a.args[1] == 'None' and g in (1, 2):
                if m == FINDALL_M:
                    raise Undecided(f'Version tokens ({where}): `{a!r}` - findall() gives \'\' (not None) for a group that did not take part')
                facts.append((not v) if g == 1 else v)
            elif a.kind == 'truth' and g in (1, 2):
                facts.append(v if g == 1 else (not v))
            elif a.kind == 'truth' and isinstance(e, ast.Call) and isinstance(e.func, ast.Attribute) and e.func.attr == 'isdigit' and _group(e.func.value, m) == 0:
                facts.append(v)
            elif a.kind == 'cmp' and a.args[0] == 'eq' and a.args[1] in (f'{m}.lastindex', f'{m}.lastgroup') \
                    and _gid(ast.parse(a.args[2], mode='eval').body) in (1, 2):
                facts.append(v if _gid(ast.parse(a.args[2], mode='eval').body) == 1 else not v)      # which alternative matched
            else:
                raise Undecided(f'Version tokens ({where}): unknown condition {a!r}')
        if facts and any(f != facts[0] for f in facts):
            continue          # group 1 and group 2 are alternatives of the regex: exactly one of them matched
        digit = facts[0] if facts else None
        inner, conv = comp, False
        if isinstance(comp, ast.Call) and norm(comp.func) == 'int' and len(comp.args) == 1 and not comp.keywords:
            inner, conv = comp.args[0], True
        g = _group(inner, m)
        if isinstance(comp, ast.Constant) and comp.value is Ellipsis:
            kind = 'digit' if digit else 'letter' if digit is False else 'token'
            ctx.violation(mod, where, f'{kind} run dropped', f'a {kind} run matched by the token regex is not stored as a component on the path {[repr(a) + "=" + str(v) for a, v in conds.items()]}', node)
            continue
        if g is None or digit is None:
            raise Undecided(f'Version tokens ({where}): cannot read the component `{norm(comp)}` under {[repr(a) + "=" + str(v) for a, v in conds.items()]}')
        n += 1
        if digit:
            ok = conv and g in (0, 1)
            msg = f'a digit run is stored as `{norm(comp)}`; it must be int(<the digits>) (group {g} {"is None for a digit run" if g == 2 else "is kept as text: 1.10 would sort below 1.9"})'
        else:
            ok = (not conv) and g in (0, 2)
            msg = f'a letter run is stored as `{norm(comp)}`; it must be the text itself ({"int() of letters raises" if conv else f"group {g} is None for a letter run"})'
        ctx.require(ok, f'{where}: {"digit" if digit else "letter"} runs are stored as {"int(text)" if digit else "text"}', mod, where, comp, msg, node)
    ctx.floor('token rows (digit run, letter run)', n, 2)
