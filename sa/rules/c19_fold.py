"""Constant folding of a module-level dispatch table `{operator.ge: lambda v: ..., ...}` (policy form (a)/(c)).

sa.consteval cannot fold an attribute of a module that lives outside the repository (`operator.ge`): this
subclass keeps it symbolic as Opaque('external', 'operator.ge').  Nothing is imported or evaluated."""
from __future__ import annotations

import ast
import typing as T

from ..core import Module, Repo, Undecided, AnchorMissing, attr_chain, short
from ..consteval import Folder, Opaque

MUTATORS = {'update', 'pop', 'popitem', 'clear', 'setdefault', '__setitem__', '__delitem__'}


class _Folder(Folder):
    def sub(self, mod: Module, scope: T.Optional[ast.ClassDef] = None) -> 'Folder':
        if self.depth > 12:
            raise Undecided('constant folding recursion too deep')
        return _Folder(self.repo, mod, scope, None, self.depth + 1)

    def _getattr(self, v: T.Any, a: str, e: ast.AST) -> T.Any:
        if isinstance(v, Opaque) and v.kind == 'external':
            return Opaque('external', f'{v.name}.{a}', None)
        return super()._getattr(v, a, e)


def is_constant_name(tree: ast.Module, name: str) -> T.Optional[ast.AST]:
    """The value of the module-level constant `name` of `tree` if it is bound once and never modified, else None."""
    class _M:          # the part of sa.core.Module that is_constant_table reads
        pass
    m = _M()
    m.tree = tree      # type: ignore[attr-defined]
    if not is_constant_table(m, name):      # type: ignore[arg-type]
        return None
    for st in tree.body:
        if isinstance(st, ast.Assign) and any(isinstance(t, ast.Name) and t.id == name for t in st.targets):
            return st.value
        if isinstance(st, ast.AnnAssign) and isinstance(st.target, ast.Name) and st.target.id == name and st.value is not None:
            return st.value
    return None


def is_constant_table(mod: Module, name: str) -> bool:
    """`name` is bound exactly once, at module level, and nothing in the module stores into it or calls a
    mutating method on it."""
    binds = 0
    for n in ast.walk(mod.tree):
        if isinstance(n, (ast.Assign, ast.AnnAssign, ast.AugAssign, ast.Delete, ast.For, ast.With, ast.NamedExpr, ast.comprehension)):
            tg: T.List[ast.AST]
            if isinstance(n, (ast.Assign, ast.Delete)):
                tg = list(n.targets)
            elif isinstance(n, ast.With):
                tg = [i.optional_vars for i in n.items if i.optional_vars is not None]
            else:
                tg = [n.target]
            for t in tg:
                for x in ast.walk(t):
                    if isinstance(x, ast.Name) and x.id == name and isinstance(x.ctx, (ast.Store, ast.Del)):
                        binds += 1
                    if isinstance(x, ast.Subscript) and isinstance(x.ctx, (ast.Store, ast.Del)) and attr_chain(x.value) == name:
                        return False
        elif isinstance(n, ast.Call) and isinstance(n.func, ast.Attribute) and n.func.attr in MUTATORS and attr_chain(n.func.value) == name:
            return False
        elif isinstance(n, (ast.Global, ast.Nonlocal)) and name in n.names:
            return False
        elif isinstance(n, (ast.FunctionDef, ast.AsyncFunctionDef, ast.ClassDef)) and n.name == name:
            return False
        elif isinstance(n, ast.arg) and n.arg == name:
            return False        # shadowed by a parameter somewhere: do not reason about it
    at_top = sum(1 for st in mod.tree.body if (isinstance(st, ast.Assign) and any(isinstance(t, ast.Name) and t.id == name for t in st.targets))
                 or (isinstance(st, ast.AnnAssign) and isinstance(st.target, ast.Name) and st.target.id == name and st.value is not None))
    return binds == 1 and at_top == 1


def fold_operator_table(repo: Repo, mod: Module, name: str) -> T.Dict[str, ast.Lambda]:
    """{'ge': <lambda node>, ...} for a constant module-level dict whose keys are `operator.X` and whose values
    are lambdas.  Anything else: Undecided."""
    try:
        expr = mod.assign_value(name)
    except AnchorMissing:
        raise Undecided(f'{name} is not a module-level constant of {mod.rel}')
    if not is_constant_table(mod, name):
        raise Undecided(f'{name} is rebound or modified somewhere in {mod.rel}: not a constant table')
    val = _Folder(repo, mod).fold(expr)
    if not isinstance(val, dict):
        raise Undecided(f'{name} does not fold to a dict: {short(expr)}')
    out: T.Dict[str, ast.Lambda] = {}
    for k, v in val.items():
        if not (isinstance(k, Opaque) and k.kind == 'external' and k.name.startswith('operator.')):
            raise Undecided(f'{name}: key {k!r} is not an operator.* function')
        if not (isinstance(v, Opaque) and v.kind == 'lambda' and isinstance(v.node, ast.Lambda)):
            raise Undecided(f'{name}: value for {k.name} is not a lambda: {v!r}')
        out[k.name.split('.', 1)[1]] = v.node
    return out
