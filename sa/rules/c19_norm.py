"""Source-to-source normalisation applied before decision-table extraction (C19/C20 packs).

Nothing is evaluated.  Two classic, purely syntactic program transformations make the tables
independent of how a function is *laid out*:

* **tail duplication**: `if c: A else: B; rest`  ->  `if c: A; rest  else: B; rest`
  (statements after a return/raise/break/continue are dropped), so every use of a local has exactly one
  reaching definition at its syntactic position;
* **forward substitution** (copy propagation) of locals: `x = <pure expr>` is removed and every later read
  of `x` is replaced by the expression, written over the *entry* values of the parameters.  A definition is
  forgotten as soon as something it reads may have changed (store to an attribute chain it reads, opaque
  rebinding of a name it reads, a call that is not known to be pure and mentions an object it reads); reading
  a local whose dropped definition was forgotten is `Undecided`, never a guess.

After the pass `flag = A or B; if not flag: ...`, `if c: r = X else: r = Y; return r`, hoisted attribute
reads (`a = self._v`) and renamed locals all give the same rows as the unrefactored code.

Loops, `with` and `try` blocks are normalised block by block (no duplication across their borders); names
bound inside them are unknown afterwards.
"""
from __future__ import annotations

import ast
import copy
import typing as T

from ..core import Undecided, attr_chain, chains_in, names_in, short, walk_no_nested
from ..tables import INLINE_CALLS

FuncNode = T.Union[ast.FunctionDef, ast.AsyncFunctionDef]

_PURE_NODES = (ast.Name, ast.Attribute, ast.Constant, ast.Subscript, ast.Slice, ast.Compare, ast.BoolOp, ast.UnaryOp, ast.BinOp,
               ast.IfExp, ast.Tuple, ast.Call, ast.keyword, ast.JoinedStr, ast.FormattedValue,
               ast.expr_context, ast.operator, ast.unaryop, ast.cmpop, ast.boolop)
# builtins that do not change the objects they are given (their results need not be pure values)
NOMUT_CALLS = {'zip', 'enumerate', 'sorted', 'reversed', 'list', 'tuple', 'set', 'frozenset', 'dict', 'min', 'max', 'sum', 'any', 'all',
               'iter', 'range', 'repr', 'hash', 'id', 'abs', 'map', 'filter', 'getattr', 'hasattr', 'issubclass', 'copy', 'deepcopy',
               'join', 'split', 'format', 'items', 'keys', 'values', 'find', 'index', 'count', 'isdigit', 'lstrip', 'rstrip', 'replace'}
_TERMINAL = (ast.Return, ast.Raise, ast.Break, ast.Continue)
_BLOCK_FIELDS = ('body', 'orelse', 'finalbody')


def _callee(c: ast.Call) -> str:
    f = c.func
    if isinstance(f, ast.Attribute):
        return f.attr
    if isinstance(f, ast.Name):
        return f.id
    return ''


def _related(a: str, b: str) -> bool:
    """Two attribute chains may denote overlapping storage (one is a prefix of the other)."""
    return a == b or a.startswith(b + '.') or b.startswith(a + '.')


def _mutated_params(fn: FuncNode, nomut: T.Set[str]) -> T.Optional[T.Set[str]]:
    """Parameters of `fn` whose object the body may modify: a store/del through the parameter, an augmented
    assignment, a call (not known to be harmless) that mentions it, or an alias of it.  None: cannot tell."""
    # a parameter declared as an immutable builtin (str, int, ..) cannot be modified through
    params = {a.arg for a in fn.args.posonlyargs + fn.args.args + fn.args.kwonlyargs
              if not (a.annotation is not None and ast.unparse(a.annotation).strip('\'"') in ('str', 'int', 'bool', 'float', 'bytes'))}
    out: T.Set[str] = set()
    for n in ast.walk(fn):
        if isinstance(n, (ast.Attribute, ast.Subscript)) and isinstance(n.ctx, (ast.Store, ast.Del)):
            out |= names_in(n) & params
        elif isinstance(n, ast.Call) and _callee(n) not in nomut:
            out |= names_in(n) & params
        elif isinstance(n, (ast.Assign, ast.AnnAssign, ast.NamedExpr, ast.Return, ast.Yield)) and getattr(n, 'value', None) is not None:
            v = n.value
            if isinstance(n, (ast.Return, ast.Yield)):
                continue
            tg = n.targets if isinstance(n, ast.Assign) else [n.target]
            if not any(isinstance(x, ast.Name) for t in tg for x in ast.walk(t) if isinstance(getattr(x, 'ctx', None), ast.Store)):
                continue     # stored into an attribute/item: the callee itself does not write through it
            for x in ast.walk(v):        # `a = self` / `a = [p]`: an alias may be written through later
                if isinstance(x, ast.Name) and x.id in params and not _only_read(v, x):
                    out.add(x.id)
        elif isinstance(n, (ast.Global, ast.Nonlocal)):
            return None
    return out


def _only_read(v: ast.AST, name: ast.Name) -> bool:
    """`name` occurs in `v` only below an attribute read / comparison / pure arithmetic (its object is not aliased)."""
    if v is name:
        return False
    for n in ast.walk(v):
        if isinstance(n, (ast.List, ast.Tuple, ast.Set, ast.Dict, ast.IfExp, ast.BoolOp, ast.Starred)):
            if any(ch is name for ch in ast.iter_child_nodes(n)):
                return False
        if isinstance(n, ast.Call) and any(a is name for a in list(n.args) + [k.value for k in n.keywords]):
            return False
    return True


RECEIVER_MUTATORS = {'append', 'extend', 'insert', 'add', 'update', 'remove', 'discard', 'pop', 'clear', 'sort', 'reverse', 'setdefault', 'appendleft', 'popleft'}


def _inside_call(root: ast.AST, name: ast.Name) -> bool:
    """`name` occurs inside a call (or the test of a conditional expression) within `root`."""
    for x in ast.walk(root):
        if isinstance(x, ast.Call) and any(n is name for n in ast.walk(x)):
            return True
        if isinstance(x, ast.IfExp) and any(n is name for n in ast.walk(x.test)):
            return True
    return False


class _State:
    def __init__(self, env: T.Optional[T.Dict[str, ast.expr]] = None, stale: T.Optional[T.Dict[str, str]] = None):
        self.env: T.Dict[str, ast.expr] = dict(env or {})
        self.stale: T.Dict[str, str] = dict(stale or {})

    def copy(self) -> '_State':
        return _State(self.env, self.stale)

    def forget(self, name: str, why: str) -> None:
        if name in self.env:
            del self.env[name]
            self.stale[name] = why

    def kill_chain(self, chain: str, why: str) -> None:
        """Something stored to / may have mutated `chain`: forget every definition that reads it."""
        for k, v in list(self.env.items()):
            if any(_related(c, chain) for c in chains_in(v)):
                self.forget(k, why)

    def kill_root(self, root: str, why: str) -> None:
        for k, v in list(self.env.items()):
            if root in names_in(v):
                self.forget(k, why)

    def rebind_opaque(self, name: str, why: str) -> None:
        """`name` now holds a value the pass cannot name: forget it and everything that read it."""
        self.env.pop(name, None)
        self.stale.pop(name, None)
        self.kill_root(name, why)


class _StaleRead(Undecided):
    def __init__(self, name: str, why: str):
        super().__init__(f'local `{name}` is read after its definition was invalidated ({why})')
        self.name = name


class _Sub(ast.NodeTransformer):
    def __init__(self, st: _State, shadow: T.Set[str]):
        self.st = st
        self.shadow = shadow

    def visit_Lambda(self, n: ast.Lambda) -> ast.AST:
        # a closure reads its free variables when it is *called*: never substitute into it
        for x in ast.walk(n.body):
            if isinstance(x, ast.Name) and x.id not in self.shadow and (x.id in self.st.env or x.id in self.st.stale):
                raise _StaleRead(x.id, 'captured by a lambda')
        return n

    def visit_Name(self, n: ast.Name) -> ast.AST:
        if not isinstance(n.ctx, ast.Load) or n.id in self.shadow:
            return n
        if n.id in self.st.env:
            return copy.deepcopy(self.st.env[n.id])
        if n.id in self.st.stale:
            raise _StaleRead(n.id, self.st.stale[n.id])
        return n


_RECORDS: T.Dict[T.Tuple[int, str], T.Optional[T.List[str]]] = {}


def record_fields(module: ast.Module, name: str) -> T.Optional[T.List[str]]:
    """Field names (declaration order) of a module-level NamedTuple / dataclass `name`; None if it is not one or
    defines its own __init__/__new__."""
    key = (id(module), name)
    if key not in _RECORDS:
        out: T.Optional[T.List[str]] = None
        for st in module.body:
            if isinstance(st, ast.ClassDef) and st.name == name:
                is_nt = any((attr_chain(b) or '').split('.')[-1] == 'NamedTuple' for b in st.bases)
                is_dc = any((attr_chain(d.func if isinstance(d, ast.Call) else d) or '').split('.')[-1] == 'dataclass' for d in st.decorator_list)
                if (is_nt or is_dc) and not any(isinstance(m, ast.FunctionDef) and m.name in ('__init__', '__new__', '__post_init__') for m in st.body):
                    out = [m.target.id for m in st.body if isinstance(m, ast.AnnAssign) and isinstance(m.target, ast.Name)]
            elif isinstance(st, ast.Assign) and len(st.targets) == 1 and isinstance(st.targets[0], ast.Name) and st.targets[0].id == name \
                    and isinstance(st.value, ast.Call) and (attr_chain(st.value.func) or '').split('.')[-1] in ('namedtuple', 'NamedTuple') and len(st.value.args) == 2:
                f = st.value.args[1]
                if isinstance(f, (ast.List, ast.Tuple)):
                    names = [(e.value if isinstance(e, ast.Constant) else e.elts[0].value if isinstance(e, ast.Tuple) and e.elts and isinstance(e.elts[0], ast.Constant) else None) for e in f.elts]
                    out = names if all(isinstance(x, str) for x in names) else None      # type: ignore[assignment]
                elif isinstance(f, ast.Constant) and isinstance(f.value, str):
                    out = f.value.replace(',', ' ').split()
        _RECORDS[key] = out
    return _RECORDS[key]


def record_as_tuple(module: ast.Module, e: ast.AST) -> ast.AST:
    """`Rec(a, b)` / `Rec(x=a, y=b)` of a module-level NamedTuple -> the tuple `(a, b)` in field order (a NamedTuple IS that
    tuple); anything else is returned unchanged."""
    if not (isinstance(e, ast.Call) and isinstance(e.func, ast.Name)):
        return e
    fields = record_fields(module, e.func.id)
    is_nt = any(isinstance(st, ast.ClassDef) and st.name == e.func.id and any((attr_chain(b) or '').split('.')[-1] == 'NamedTuple' for b in st.bases)
                for st in module.body) or any(isinstance(st, ast.Assign) and isinstance(st.value, ast.Call) and any(isinstance(t, ast.Name) and t.id == e.func.id for t in st.targets)
                                              for st in module.body)
    if fields is None or not is_nt or any(isinstance(a, ast.Starred) for a in e.args) or any(k.arg is None for k in e.keywords) or len(e.args) > len(fields):
        return e
    vals: T.Dict[str, ast.AST] = dict(zip(fields, e.args))
    for k in e.keywords:
        if k.arg not in fields or k.arg in vals:
            return e
        vals[k.arg] = k.value          # type: ignore[index]
    if set(vals) != set(fields):
        return e
    return ast.copy_location(ast.Tuple(elts=[vals[f] for f in fields], ctx=ast.Load()), e)


LITMATCH = '__literal_match__'      # marker for "the match object of a literal alternative": __literal_match__('>=')


def _litmatch(e: ast.AST) -> T.Optional[str]:
    if isinstance(e, ast.Call) and isinstance(e.func, ast.Name) and e.func.id == LITMATCH and len(e.args) == 1 and isinstance(e.args[0], ast.Constant):
        return e.args[0].value
    return None


_OPFUN = {'lt': ast.Lt, 'le': ast.LtE, 'gt': ast.Gt, 'ge': ast.GtE, 'eq': ast.Eq, 'ne': ast.NotEq, 'is_': ast.Is, 'is_not': ast.IsNot}


class _FoldLen(ast.NodeTransformer):
    """Constant folding and operator-function normal form (policy form a):
    `len('>=')` -> 2; `operator.gt(a, b)` -> `a > b`; `operator.not_(a)` -> `not a`; a comparison of two literals
    (`'>=' is None`) -> its truth; `T[k]` / `T.get(k)` on a constant dict with a literal key -> the entry."""

    def __init__(self, module: T.Optional[ast.Module] = None, local: T.Optional[T.Set[str]] = None,
                 local_table: T.Optional[T.Callable[[str], T.Optional[ast.AST]]] = None):
        self.module, self.local, self.local_table = module, local or set(), local_table

    def table(self, e: ast.AST) -> T.Optional[ast.Dict]:
        if isinstance(e, ast.Dict):
            return e
        if isinstance(e, ast.Name) and e.id in self.local and self.local_table is not None:
            v = self.local_table(e.id)          # a local bound once to a display and only ever read
            return v if isinstance(v, ast.Dict) else None
        if isinstance(e, ast.Name) and self.module is not None and e.id not in self.local:
            from .c19_fold import is_constant_name
            v = is_constant_name(self.module, e.id)
            if isinstance(v, ast.Dict):
                return v
        return None

    def lookup(self, d: ast.Dict, key: ast.AST, default: T.Optional[ast.AST]) -> T.Optional[ast.AST]:
        if not isinstance(key, ast.Constant) or not all(isinstance(k, ast.Constant) for k in d.keys):
            return None
        for k, v in zip(d.keys, d.values):
            if type(k.value) is type(key.value) and k.value == key.value:      # type: ignore[union-attr]
                return copy.deepcopy(v)
        return copy.deepcopy(default)

    def visit_Attribute(self, n: ast.Attribute) -> ast.AST:
        self.generic_visit(n)
        # `Rec('>=', operator.ge).text` -> '>='   (Rec: a NamedTuple / dataclass of the module; fields in declaration order)
        if isinstance(n.ctx, ast.Load) and isinstance(n.value, ast.Call) and isinstance(n.value.func, ast.Name) and self.module is not None:
            fields = record_fields(self.module, n.value.func.id)
            if fields is not None and n.attr in fields and not any(isinstance(a, ast.Starred) for a in n.value.args) \
                    and all(k.arg is not None for k in n.value.keywords):
                i = fields.index(n.attr)
                if i < len(n.value.args):
                    return copy.deepcopy(n.value.args[i])
                for k in n.value.keywords:
                    if k.arg == n.attr:
                        return copy.deepcopy(k.value)
        return n

    def visit_Subscript(self, n: ast.Subscript) -> ast.AST:
        self.generic_visit(n)
        if isinstance(n.ctx, ast.Load) and _litmatch(n.value) is not None and isinstance(n.slice, ast.Constant) and n.slice.value == 0:
            return ast.copy_location(ast.Constant(value=_litmatch(n.value)), n)
        if isinstance(n.ctx, ast.Load):
            d = self.table(n.value)
            if d is not None:
                v = self.lookup(d, n.slice, None)
                if v is not None:
                    return v
        return n

    def visit_UnaryOp(self, n: ast.UnaryOp) -> ast.AST:
        self.generic_visit(n)
        if isinstance(n.op, ast.Not) and isinstance(n.operand, ast.Constant) and isinstance(n.operand.value, bool):
            return ast.copy_location(ast.Constant(value=not n.operand.value), n)
        if isinstance(n.op, ast.Not) and _litmatch(n.operand) is not None:
            return ast.copy_location(ast.Constant(value=False), n)
        return n

    def visit_Compare(self, n: ast.Compare) -> ast.AST:
        self.generic_visit(n)
        if len(n.ops) == 1 and isinstance(n.left, ast.IfExp):
            # a test on a selected value: `(a if c else b) is None`  ->  `(a is None) if c else (b is None)`
            f = n.left
            return self.visit(ast.copy_location(ast.IfExp(test=f.test, body=ast.Compare(left=f.body, ops=n.ops, comparators=copy.deepcopy(n.comparators)),
                                                          orelse=ast.Compare(left=f.orelse, ops=n.ops, comparators=copy.deepcopy(n.comparators))), n))
        if len(n.ops) == 1 and isinstance(n.ops[0], (ast.Is, ast.IsNot)) and isinstance(n.comparators[0], ast.Constant) and n.comparators[0].value is None \
                and (attr_chain(n.left) or '').startswith('operator.'):
            return ast.copy_location(ast.Constant(value=isinstance(n.ops[0], ast.IsNot)), n)       # a function of the operator module is not None
        if len(n.ops) == 1 and isinstance(n.ops[0], (ast.Eq, ast.NotEq)):
            # `s[:2] == '>='` (a prefix of exactly the literal's length)  ->  `s.startswith('>=')`
            for sl, lit in ((n.left, n.comparators[0]), (n.comparators[0], n.left)):
                if isinstance(sl, ast.Subscript) and isinstance(sl.slice, ast.Slice) and sl.slice.lower is None and sl.slice.step is None \
                        and isinstance(sl.slice.upper, ast.Constant) and isinstance(lit, ast.Constant) and isinstance(lit.value, str) \
                        and isinstance(sl.slice.upper.value, int) and sl.slice.upper.value == len(lit.value) > 0:
                    call: ast.AST = ast.Call(func=ast.Attribute(value=sl.value, attr='startswith', ctx=ast.Load()), args=[lit], keywords=[])
                    if isinstance(n.ops[0], ast.NotEq):
                        call = ast.UnaryOp(op=ast.Not(), operand=call)
                    return ast.copy_location(call, n)
        if len(n.ops) == 1 and isinstance(n.ops[0], (ast.Is, ast.IsNot)) and _litmatch(n.left) is not None \
                and isinstance(n.comparators[0], ast.Constant) and n.comparators[0].value is None:
            return ast.copy_location(ast.Constant(value=isinstance(n.ops[0], ast.IsNot)), n)       # a match object is not None
        if len(n.ops) == 1 and isinstance(n.left, ast.Constant) and isinstance(n.comparators[0], ast.Constant):
            a, b, op = n.left.value, n.comparators[0].value, n.ops[0]
            if isinstance(op, (ast.Is, ast.IsNot)) and (a is None or b is None):
                return ast.copy_location(ast.Constant(value=(a is b) == isinstance(op, ast.Is)), n)
            if isinstance(op, (ast.Eq, ast.NotEq)) and type(a) is type(b):
                return ast.copy_location(ast.Constant(value=(a == b) == isinstance(op, ast.Eq)), n)
        return n

    def visit_Call(self, n: ast.Call) -> ast.AST:
        if any(k.arg is None and isinstance(k.value, ast.Dict) and all(isinstance(x, ast.Constant) and isinstance(x.value, str) for x in k.value.keys) for k in n.keywords):
            # `f(**{'a': x})`  ->  `f(a=x)`  (a keyword-argument dict built beforehand)
            kws: T.List[ast.keyword] = []
            for k in n.keywords:
                if k.arg is None and isinstance(k.value, ast.Dict) and all(isinstance(x, ast.Constant) and isinstance(x.value, str) for x in k.value.keys):
                    kws.extend(ast.keyword(arg=x.value, value=v) for x, v in zip(k.value.keys, k.value.values))      # type: ignore[union-attr]
                else:
                    kws.append(k)
            if len({k.arg for k in kws if k.arg is not None}) == len([k for k in kws if k.arg is not None]):
                n = ast.copy_location(ast.Call(func=n.func, args=n.args, keywords=kws), n)
        if isinstance(n.func, ast.IfExp):
            # A3  a callable selected first: `(f if c else g)(x)`  ->  `f(x) if c else g(x)`
            f = n.func
            return self.visit(ast.copy_location(ast.IfExp(test=f.test, body=ast.Call(func=f.body, args=copy.deepcopy(n.args), keywords=copy.deepcopy(n.keywords)),
                                                          orelse=ast.Call(func=f.orelse, args=copy.deepcopy(n.args), keywords=copy.deepcopy(n.keywords))), n))
        self.generic_visit(n)
        if isinstance(n.func, ast.Attribute) and n.func.attr in ('strip', 'lstrip', 'rstrip') and not n.args and not n.keywords \
                and isinstance(n.func.value, ast.Call) and isinstance(n.func.value.func, ast.Attribute) and not n.func.value.args and not n.func.value.keywords \
                and n.func.value.func.attr in ('strip', n.func.attr):
            return n.func.value          # stripping blanks twice is stripping them once
        if isinstance(n.func, ast.Attribute) and _litmatch(n.func.value) is not None and not n.keywords \
                and (not n.args or (len(n.args) == 1 and isinstance(n.args[0], ast.Constant) and n.args[0].value == 0)):
            lit = _litmatch(n.func.value)
            if n.func.attr == 'group':
                return ast.copy_location(ast.Constant(value=lit), n)
            if n.func.attr == 'end':
                return ast.copy_location(ast.Constant(value=len(lit)), n)       # type: ignore[arg-type]
            if n.func.attr == 'start':
                return ast.copy_location(ast.Constant(value=0), n)
        if isinstance(n.func, ast.Name) and n.func.id == 'len' and len(n.args) == 1 and not n.keywords:
            a = n.args[0]
            if isinstance(a, ast.Constant) and isinstance(a.value, (str, bytes)):
                return ast.copy_location(ast.Constant(value=len(a.value)), n)
            if isinstance(a, (ast.Tuple, ast.List)) and not any(isinstance(x, ast.Starred) for x in a.elts):
                return ast.copy_location(ast.Constant(value=len(a.elts)), n)
        if isinstance(n.func, ast.Attribute) and isinstance(n.func.value, ast.Name) and n.func.value.id == 'operator' and not n.keywords \
                and not any(isinstance(x, ast.Starred) for x in n.args):
            if n.func.attr in _OPFUN and len(n.args) == 2:
                return ast.copy_location(ast.Compare(left=n.args[0], ops=[_OPFUN[n.func.attr]()], comparators=[n.args[1]]), n)
            if n.func.attr == 'not_' and len(n.args) == 1:
                return ast.copy_location(ast.UnaryOp(op=ast.Not(), operand=n.args[0]), n)
            if n.func.attr == 'contains' and len(n.args) == 2:
                return ast.copy_location(ast.Compare(left=n.args[1], ops=[ast.In()], comparators=[n.args[0]]), n)
        if isinstance(n.func, ast.Attribute) and n.func.attr == 'get' and len(n.args) in (1, 2) and not n.keywords:
            d = self.table(n.func.value)
            if d is not None:
                default = n.args[1] if len(n.args) == 2 else ast.Constant(value=None)
                v = self.lookup(d, n.args[0], default)
                if v is not None:
                    return v
                if not isinstance(n.args[0], ast.Constant) and 0 < len(d.keys) <= 16 and all(isinstance(k, ast.Constant) for k in d.keys):
                    # B5  a lookup with a computed key in a small constant table is the chain `v1 if K == k1 else v2 if K == k2 .. else default`
                    out: ast.AST = copy.deepcopy(default)
                    for k, val in reversed(list(zip(d.keys, d.values))):
                        out = ast.IfExp(test=ast.Compare(left=copy.deepcopy(n.args[0]), ops=[ast.Eq()], comparators=[copy.deepcopy(k)]),     # type: ignore[list-item]
                                        body=copy.deepcopy(val), orelse=out)
                    return self.visit(ast.copy_location(ast.fix_missing_locations(ast.copy_location(out, n)), n))
        if isinstance(n.func, ast.Call) and (attr_chain(n.func.func) or '').split('.')[-1] == 'partial' and n.func.args \
                and not any(isinstance(a, ast.Starred) for a in list(n.func.args) + list(n.args)) and all(k.arg is not None for k in n.func.keywords + n.keywords):
            # A3  `partial(f, a, k=v)(x)`  ->  `f(a, x, k=v)`
            later = {k.arg for k in n.keywords}
            return self.visit(ast.copy_location(ast.Call(func=n.func.args[0], args=list(n.func.args[1:]) + list(n.args),
                                                         keywords=[k for k in n.func.keywords if k.arg not in later] + list(n.keywords)), n))
        return n


class _FoldConst(ast.NodeTransformer):
    """B2: a module-level name bound once to a str/int/bool/None literal and never modified reads as the literal."""
    _cache: T.Dict[T.Tuple[int, str], T.Optional[ast.AST]] = {}

    def __init__(self, module: ast.Module, local: T.Set[str]):
        self.module, self.local = module, local

    def visit_Name(self, n: ast.Name) -> ast.AST:
        if not isinstance(n.ctx, ast.Load) or n.id in self.local:
            return n
        key = (id(self.module), n.id)
        if key not in self._cache:
            from .c19_fold import is_constant_name
            v = is_constant_name(self.module, n.id)
            self._cache[key] = v if isinstance(v, ast.Constant) and isinstance(v.value, (str, int, bool, type(None), bytes)) else None
        v = self._cache[key]
        return ast.copy_location(ast.Constant(value=v.value), n) if v is not None else n      # type: ignore[union-attr]


class _Goto(ast.stmt):
    """Marker statement used while a loop over a constant table is unrolled: continue with `cont()`."""
    _fields = ()

    def __init__(self, cont: T.Callable[[], T.List[ast.stmt]]):
        super().__init__()
        self.cont = cont


def _const_elements(it: ast.AST, module: T.Optional[ast.Module]) -> T.Optional[T.List[ast.AST]]:
    """The elements of a constant iterable: a tuple/list display, `D.items()` of a dict display, or the name of a
    module-level constant bound once to such a display and never modified (policy form c: a finite domain that the
    source declares).  None: not such an iterable."""
    items = False
    if isinstance(it, ast.Call) and isinstance(it.func, ast.Attribute) and it.func.attr == 'items' and not it.args and not it.keywords:
        it, items = it.func.value, True
    if isinstance(it, ast.Name) and module is not None:
        from .c19_fold import is_constant_name
        val = is_constant_name(module, it.id)
        if val is None:
            return None
        it = val
    if items:
        if isinstance(it, ast.Dict) and all(k is not None for k in it.keys):
            return [ast.Tuple(elts=[k, v], ctx=ast.Load()) for k, v in zip(it.keys, it.values)]     # type: ignore[list-item]
        return None
    if isinstance(it, (ast.Tuple, ast.List)) and not any(isinstance(x, ast.Starred) for x in it.elts):
        return list(it.elts)
    if isinstance(it, ast.Dict) and all(k is not None for k in it.keys):
        return list(it.keys)            # type: ignore[arg-type]
    return None


def _replace_expr(root: ast.AST, old: ast.AST, new: ast.AST) -> T.Any:
    """Deep copy of `root` with the node `old` (by identity) replaced by `new`."""
    return copy.deepcopy(root, {id(old): new})


def _first_walrus(test: ast.AST) -> T.Optional[ast.NamedExpr]:
    """The assignment expression that is evaluated first and unconditionally when `test` is evaluated."""
    if isinstance(test, ast.NamedExpr):
        return test
    if isinstance(test, ast.UnaryOp) and isinstance(test.op, ast.Not):
        return _first_walrus(test.operand)
    if isinstance(test, ast.BoolOp):
        return _first_walrus(test.values[0])
    if isinstance(test, ast.Compare):
        return _first_walrus(test.left)
    return None


def _index_loop_as_zip(loop: ast.For) -> T.Optional[ast.For]:
    i = loop.target.id        # type: ignore[attr-defined]
    it = loop.iter
    if not (isinstance(it, ast.Call) and isinstance(it.func, ast.Name) and it.func.id == 'range' and len(it.args) == 1 and not it.keywords):
        return None
    bound = it.args[0]
    seqs: T.List[ast.AST]
    if isinstance(bound, ast.Call) and isinstance(bound.func, ast.Name) and bound.func.id == 'min' and len(bound.args) == 2 \
            and all(isinstance(a, ast.Call) and isinstance(a.func, ast.Name) and a.func.id == 'len' and len(a.args) == 1 for a in bound.args):
        seqs = [a.args[0] for a in bound.args]      # type: ignore[attr-defined]
    else:
        return None
    texts = [ast.unparse(x) for x in seqs]
    if len(set(texts)) != 2 or any(attr_chain(x) is None for x in seqs):
        return None
    body = ast.Module(body=copy.deepcopy(loop.body), type_ignores=[])
    names = [f'_item{k}' for k in range(2)]
    # every use of the index must be `A[i]` or `B[i]` (read), nothing may rebind i, A or B
    class Rw(ast.NodeTransformer):
        ok = True

        def visit_Subscript(self, n: ast.Subscript) -> ast.AST:
            if isinstance(n.slice, ast.Name) and n.slice.id == i and isinstance(n.ctx, ast.Load) and ast.unparse(n.value) in texts:
                return ast.copy_location(ast.Name(id=names[texts.index(ast.unparse(n.value))], ctx=ast.Load()), n)
            return self.generic_visit(n)

        def visit_Name(self, n: ast.Name) -> ast.AST:
            if n.id == i:
                self.ok = False
            return n
    rw = Rw()
    new_body = rw.visit(body).body
    roots = {t.split('.')[0] for t in texts}
    for n in ast.walk(body):
        if isinstance(n, ast.Name) and isinstance(n.ctx, (ast.Store, ast.Del)) and n.id in roots:
            rw.ok = False
    if not rw.ok:
        return None
    tgt = ast.Tuple(elts=[ast.Name(id=x, ctx=ast.Store()) for x in names], ctx=ast.Store())
    call = ast.Call(func=ast.Name(id='zip', ctx=ast.Load()), args=[copy.deepcopy(x) for x in seqs], keywords=[])
    return ast.copy_location(ast.fix_missing_locations(ast.copy_location(ast.For(target=tgt, iter=call, body=new_body, orelse=[]), loop)), loop)


class Normaliser:
    def __init__(self, calls: T.Iterable[str] = (), budget: int = 6000, module: T.Optional[ast.Module] = None):
        self.module = module
        self.locals: T.Set[str] = set()
        self._builders: T.Dict[str, bool] = {}
        self.fn: T.Optional[FuncNode] = None
        self.callees: T.Dict[str, T.List[FuncNode]] = {}
        self._summary: T.Dict[int, T.Optional[T.Set[str]]] = {}
        if module is not None:
            for n in ast.walk(module):
                if isinstance(n, (ast.FunctionDef, ast.AsyncFunctionDef)):
                    self.callees.setdefault(n.name, []).append(n)
        self.pure = set(INLINE_CALLS) | set(calls) | {LITMATCH, 'min', 'max', 'partial'}
        self.nomut = self.pure | NOMUT_CALLS
        self.budget = budget
        self.dropped: T.Set[str] = set()
        self.nodrop: T.Set[str] = set()      # locals that stay ordinary named locals (their assignments are kept)

    # -- expressions ---------------------------------------------------------
    def expr(self, e: T.Optional[ast.AST], st: _State) -> T.Any:
        if e is None:
            return None
        shadow: T.Set[str] = set()
        for n in ast.walk(e):
            if isinstance(n, ast.NamedExpr):
                raise Undecided(f'assignment expression in {short(e)}')
            if isinstance(n, ast.comprehension):
                shadow |= {x.id for x in ast.walk(n.target) if isinstance(x, ast.Name)}
            elif isinstance(n, ast.Lambda):
                shadow |= {a.arg for a in n.args.posonlyargs + n.args.args + n.args.kwonlyargs}
                shadow |= {a.arg for a in (n.args.vararg, n.args.kwarg) if a is not None}
        out = _Sub(st, shadow).visit(copy.deepcopy(e))
        if self.module is not None:
            out = _FoldConst(self.module, self.locals | shadow | set(st.stale)).visit(out)
        out = _FoldLen(self.module, self.locals | shadow, self.local_table).visit(out)
        return self.fold_index(out)

    def fold_index(self, e: ast.AST) -> ast.AST:
        """`(a, b)[1]` -> `b` (a projection of a pair built on the spot, e.g. after inlining a method that returns a pair):
        only when the elements dropped are pure values, so nothing but the selected value is lost (round 13)."""
        nz = self

        class Fold(ast.NodeTransformer):
            def visit_Subscript(self, n: ast.Subscript) -> ast.AST:
                self.generic_visit(n)
                if isinstance(n.ctx, ast.Load) and isinstance(n.value, (ast.Tuple, ast.List)) and isinstance(n.slice, ast.Constant) \
                        and type(n.slice.value) is int and not any(isinstance(x, ast.Starred) for x in n.value.elts) \
                        and -len(n.value.elts) <= n.slice.value < len(n.value.elts):
                    keep = n.value.elts[n.slice.value]
                    if all(x is keep or nz.substitutable(x) for x in n.value.elts):
                        return keep
                return n
        if not any(isinstance(n, ast.Subscript) and isinstance(n.value, (ast.Tuple, ast.List)) for n in ast.walk(e)):
            return e
        return Fold().visit(e)

    def substitutable(self, v: ast.AST) -> bool:
        for n in ast.walk(v):
            if not isinstance(n, _PURE_NODES):
                return False
            if isinstance(n, ast.Call) and _callee(n) not in self.pure:
                if isinstance(n.func, ast.Name) and self.module is not None and n.func.id not in self.locals and record_fields(self.module, n.func.id) is not None:
                    continue        # a NamedTuple / dataclass record built from pure parts is a pure value
                return False
        return True

    def may_change(self, c: ast.Call) -> T.Set[str]:
        """Root names of the objects a call may modify.  With a module at hand, a call of the only function/method
        of that name in the module is answered from a summary of the callee (which parameters it stores into or
        hands to calls that are not known to be harmless); otherwise: every object the call mentions."""
        everything = names_in(c)
        if isinstance(c.func, ast.Attribute) and c.func.attr in RECEIVER_MUTATORS:
            # list/set/dict methods change their receiver, not their arguments; calls inside the receiver expression are judged on their own
            recv = c.func.value
            inner = {n.id for x in ast.walk(recv) if isinstance(x, ast.Call) for n in ast.walk(x) if isinstance(n, ast.Name)}
            if isinstance(recv, ast.IfExp):
                inner |= names_in(recv.test)
            return {n.id for n in ast.walk(recv) if isinstance(n, ast.Name)} - (inner - {n.id for n in ast.walk(recv) if isinstance(n, ast.Name) and not _inside_call(recv, n)})
        d = self.callees.get(_callee(c), [None, None])
        if len(d) != 1 or d[0] is None or any(isinstance(a, ast.Starred) for a in c.args) or any(k.arg is None for k in c.keywords):
            return everything
        fn = d[0]
        if isinstance(c.func, ast.Attribute) and not fn.name.startswith('_') and attr_chain(c.func.value) not in ('self', 'cls'):
            return everything      # a public method name on some other object: it need not be this module's function
        if id(fn) not in self._summary:
            self._summary[id(fn)] = _mutated_params(fn, self.nomut)
        mutated = self._summary[id(fn)]
        if mutated is None or fn.args.vararg or fn.args.kwarg:
            return everything
        params = [a.arg for a in fn.args.posonlyargs + fn.args.args]
        actual: T.Dict[str, ast.AST] = {}
        pos = list(c.args)
        if isinstance(c.func, ast.Attribute) and params and params[0] in ('self', 'cls'):
            pos = [c.func.value] + pos
        elif not isinstance(c.func, ast.Name):
            return everything
        if len(pos) > len(params):
            return everything
        for p_, a in zip(params, pos):
            actual[p_] = a
        for k in c.keywords:
            actual[k.arg] = k.value                                      # type: ignore[index]
        out: T.Set[str] = set()
        for p_ in mutated:
            if p_ in actual:
                out |= names_in(actual[p_])
        return out

    def call_kills(self, node: T.Optional[ast.AST], st: _State) -> None:
        """Calls that are not known to be pure may mutate the objects they are given."""
        if node is None:
            return
        for c in ast.walk(node):
            if isinstance(c, ast.Call) and _callee(c) not in self.nomut:
                for r in self.may_change(c):
                    st.kill_root(r, f'call {short(c, 60)} may change `{r}`')

    # -- statements ----------------------------------------------------------
    def block(self, stmts: T.List[ast.stmt], st: _State) -> T.List[ast.stmt]:
        out: T.List[ast.stmt] = []
        for i, s in enumerate(stmts):
            self.budget -= 1
            if self.budget < 0:
                raise Undecided('function too large to normalise by tail duplication')
            if isinstance(s, _Goto):
                return out + self.block(s.cont(), st)
            rw = self.rewrite(s)
            if rw is not None:
                return out + self.block(rw + list(stmts[i + 1:]), st)
            if isinstance(s, (ast.Assign, ast.AnnAssign)) and getattr(s, 'value', None) is not None:
                tg = s.targets if isinstance(s, ast.Assign) else [s.target]
                if len(tg) == 1 and isinstance(tg[0], ast.Name) and tg[0].id not in self.nodrop:
                    try:
                        v0 = self.expr(s.value, st.copy())
                    except Undecided:
                        v0 = None
                    if isinstance(v0, ast.IfExp):
                        # C4  `x = A if c else B`  ->  `if c: x = A` / `else: x = B` (then every use sees one definition)
                        mk = lambda val: ast.copy_location(ast.Assign(targets=[ast.Name(id=tg[0].id, ctx=ast.Store())], value=val), s)     # noqa: E731
                        node = ast.copy_location(ast.If(test=v0.test, body=[mk(v0.body)], orelse=[mk(v0.orelse)]), s)
                        return out + self.block([node] + list(stmts[i + 1:]), st)
            if isinstance(s, ast.For) and isinstance(s.target, ast.Name) and not s.orelse:
                # D1 with the bound hoisted into a local (`n = min(len(a), len(b)); for i in range(n)`): resolve it first
                try:
                    it2 = self.expr(s.iter, st.copy())
                except Undecided:
                    it2 = None
                if it2 is not None and ast.dump(it2) != ast.dump(s.iter):
                    probe = copy.copy(s)
                    probe.iter = it2
                    z = _index_loop_as_zip(probe)
                    if z is not None:
                        return out + self.block([z] + list(stmts[i + 1:]), st)
            if isinstance(s, ast.For):
                unrolled = self.unroll(s, stmts[i + 1:], st)
                if unrolled is not None:
                    return out + self.block(unrolled, st)
            if isinstance(s, ast.If):
                rest = stmts[i + 1:]
                test = self.expr(s.test, st)
                if _litmatch(test) is not None:
                    test = ast.Constant(value=True)
                if isinstance(test, ast.Constant) and (isinstance(test.value, bool) or test.value is None):
                    return out + self.block(list(s.body if test.value else s.orelse) + rest, st)     # decided by folding
                self.call_kills(test, st)
                body = self.block(list(s.body) + rest, st.copy())
                orelse = self.block(list(s.orelse) + rest, st.copy())
                new = ast.If(test=test, body=body or [ast.copy_location(ast.Pass(), s)], orelse=orelse)
                out.append(ast.copy_location(new, s))
                return out
            out.extend(self.simple(s, st))
            if isinstance(s, _TERMINAL):
                return out
        return out

    # -- desugaring: one spelling for things that have several (refactoring catalogue A5, B3, C6, D1) -----------
    def rewrite(self, s: ast.stmt) -> T.Optional[T.List[ast.stmt]]:
        loc = lambda n: ast.copy_location(n, s)      # noqa: E731
        # C6  `if (m := f(x)):` / `if (m := f(x)) is not None and ..:`  ->  `m = f(x); if m ..:`
        if isinstance(s, ast.If):
            w = _first_walrus(s.test)
            if w is not None and isinstance(w.target, ast.Name):
                test = _replace_expr(s.test, w, ast.Name(id=w.target.id, ctx=ast.Load()))
                return [loc(ast.Assign(targets=[ast.Name(id=w.target.id, ctx=ast.Store())], value=w.value)),
                        loc(ast.If(test=test, body=s.body, orelse=s.orelse))]
        # A5  `x += [a, b]`, `x.extend([a, b])`, `x = x + [a]`, `x = [*x, a]`  ->  `x.append(a); x.append(b)`
        grown: T.Optional[T.Tuple[str, T.List[ast.expr]]] = None
        if isinstance(s, ast.AugAssign) and isinstance(s.op, ast.Add) and isinstance(s.target, ast.Name) and isinstance(s.value, (ast.List, ast.Tuple)):
            grown = (s.target.id, list(s.value.elts))
        elif isinstance(s, ast.Expr) and isinstance(s.value, ast.Call) and isinstance(s.value.func, ast.Attribute) and s.value.func.attr == 'extend' \
                and isinstance(s.value.func.value, ast.Name) and len(s.value.args) == 1 and isinstance(s.value.args[0], (ast.List, ast.Tuple)) and not s.value.keywords:
            grown = (s.value.func.value.id, list(s.value.args[0].elts))
        elif isinstance(s, ast.Assign) and len(s.targets) == 1 and isinstance(s.targets[0], ast.Name):
            x, v = s.targets[0].id, s.value
            if isinstance(v, ast.BinOp) and isinstance(v.op, ast.Add) and isinstance(v.left, ast.Name) and v.left.id == x and isinstance(v.right, (ast.List, ast.Tuple)):
                grown = (x, list(v.right.elts))
            elif isinstance(v, ast.List) and v.elts and isinstance(v.elts[0], ast.Starred) and isinstance(v.elts[0].value, ast.Name) and v.elts[0].value.id == x:
                grown = (x, list(v.elts[1:]))
        if grown is not None and grown[1] and not any(isinstance(e, ast.Starred) for e in grown[1]):
            return [loc(ast.Expr(value=ast.Call(func=ast.Attribute(value=ast.Name(id=grown[0], ctx=ast.Load()), attr='append', ctx=ast.Load()), args=[e], keywords=[])))
                    for e in grown[1]]
        # B3  `a, b = m.groups()`  ->  `a = m.group(1); b = m.group(2)`
        if isinstance(s, ast.Assign) and len(s.targets) == 1 and isinstance(s.targets[0], ast.Tuple) and all(isinstance(t, ast.Name) for t in s.targets[0].elts) \
                and isinstance(s.value, ast.Call) and isinstance(s.value.func, ast.Attribute) and s.value.func.attr == 'groups' and not s.value.args and not s.value.keywords \
                and isinstance(s.value.func.value, ast.Name):
            m = s.value.func.value.id
            if m not in {t.id for t in s.targets[0].elts}:      # type: ignore[attr-defined]
                return [loc(ast.Assign(targets=[ast.Name(id=t.id, ctx=ast.Store())],       # type: ignore[attr-defined]
                                       value=ast.Call(func=ast.Attribute(value=ast.Name(id=m, ctx=ast.Load()), attr='group', ctx=ast.Load()), args=[ast.Constant(value=k + 1)], keywords=[])))
                        for k, t in enumerate(s.targets[0].elts)]
        # B5/B3  `m = RX.match(s)` with RX an alternation of plain literals  ->  a chain of `s.startswith(lit)` tests that binds
        # m to the matched literal (alternatives are tried in order) or to None
        if isinstance(s, (ast.Assign, ast.AnnAssign)) and getattr(s, 'value', None) is not None:
            tg = s.targets if isinstance(s, ast.Assign) else [s.target]
            if len(tg) == 1 and isinstance(tg[0], ast.Name):
                lm = self.literal_match(s.value)
                if lm is not None:
                    subject, alts = lm
                    node: T.List[ast.stmt] = [loc(ast.Assign(targets=[ast.Name(id=tg[0].id, ctx=ast.Store())], value=ast.Constant(value=None)))]
                    for a in reversed(alts):
                        test = ast.Call(func=ast.Attribute(value=copy.deepcopy(subject), attr='startswith', ctx=ast.Load()), args=[ast.Constant(value=a)], keywords=[])
                        bind = loc(ast.Assign(targets=[ast.Name(id=tg[0].id, ctx=ast.Store())],
                                              value=ast.Call(func=ast.Name(id=LITMATCH, ctx=ast.Load()), args=[ast.Constant(value=a)], keywords=[])))
                        node = [loc(ast.If(test=test, body=[bind], orelse=node))]
                    return node
        # A7  `try: x = T[k]` / `except KeyError: x = D`  ->  `x = T.get(k, D)`
        if isinstance(s, ast.Try) and len(s.body) == 1 and len(s.handlers) == 1 and not s.orelse and not s.finalbody:
            b, h = s.body[0], s.handlers[0]
            if isinstance(b, ast.Assign) and len(b.targets) == 1 and isinstance(b.targets[0], ast.Name) and isinstance(b.value, ast.Subscript) \
                    and isinstance(b.value.value, ast.Name) and h.type is not None and ast.unparse(h.type) == 'KeyError' and h.name is None and len(h.body) == 1 \
                    and isinstance(h.body[0], ast.Assign) and len(h.body[0].targets) == 1 and ast.unparse(h.body[0].targets[0]) == b.targets[0].id:
                return [loc(ast.Assign(targets=[b.targets[0]], value=ast.Call(func=ast.Attribute(value=b.value.value, attr='get', ctx=ast.Load()),
                                                                                args=[b.value.slice, h.body[0].value], keywords=[])))]
        # C4  `for t in (A if c else B): body`  ->  `if c: for t in A: body` / `else: for t in B: body`
        if isinstance(s, ast.For) and isinstance(s.iter, ast.IfExp):
            mkf = lambda it: loc(ast.For(target=s.target, iter=it, body=copy.deepcopy(s.body), orelse=copy.deepcopy(s.orelse)))     # noqa: E731
            return [loc(ast.If(test=s.iter.test, body=[mkf(s.iter.body)], orelse=[mkf(s.iter.orelse)]))]
        # C4  `(A if c else B).m(args)` as a statement  ->  `if c: A.m(args)` / `else: B.m(args)`
        if isinstance(s, ast.Expr) and isinstance(s.value, ast.Call) and isinstance(s.value.func, ast.Attribute) and isinstance(s.value.func.value, ast.IfExp):
            c0, f0 = s.value, s.value.func.value
            mkc = lambda recv: loc(ast.Expr(value=ast.Call(func=ast.Attribute(value=recv, attr=c0.func.attr, ctx=ast.Load()),      # noqa: E731
                                                           args=copy.deepcopy(c0.args), keywords=copy.deepcopy(c0.keywords))))
            return [loc(ast.If(test=f0.test, body=[mkc(f0.body)], orelse=[mkc(f0.orelse)]))]
        # D3  `for T in map(f, xs): body`  ->  `for _x in xs: T = f(_x); body`
        if isinstance(s, ast.For) and isinstance(s.iter, ast.Call) and isinstance(s.iter.func, ast.Name) and s.iter.func.id == 'map' \
                and len(s.iter.args) == 2 and not s.iter.keywords and attr_chain(s.iter.args[0]) is not None and 'map' not in self.locals:
            item = f'_item_{getattr(s, "lineno", 0)}'
            call = ast.Call(func=s.iter.args[0], args=[ast.Name(id=item, ctx=ast.Load())], keywords=[])
            return [loc(ast.For(target=ast.Name(id=item, ctx=ast.Store()), iter=s.iter.args[1],
                                body=[loc(ast.Assign(targets=[s.target], value=call))] + list(s.body), orelse=s.orelse))]
        # D1  `for i in range(min(len(A), len(B))): .. A[i] .. B[i] ..`  ->  `for a, b in zip(A, B): .. a .. b ..`
        if isinstance(s, ast.For) and isinstance(s.target, ast.Name) and not s.orelse:
            z = _index_loop_as_zip(s)
            if z is not None:
                return [z]
        # D3  `.. reduce(step, xs, init) ..`  ->  `_acc = init; for _x in xs: _acc = step(_acc, _x); .. _acc ..`  (the left fold
        # IS the accumulating loop; a lambda step is applied in place; without an initial value the first item seeds the fold: not rewritten)
        if isinstance(s, (ast.Assign, ast.AnnAssign, ast.Return, ast.Expr)) and getattr(s, 'value', None) is not None:
            for c in walk_no_nested(s.value):
                if not (isinstance(c, ast.Call) and attr_chain(c.func) in ('reduce', 'functools.reduce') and 'reduce' not in self.locals and 'functools' not in self.locals):
                    continue
                pos = list(c.args)
                kws = {k.arg: k.value for k in c.keywords}
                if len(pos) == 2 and set(kws) == {'initial'}:
                    pos.append(kws['initial'])
                elif kws or len(pos) != 3:
                    continue
                step, xs, init = pos
                if any(isinstance(x, ast.Starred) for x in pos):
                    continue
                tag = f'{getattr(c, "lineno", 0)}_{getattr(c, "col_offset", 0)}'
                acc, item = f'_acc_{tag}', f'_item_{tag}'
                if isinstance(step, ast.Lambda):
                    la = step.args
                    ps = [a.arg for a in la.posonlyargs + la.args]
                    if len(ps) != 2 or la.vararg or la.kwarg or la.kwonlyargs or la.defaults:
                        continue
                    from ..tables import _Subst
                    applied: ast.AST = _Subst({ps[0]: ast.Name(id=acc, ctx=ast.Load()), ps[1]: ast.Name(id=item, ctx=ast.Load())}).visit(copy.deepcopy(step.body))
                elif attr_chain(step) is not None:
                    applied = ast.Call(func=step, args=[ast.Name(id=acc, ctx=ast.Load()), ast.Name(id=item, ctx=ast.Load())], keywords=[])
                else:
                    continue
                self.locals |= {acc, item}
                return [loc(ast.Assign(targets=[ast.Name(id=acc, ctx=ast.Store())], value=init)),
                        loc(ast.For(target=ast.Name(id=item, ctx=ast.Store()), iter=xs,
                                    body=[loc(ast.Assign(targets=[ast.Name(id=acc, ctx=ast.Store())], value=applied))], orelse=[])),
                        _replace_in_copy(s, c, ast.Name(id=acc, ctx=ast.Load()))]
        return None

    def literal_match(self, v: ast.AST) -> T.Optional[T.Tuple[ast.AST, T.List[str]]]:
        """`RX.match(s)` / `re.match('a|b', s)` where the pattern is a plain alternation of literals -> (s, [literals])."""
        pat: T.Optional[ast.AST] = None
        subject: T.Optional[ast.AST] = None
        if isinstance(v, ast.Call) and isinstance(v.func, ast.Attribute) and v.func.attr == 'match' and not v.keywords:
            if attr_chain(v.func.value) == 're' and len(v.args) == 2:
                pat, subject = v.args[0], v.args[1]
            elif len(v.args) == 1 and isinstance(v.func.value, ast.Name) and self.module is not None and v.func.value.id not in self.locals:
                from .c19_fold import is_constant_name
                c = is_constant_name(self.module, v.func.value.id)
                if isinstance(c, ast.Call) and attr_chain(c.func) == 're.compile' and len(c.args) == 1 and not c.keywords:
                    pat, subject = c.args[0], v.args[0]
        if not (isinstance(pat, ast.Constant) and isinstance(pat.value, str)) or subject is None:
            return None
        if any(ch in pat.value for ch in '\\.^$*+?{}[]()') or not pat.value:
            return None
        alts = pat.value.split('|')
        return (subject, alts) if all(alts) else None

    def dict_builder(self, name: str) -> bool:
        """A local that is only ever: bound to a dict display, grown by `name.update(k=v, ..)` / `name.update({..})` /
        `name['k'] = v` statements, and splatted (`f(**name)`) or copied (`dict(name)`): its content at a use is the
        display accumulated along the path (no aliasing is possible)."""
        if name in self._builders:
            return self._builders[name]
        fn, ok = self.fn, True
        if fn is None:
            return False
        parents: T.Dict[int, ast.AST] = {}
        for n in ast.walk(fn):
            for ch in ast.iter_child_nodes(n):
                parents[id(ch)] = n
        for n in ast.walk(fn):
            if not (isinstance(n, ast.Name) and n.id == name):
                continue
            par = parents.get(id(n))
            if isinstance(n.ctx, ast.Store):
                ok = ok and isinstance(par, (ast.Assign, ast.AnnAssign)) and isinstance(getattr(par, 'value', None), ast.Dict) \
                    and (par.targets == [n] if isinstance(par, ast.Assign) else par.target is n)
            elif isinstance(n.ctx, ast.Del):
                ok = False
            else:
                gp = parents.get(id(par)) if par is not None else None
                upd = isinstance(par, ast.Attribute) and par.attr == 'update' and isinstance(gp, ast.Call) and gp.func is par and isinstance(parents.get(id(gp)), ast.Expr)
                sub = isinstance(par, ast.Subscript) and par.value is n and isinstance(par.ctx, ast.Store)
                splat = isinstance(par, ast.keyword) and par.arg is None
                cp = isinstance(par, ast.Call) and isinstance(par.func, ast.Name) and par.func.id == 'dict' and par.args == [n]
                ok = ok and (upd or sub or splat or cp)
        self._builders[name] = ok
        return ok

    def grow(self, s: ast.stmt, st: _State) -> bool:
        """`d.update(k=v)` / `d.update({'k': v})` / `d['k'] = v` on a dict-builder local whose display is known: fold into it."""
        name: T.Optional[str] = None
        items: T.List[T.Tuple[ast.AST, ast.AST]] = []
        if isinstance(s, ast.Expr) and isinstance(s.value, ast.Call) and isinstance(s.value.func, ast.Attribute) and s.value.func.attr == 'update' \
                and isinstance(s.value.func.value, ast.Name):
            c = s.value
            name = c.func.value.id          # type: ignore[attr-defined]
            if any(k.arg is None for k in c.keywords) or len(c.args) > 1:
                return False
            if c.args:
                if not (isinstance(c.args[0], ast.Dict) and all(k is not None for k in c.args[0].keys)):
                    return False
                items += list(zip(c.args[0].keys, c.args[0].values))      # type: ignore[arg-type]
            items += [(ast.Constant(value=k.arg), k.value) for k in c.keywords]
        elif isinstance(s, ast.Assign) and len(s.targets) == 1 and isinstance(s.targets[0], ast.Subscript) and isinstance(s.targets[0].value, ast.Name):
            name = s.targets[0].value.id
            items = [(s.targets[0].slice, s.value)]
        if name is None or name not in st.env or not isinstance(st.env[name], ast.Dict) or not self.dict_builder(name):
            return False
        d = copy.deepcopy(st.env[name])
        for k, v in items:
            k2, v2 = self.expr(k, st), self.expr(v, st)
            if not isinstance(k2, ast.Constant) or not self.substitutable(v2):
                return False
            for i, old in enumerate(d.keys):            # type: ignore[attr-defined]
                if isinstance(old, ast.Constant) and old.value == k2.value:
                    d.values[i] = v2                    # type: ignore[attr-defined]
                    break
            else:
                d.keys.append(k2)                       # type: ignore[attr-defined]
                d.values.append(v2)                     # type: ignore[attr-defined]
        st.env[name] = d
        return True

    def local_table(self, name: str) -> T.Optional[ast.AST]:
        """A local bound exactly once to a tuple/list/dict display and only ever read (iterated, indexed, `.get`/`.items`,
        membership): a constant table that happens to live inside the function."""
        fn = self.fn
        if fn is None:
            return None
        val: T.Optional[ast.AST] = None
        parents: T.Dict[int, ast.AST] = {}
        for n in ast.walk(fn):
            for ch in ast.iter_child_nodes(n):
                parents[id(ch)] = n
        for n in ast.walk(fn):
            if not (isinstance(n, ast.Name) and n.id == name):
                continue
            par = parents.get(id(n))
            if isinstance(n.ctx, ast.Store):
                if val is not None or not (isinstance(par, (ast.Assign, ast.AnnAssign)) and getattr(par, 'value', None) is not None
                                           and (par.targets == [n] if isinstance(par, ast.Assign) else par.target is n)):
                    return None
                val = par.value      # type: ignore[union-attr]
            elif isinstance(n.ctx, ast.Del):
                return None
            else:
                ok = (isinstance(par, (ast.For, ast.comprehension)) and par.iter is n) \
                    or (isinstance(par, ast.Attribute) and par.attr in ('items', 'keys', 'values', 'get') and isinstance(par.ctx, ast.Load)) \
                    or (isinstance(par, ast.Subscript) and par.value is n and isinstance(par.ctx, ast.Load)) \
                    or (isinstance(par, ast.Compare) and n in par.comparators and all(isinstance(o, (ast.In, ast.NotIn)) for o in par.ops))
                if not ok:
                    return None
        if isinstance(val, (ast.Tuple, ast.List, ast.Dict)):
            return val
        return None

    def unroll(self, loop: ast.For, rest: T.List[ast.stmt], st: _State) -> T.Optional[T.List[ast.stmt]]:
        """`for a, b in ((c1, d1), (c2, d2)): body` over a constant table -> the iterations written out, `break` and
        `continue` turned into jumps (tail duplication makes them structured again).  None: not such a loop."""
        it: ast.AST = loop.iter
        root = it.func.value if isinstance(it, ast.Call) and isinstance(it.func, ast.Attribute) and it.func.attr == 'items' and not it.args else it
        if isinstance(root, ast.Name) and root.id in self.locals:
            table = self.local_table(root.id)
            if table is None:
                return None
            it = _replace_expr(it, root, table)
        else:
            it = self.expr(it, st)
        elems = _const_elements(it, self.module)
        if elems is None or len(elems) > 24:
            return None
        names: T.List[str]
        if isinstance(loop.target, ast.Name):
            names = [loop.target.id]
        elif isinstance(loop.target, ast.Tuple) and all(isinstance(x, ast.Name) for x in loop.target.elts):
            names = [x.id for x in loop.target.elts]            # type: ignore[attr-defined]
        else:
            return None
        rows: T.List[T.List[ast.AST]] = []
        for e in elems:
            parts = [e] if isinstance(loop.target, ast.Name) else (list(e.elts) if isinstance(e, (ast.Tuple, ast.List)) and len(e.elts) == len(names) else None)
            if parts is None or not all(self.substitutable(x) for x in parts):
                return None
            rows.append(parts)
        for inner in ast.walk(ast.Module(body=loop.body, type_ignores=[])):
            if isinstance(inner, ast.Name) and isinstance(inner.ctx, (ast.Store, ast.Del)) and inner.id in names:
                return None                  # the loop variable is rebound in the body

        def jumps(stmts: T.List[ast.stmt], nxt: _Goto, after: _Goto) -> T.List[ast.stmt]:
            out: T.List[ast.stmt] = []
            for x in stmts:
                if isinstance(x, ast.Break):
                    out.append(after)
                elif isinstance(x, ast.Continue):
                    out.append(nxt)
                elif isinstance(x, (ast.For, ast.AsyncFor, ast.While, ast.FunctionDef, ast.AsyncFunctionDef, ast.ClassDef)):
                    out.append(x)            # break/continue inside belong to the inner loop
                else:
                    y = copy.copy(x)
                    for f in _BLOCK_FIELDS:
                        sub = getattr(x, f, None)
                        if isinstance(sub, list) and sub and isinstance(sub[0], ast.stmt):
                            setattr(y, f, jumps(sub, nxt, after))
                    if getattr(x, 'handlers', None):
                        y.handlers = [ast.copy_location(ast.ExceptHandler(type=h.type, name=h.name, body=jumps(h.body, nxt, after)), h) for h in x.handlers]   # type: ignore[attr-defined]
                    out.append(y)
            return out

        after = _Goto(lambda: list(rest))

        def iteration(k: int) -> T.List[ast.stmt]:
            if k == len(rows):
                return list(loop.orelse) + list(rest)
            bind = [ast.copy_location(ast.Assign(targets=[ast.Name(id=n, ctx=ast.Store())], value=copy.deepcopy(v)), loop) for n, v in zip(names, rows[k])]
            nxt = _Goto(lambda: iteration(k + 1))
            return bind + jumps(list(loop.body), nxt, after) + [nxt]      # type: ignore[operator]
        return iteration(0)

    def _store_targets(self, targets: T.List[ast.expr], st: _State, why: str) -> T.List[ast.expr]:
        new: T.List[ast.expr] = []
        for t in targets:
            for n in ast.walk(t):
                if isinstance(n, ast.Name) and isinstance(n.ctx, ast.Store):
                    st.rebind_opaque(n.id, why)
                elif isinstance(n, (ast.Attribute, ast.Subscript)) and isinstance(n.ctx, (ast.Store, ast.Del)):
                    base = n if isinstance(n, ast.Attribute) else n.value
                    c = attr_chain(base)
                    if c is not None:
                        root = c.split('.')[0]
                        if root in st.env or root in st.stale:
                            raise _StaleRead(root, f'stored through in `{short(t, 40)}`')
                        st.kill_chain(c, f'`{short(t, 40)}` is assigned')
                    else:
                        for r in names_in(base):
                            st.kill_root(r, f'`{short(t, 40)}` is assigned')
            new.append(self.expr(t, st))      # only names in Load context (bases, indices) are substituted
        return new

    def simple(self, s: ast.stmt, st: _State) -> T.List[ast.stmt]:
        if self.grow(s, st):
            return []
        if isinstance(s, (ast.Assign, ast.AnnAssign)) and isinstance(getattr(s, 'value', None), ast.Dict):
            tg0 = s.targets if isinstance(s, ast.Assign) else [s.target]
            if len(tg0) == 1 and isinstance(tg0[0], ast.Name) and tg0[0].id not in self.nodrop and self.dict_builder(tg0[0].id) \
                    and all(k is not None for k in s.value.keys):
                d0 = self.expr(s.value, st)
                if all(isinstance(k, ast.Constant) for k in d0.keys) and all(self.substitutable(v) for v in d0.values):
                    st.stale.pop(tg0[0].id, None)
                    st.env[tg0[0].id] = d0
                    self.dropped.add(tg0[0].id)
                    return []
        if isinstance(s, (ast.Assign, ast.AnnAssign)):
            if isinstance(s, ast.AnnAssign):
                if s.value is None:
                    return []           # a bare declaration `x: T`
                targets = [s.target]
            else:
                targets = s.targets
            if len(targets) == 1 and isinstance(targets[0], ast.Tuple) and isinstance(s.value, ast.Tuple) \
                    and len(targets[0].elts) == len(s.value.elts) and all(isinstance(t, ast.Name) for t in targets[0].elts) \
                    and not any(isinstance(x, ast.Starred) for x in s.value.elts):
                # `a, b = x, y`: all values are read before any name is bound
                vals = [self.expr(x, st) for x in s.value.elts]
                for x in vals:
                    self.call_kills(x, st)
                out: T.List[ast.stmt] = []
                binds: T.List[T.Tuple[str, ast.expr]] = []
                for t, x in zip(targets[0].elts, vals):
                    name = t.id                                          # type: ignore[attr-defined]
                    if self.substitutable(x) and name not in self.nodrop:
                        binds.append((name, x))
                    else:
                        st.rebind_opaque(name, f'`{name}` is rebound to {short(x, 40)}')
                        out.append(ast.copy_location(ast.Assign(targets=[ast.Name(id=name, ctx=ast.Store())], value=x), s))
                if out and binds:
                    # some of the names stay ordinary locals: keep the whole parallel assignment as one statement
                    for t in targets[0].elts:
                        st.rebind_opaque(t.id, f'rebound by `{short(s, 50)}`')      # type: ignore[attr-defined]
                    return [ast.copy_location(ast.Assign(targets=[copy.deepcopy(targets[0])], value=ast.Tuple(elts=vals, ctx=ast.Load())), s)]
                for name, x in binds:
                    st.stale.pop(name, None)
                    st.env[name] = x
                    self.dropped.add(name)
                return out
            if len(targets) > 1 and all(isinstance(t, ast.Name) for t in targets):
                # `a = b = V` with a pure V: every name is bound to V
                v0 = self.expr(s.value, st)
                if self.substitutable(v0) and not any(t.id in self.nodrop for t in targets):      # type: ignore[attr-defined]
                    for t in targets:
                        st.stale.pop(t.id, None)          # type: ignore[attr-defined]
                        st.env[t.id] = copy.deepcopy(v0)  # type: ignore[attr-defined]
                        self.dropped.add(t.id)            # type: ignore[attr-defined]
                    return []
            v = self.expr(s.value, st)
            self.call_kills(v, st)
            if len(targets) == 1 and isinstance(targets[0], ast.Name):
                name = targets[0].id
                if self.substitutable(v) and name not in self.nodrop:
                    st.stale.pop(name, None)
                    st.env[name] = v
                    self.dropped.add(name)
                    return []
                st.rebind_opaque(name, f'`{name}` is rebound to {short(v, 40)}')
                return [ast.copy_location(ast.Assign(targets=[copy.deepcopy(targets[0])], value=v), s)]
            new_t = self._store_targets(list(targets), st, f'rebound by `{short(s, 50)}`')
            return [ast.copy_location(ast.Assign(targets=new_t, value=v), s)]
        if isinstance(s, ast.AugAssign):
            v = self.expr(s.value, st)
            self.call_kills(v, st)
            if isinstance(s.target, ast.Name):
                if s.target.id in st.env or s.target.id in st.stale:
                    raise _StaleRead(s.target.id, f'updated in place by `{short(s, 40)}`')
                st.rebind_opaque(s.target.id, f'`{short(s, 40)}`')
                tgt: ast.expr = copy.deepcopy(s.target)
            else:
                tgt = self._store_targets([s.target], st, f'`{short(s, 40)}`')[0]
            return [ast.copy_location(ast.AugAssign(target=tgt, op=s.op, value=v), s)]
        if isinstance(s, ast.Expr):
            v = self.expr(s.value, st)
            self.call_kills(v, st)
            return [ast.copy_location(ast.Expr(value=v), s)]
        if isinstance(s, ast.Return):
            v = self.expr(s.value, st)
            if isinstance(v, ast.IfExp):
                # C4/C7  `return A if c else B`  ->  `if c: return A` / `else: return B` (the value was substituted already)
                node = ast.copy_location(ast.If(test=v.test, body=[ast.copy_location(ast.Return(value=v.body), s)],
                                                orelse=[ast.copy_location(ast.Return(value=v.orelse), s)]), s)
                return self.block([node], _State())
            return [ast.copy_location(ast.Return(value=v), s)]
        if isinstance(s, ast.Raise):
            return [ast.copy_location(ast.Raise(exc=self.expr(s.exc, st), cause=self.expr(s.cause, st)), s)]
        if isinstance(s, ast.Assert):
            t = self.expr(s.test, st)
            self.call_kills(t, st)
            return [ast.copy_location(ast.Assert(test=t, msg=s.msg), s)]
        if isinstance(s, ast.Delete):
            self._store_targets(list(s.targets), st, f'`{short(s, 40)}`')
            return [s]
        if isinstance(s, (ast.Pass, ast.Break, ast.Continue, ast.Import, ast.ImportFrom, ast.Global, ast.Nonlocal)):
            return [s]
        if isinstance(s, (ast.FunctionDef, ast.AsyncFunctionDef, ast.ClassDef)):
            for x in ast.walk(s):
                if isinstance(x, ast.Name) and (x.id in st.env or x.id in st.stale or x.id in self.dropped):
                    raise _StaleRead(x.id, f'captured by the nested definition {s.name}')
            st.rebind_opaque(s.name, f'definition of {s.name}')
            return [s]
        if isinstance(s, (ast.For, ast.AsyncFor, ast.While, ast.With, ast.AsyncWith, ast.Try)) or s.__class__.__name__ == 'TryStar':
            return [self.compound(s, st)]
        raise Undecided(f'statement kind {s.__class__.__name__} is not understood by the normaliser')

    def compound(self, s: ast.stmt, st: _State) -> ast.stmt:
        new = copy.copy(s)
        is_loop = isinstance(s, (ast.For, ast.AsyncFor, ast.While))
        if isinstance(s, (ast.For, ast.AsyncFor)):
            new.iter = self.expr(s.iter, st)                       # evaluated once, before the first iteration
            self.call_kills(new.iter, st)
        if isinstance(s, (ast.With, ast.AsyncWith)):
            items = []
            for it in s.items:
                ce = self.expr(it.context_expr, st)
                self.call_kills(ce, st)
                items.append(ast.withitem(context_expr=ce, optional_vars=it.optional_vars))
            new.items = items
        # names bound and objects possibly changed anywhere inside: unknown from here on
        bound: T.Set[str] = set()
        for n in ast.walk(s):
            if isinstance(n, ast.Name) and isinstance(n.ctx, (ast.Store, ast.Del)):
                bound.add(n.id)
            elif isinstance(n, ast.ExceptHandler) and n.name:
                bound.add(n.name)
        was_known = {n for n in bound if n in st.env or n in st.stale}
        inner_stmts = [x for x in ast.walk(s) if isinstance(x, ast.stmt) and x is not s]
        for x in inner_stmts:
            if isinstance(x, (ast.Assign, ast.AugAssign, ast.AnnAssign, ast.Delete)):
                tg = x.targets if isinstance(x, (ast.Assign, ast.Delete)) else [x.target]
                for t in tg:
                    for n in ast.walk(t):
                        if isinstance(n, (ast.Attribute, ast.Subscript)) and isinstance(n.ctx, (ast.Store, ast.Del)):
                            c = attr_chain(n if isinstance(n, ast.Attribute) else n.value)
                            if c is not None:
                                st.kill_chain(c, f'`{short(t, 40)}` is assigned in a nested block')
                            else:
                                for r in names_in(n):
                                    st.kill_root(r, f'`{short(t, 40)}` is assigned in a nested block')
        for n in bound:
            st.rebind_opaque(n, f'`{n}` is bound inside a nested block')
            if n in was_known:
                st.stale[n] = f'`{n}` may be rebound inside a nested block'
        probe = st.copy()
        for c in ast.walk(s):
            if isinstance(c, ast.Call) and isinstance(c.func, ast.Name) and c.func.id in probe.env:
                # a callable bound to a local (`f = partial(g, a)`, `f = g`): judge the call it stands for
                try:
                    c = _FoldLen(self.module, self.locals, self.local_table).visit(_Sub(probe, set()).visit(copy.deepcopy(c)))
                except Undecided:
                    pass
            if isinstance(c, ast.Call) and _callee(c) not in self.nomut:
                # conservatively: the raw names of the call (before substitution) and whatever their definitions read
                for r in self.may_change(c):
                    for rr in ({r} | (names_in(probe.env[r]) if r in probe.env else set())):
                        st.kill_root(rr, f'call {short(c, 60)} in a nested block may change `{rr}`')
        if isinstance(s, ast.While):
            new.test = self.expr(s.test, st)

        def run(entry: _State) -> T.Tuple[T.Dict[str, T.List[ast.stmt]], T.List[T.List[ast.stmt]], T.Set[str]]:
            before = set(self.dropped)
            self.dropped = set()
            blocks: T.Dict[str, T.List[ast.stmt]] = {}
            for f in _BLOCK_FIELDS:
                sub = getattr(s, f, None)
                if isinstance(sub, list) and sub and isinstance(sub[0], ast.stmt):
                    e = entry.copy()
                    if f == 'body' and isinstance(s, (ast.For, ast.AsyncFor)):
                        # the loop header binds its targets afresh at the start of every iteration: inside the body the
                        # bare name denotes that value (like a parameter), later rebindings are substituted over it
                        for x in ast.walk(s.target):
                            if isinstance(x, ast.Name):
                                e.stale.pop(x.id, None)
                    blocks[f] = self.block(sub, e) or [ast.copy_location(ast.Pass(), s)]
            hs = [self.block(h.body, entry.copy()) or [ast.copy_location(ast.Pass(), s)] for h in getattr(s, 'handlers', [])]
            inside = self.dropped
            self.dropped = before | inside
            return blocks, hs, inside

        blocks, hs, inside = run(st)
        if inside and (is_loop or getattr(s, 'handlers', None) or getattr(s, 'finalbody', None)):
            # a local whose definition was dropped inside may be read before it is redefined (next iteration,
            # handler after a partial body): such a read must not be resolved (normalise() then retries with
            # that local kept as an ordinary named local)
            for n in inside:
                st.stale[n] = f'`{n}` is defined inside a loop/try block'
            blocks, hs, inside = run(st)
        for f, b in blocks.items():
            setattr(new, f, b)
        if hs:
            new.handlers = [ast.copy_location(ast.ExceptHandler(type=h.type, name=h.name, body=b), h) for h, b in zip(s.handlers, hs)]  # type: ignore[attr-defined]
        for n in inside:
            st.env.pop(n, None)
            st.stale[n] = f'`{n}` is defined inside a nested block'
        return new


def normalise(fn: FuncNode, *, body: T.Optional[T.List[ast.stmt]] = None, calls: T.Iterable[str] = (),
              env: T.Optional[T.Dict[str, ast.expr]] = None, module: T.Optional[ast.Module] = None) -> FuncNode:
    """A copy of `fn` whose body (or `body`, e.g. one loop body of it) is tail-duplicated and has its locals
    forward-substituted.  `calls`: additional callee names whose calls may be treated as pure values
    (e.g. {'intersect'} for the copy-returning Range.intersect).  `module`: the module tree, to answer "what may this
    call modify" from the callee's own stores instead of assuming the worst."""
    if any(isinstance(n, (ast.Yield, ast.YieldFrom, ast.Await)) for n in ast.walk(fn)):
        raise Undecided(f'{fn.name}: generator/coroutine bodies are not normalised')
    nodrop: T.Set[str] = set()
    for n in ast.walk(fn):
        if isinstance(n, (ast.Global, ast.Nonlocal)):
            nodrop |= set(n.names)
    while True:
        nz = Normaliser(calls, module=module)
        nz.nodrop = set(nodrop)
        nz.fn = fn
        nz.locals = {a.arg for a in fn.args.posonlyargs + fn.args.args + fn.args.kwonlyargs + [x for x in (fn.args.vararg, fn.args.kwarg) if x is not None]} \
            | {n.id for n in ast.walk(fn) if isinstance(n, ast.Name) and isinstance(n.ctx, (ast.Store, ast.Del))}
        try:
            new_body = nz.block(list(body if body is not None else fn.body), _State(env))
            break
        except _StaleRead as e:
            # e.g. a loop-carried local (`acc = acc.f(x)`), a flag set inside a loop: keep its assignments as statements
            if e.name in nodrop or len(nodrop) > 30:
                raise
            nodrop.add(e.name)
    new = copy.copy(fn)
    new.body = new_body or [ast.copy_location(ast.Pass(), fn)]
    return new


# ---------------------------------------------------------------------------------------------------------
# inlining of private helper methods called for effect (`obj._helper(a, b)` as a statement)
# ---------------------------------------------------------------------------------------------------------

def _strip_tail_returns(stmts: T.List[ast.stmt]) -> T.Optional[T.List[ast.stmt]]:
    """Remove `return` / `return None` in tail position of a tail-duplicated body; None if a value is returned."""
    if not stmts:
        return stmts
    out = list(stmts)
    last = out[-1]
    if isinstance(last, ast.Return):
        if last.value is not None and not (isinstance(last.value, ast.Constant) and last.value.value is None):
            return None
        out = out[:-1]
    elif isinstance(last, ast.If):
        b, o = _strip_tail_returns(last.body), _strip_tail_returns(last.orelse)
        if b is None or o is None:
            return None
        out[-1] = ast.copy_location(ast.If(test=last.test, body=b or [ast.copy_location(ast.Pass(), last)], orelse=o), last)
    return out


def _tail_map(stmts: T.List[ast.stmt], leaf: T.Callable[[T.Optional[ast.AST]], T.List[ast.stmt]]) -> T.Optional[T.List[ast.stmt]]:
    """Replace every way out of a tail-duplicated body by `leaf(returned expression or None)`; None if a way out is
    not in tail position."""
    if not stmts:
        return leaf(None)
    out = list(stmts[:-1])
    last = stmts[-1]
    for x in out:
        for n in ast.walk(x):
            if isinstance(n, ast.Return):
                return None
    if isinstance(last, ast.Return):
        return out + leaf(last.value)
    if isinstance(last, ast.Raise):
        return out + [last]
    if isinstance(last, ast.If):
        b, o = _tail_map(last.body, leaf), _tail_map(last.orelse, leaf)
        if b is None or o is None:
            return None
        return out + [ast.copy_location(ast.If(test=last.test, body=b or [ast.copy_location(ast.Pass(), last)], orelse=o), last)]
    if any(isinstance(n, ast.Return) for n in ast.walk(last)):
        return None
    return out + [last] + leaf(None)


def _replace_in_copy(st: ast.stmt, old: ast.AST, new: ast.AST) -> ast.stmt:
    """A deep copy of `st` in which the node `old` (by identity) is replaced by a copy of `new`."""
    memo: T.Dict[int, T.Any] = {id(old): copy.deepcopy(new)}
    return copy.deepcopy(st, memo)


class _ReplaceNode(ast.NodeTransformer):
    def __init__(self, old: ast.AST, new: ast.AST):
        self.old, self.new = old, new

    def visit(self, node: ast.AST) -> ast.AST:
        if node is self.old:
            return copy.deepcopy(self.new)
        return self.generic_visit(node)


def inline_helpers(fn: FuncNode, helpers: T.Dict[str, FuncNode], *, calls: T.Iterable[str] = (),
                   functions: T.Optional[T.Dict[str, FuncNode]] = None, depth: int = 3,
                   partials: T.Optional[T.Dict[str, T.Tuple[FuncNode, T.List[ast.expr], T.List[ast.keyword]]]] = None) -> FuncNode:
    """A copy of `fn` in which calls of *private* helpers are replaced by the helper's body (E1/E2/E5 of the
    refactoring catalogue: extract method, closure/method/module-function, phase split):

    * a statement `recv._m(args)` called for effect -> the body, `self` -> recv, parameters -> arguments;
    * a statement that uses the *value* of one helper call (`x = f(a)`, `return g(f(a))`, `acc = acc.h(f(a))`) -> the
      helper's tail-duplicated body with every `return E` replaced by the statement with E in place of the call.

    `helpers`: methods of the same class (called through any receiver); `functions`: module-level functions (called
    by name).  Arguments are bound by the callee's signature (position, keyword, defaults).  A helper that cannot be
    inlined faithfully (returns from inside a loop, rebinds a parameter, *args, recursion) is left as a call."""
    from ..tables import _Subst
    functions = functions or {}
    partials = partials or {}
    serial = [0]

    def callee_of(c: ast.Call) -> T.Optional[T.Tuple[FuncNode, T.Optional[ast.AST]]]:
        if isinstance(c.func, ast.Name) and c.func.id in partials and partials[c.func.id][0] is not fn:
            return partials[c.func.id][0], None
        if isinstance(c.func, ast.Attribute) and c.func.attr in helpers and helpers[c.func.attr] is not fn and attr_chain(c.func.value) is not None:
            return helpers[c.func.attr], c.func.value
        if isinstance(c.func, ast.Name) and c.func.id in functions and functions[c.func.id] is not fn:
            return functions[c.func.id], None
        return None

    def instantiate(c: ast.Call) -> T.Optional[T.List[ast.stmt]]:
        """The normalised body of the callee with parameters bound and locals renamed (returns still in place)."""
        callee, recv = callee_of(c)      # type: ignore[misc]
        if isinstance(c.func, ast.Name) and c.func.id in partials:
            # `P = functools.partial(f, a, k=v)` ... `P(x)`  is  `f(a, x, k=v)`
            _f, pargs, pkw = partials[c.func.id]
            c = ast.Call(func=ast.Name(id=_f.name, ctx=ast.Load()), args=[copy.deepcopy(x) for x in pargs] + list(c.args),
                         keywords=[copy.deepcopy(k) for k in pkw if k.arg not in {q.arg for q in c.keywords}] + list(c.keywords))
        a = callee.args
        if a.vararg or a.kwarg or any(isinstance(x, ast.Starred) for x in c.args) or any(k.arg is None for k in c.keywords):
            return None
        static = [d for d in callee.decorator_list if isinstance(d, ast.Name) and d.id == 'staticmethod']
        if len(static) != len(callee.decorator_list):
            return None          # classmethod/property/cache wrappers: not read
        if static:
            recv = None          # `self._h(a)` / `Cls._h(a)` on a staticmethod: no receiver is bound
        params = [p.arg for p in a.posonlyargs + a.args]
        actual: T.Dict[str, ast.AST] = {}
        pos = list(c.args)
        if recv is not None:
            if not params or params[0] != 'self':
                return None
            actual['self'] = recv
            names = params[1:]
        else:
            names = params
        if len(pos) > len(names):
            return None
        for p, x in zip(names, pos):
            actual[p] = x
        allp = params + [p.arg for p in a.kwonlyargs]
        for k in c.keywords:
            if k.arg not in allp or k.arg in actual:
                return None
            actual[k.arg] = k.value                     # type: ignore[index]
        defaults = dict(zip(params[len(params) - len(a.defaults):], a.defaults))
        defaults.update({p.arg: d for p, d in zip(a.kwonlyargs, a.kw_defaults) if d is not None})
        for p in allp:
            if p not in actual:
                if p not in defaults:
                    return None
                actual[p] = defaults[p]
        try:
            cn = normalise(callee, calls=calls)
        except Undecided:
            return None
        wrapper = ast.Module(body=cn.body, type_ignores=[])
        stores = {n.id for n in ast.walk(wrapper) if isinstance(n, ast.Name) and isinstance(n.ctx, (ast.Store, ast.Del))}
        if any(isinstance(n, (ast.Global, ast.Nonlocal, ast.FunctionDef, ast.Lambda, ast.Yield, ast.YieldFrom)) for n in ast.walk(wrapper)) or stores & set(allp):
            return None
        serial[0] += 1
        sfx = f'__{callee.name.strip("_")}{serial[0] if serial[0] > 1 else ""}'
        mapping: T.Dict[str, ast.AST] = dict(actual)
        mapping.update({n: ast.Name(id=n + sfx, ctx=ast.Load()) for n in stores})
        new = []
        for st in cn.body:
            s2 = _Subst(mapping).visit(copy.deepcopy(st))
            for n in ast.walk(s2):
                if isinstance(n, ast.Name) and isinstance(n.ctx, (ast.Store, ast.Del)) and n.id in stores:
                    n.id = n.id + sfx
            new.append(s2)
        return [x for x in new if not (isinstance(x, ast.Expr) and isinstance(x.value, ast.Constant))]

    def expand(st: ast.stmt, level: int) -> T.Optional[T.List[ast.stmt]]:
        if level > depth:
            return None
        holder: T.List[ast.AST] = []
        if isinstance(st, ast.If):
            holder = [st.test]
        elif isinstance(st, ast.Expr):
            holder = [st.value]
        elif isinstance(st, (ast.Assign, ast.AnnAssign, ast.AugAssign, ast.Return)) and getattr(st, 'value', None) is not None:
            holder = [st.value]       # type: ignore[list-item]
        cands = [c for h in holder for c in walk_no_nested(h) if isinstance(c, ast.Call) and callee_of(c) is not None]
        if not cands:
            return None
        # several helper calls in one statement: the first one (source order) now, the others when the result is processed again
        c = min(cands, key=lambda x: (getattr(x, 'lineno', 0), getattr(x, 'col_offset', 0)))
        body = instantiate(c)
        if body is None:
            return None
        if isinstance(st, ast.Expr) and st.value is c:
            leaf = lambda e: []                                   # noqa: E731  (called for effect: the value is dropped)
        else:
            leaf = lambda e: [ast.copy_location(_replace_in_copy(st, c, e if e is not None else ast.Constant(value=None)), st)]   # noqa: E731
        return None if body is None else _tail_map(body, leaf)

    def terminal(stmts: T.List[ast.stmt]) -> bool:
        """Every path through the statement list ends in return/raise."""
        if not stmts:
            return False
        last = stmts[-1]
        if isinstance(last, (ast.Return, ast.Raise)):
            return True
        if isinstance(last, ast.If):
            return terminal(last.body) and terminal(last.orelse)
        return False

    def expand_through(st: ast.stmt, rest: T.List[ast.stmt], level: int) -> T.Optional[T.List[ast.stmt]]:
        """The helper returns from inside a loop (a search loop split off, E1/D2): when everything after the call in
        the caller ends in return/raise on every path, each `return E` of the helper - wherever it stands - becomes
        "the calling statement with E, then the rest of the caller"; the rest of the caller moves with it."""
        if level > depth or not terminal(rest) or not isinstance(st, (ast.Assign, ast.AnnAssign, ast.Return, ast.Expr)):
            return None
        val = getattr(st, 'value', None)
        if val is None:
            return None
        cands = [c for c in walk_no_nested(val) if isinstance(c, ast.Call) and callee_of(c) is not None]
        if len(cands) != 1:
            return None
        c = cands[0]
        body = instantiate(c)
        if body is None:
            return None

        def cont(e: T.Optional[ast.AST]) -> T.List[ast.stmt]:
            return [ast.copy_location(_replace_in_copy(st, c, e if e is not None else ast.Constant(value=None)), st)] + copy.deepcopy(rest)

        class Rw(ast.NodeTransformer):
            def visit_Return(self, n: ast.Return) -> T.Any:
                return cont(n.value)

            def visit_FunctionDef(self, n: ast.FunctionDef) -> ast.AST:
                return n

            def visit_Lambda(self, n: ast.Lambda) -> ast.AST:
                return n
        new = [Rw().visit(x) for x in body]
        flat: T.List[ast.stmt] = []
        for x in new:
            flat.extend(x if isinstance(x, list) else [x])
        return flat + cont(None)            # falling off the end of the helper returns None

    def conv(stmts: T.List[ast.stmt], level: int) -> T.List[ast.stmt]:
        out: T.List[ast.stmt] = []
        for i, s in enumerate(stmts):
            ex = expand(s, level) if not isinstance(s, (ast.For, ast.While, ast.With, ast.Try, ast.FunctionDef, ast.ClassDef)) else None
            if ex is None and not isinstance(s, (ast.If, ast.For, ast.While, ast.With, ast.Try, ast.FunctionDef, ast.ClassDef)):
                et = expand_through(s, list(stmts[i + 1:]), level)
                if et is not None:
                    return out + conv(et, level + 1)
            if ex is not None:
                out.extend(conv([ast.copy_location(x, s) if not hasattr(x, 'lineno') else x for x in ex], level + 1) or [ast.copy_location(ast.Pass(), s)])
                continue
            s2 = copy.copy(s)
            for f in _BLOCK_FIELDS:
                sub = getattr(s, f, None)
                if isinstance(sub, list) and sub and isinstance(sub[0], ast.stmt):
                    setattr(s2, f, conv(sub, level))
            if getattr(s, 'handlers', None):
                s2.handlers = [ast.copy_location(ast.ExceptHandler(type=h.type, name=h.name, body=conv(h.body, level)), h) for h in s.handlers]   # type: ignore[attr-defined]
            out.append(s2)
        return out

    new = copy.copy(fn)
    new.body = conv(list(fn.body), 0)
    return new


def normal_form(fn: FuncNode, module: ast.Module, *, cls: T.Optional[str] = None, calls: T.Iterable[str] = (), skip: T.Iterable[str] = (),
                public: T.Iterable[str] = ()) -> FuncNode:
    """THE normal form the C19/C20 rules are written against: private helpers of the same class / module inlined
    (calls bound by signature), loops over constant tables unrolled, constant `len()` folded, tail duplication,
    locals replaced by their reaching definition."""
    skip = set(skip)
    helpers: T.Dict[str, FuncNode] = {}
    functions: T.Dict[str, FuncNode] = {}
    counts: T.Dict[str, int] = {}
    for st in module.body:
        if isinstance(st, (ast.FunctionDef, ast.AsyncFunctionDef)):
            counts[st.name] = counts.get(st.name, 0) + 1
            if st.name.startswith('_') and st.name not in skip:
                functions[st.name] = st
        elif isinstance(st, ast.ClassDef) and cls is not None and st.name == cls.split('.')[-1]:
            for m in st.body:
                if isinstance(m, (ast.FunctionDef, ast.AsyncFunctionDef)) and m.name.startswith('_') and not (m.name.startswith('__') and m.name.endswith('__')) \
                        and m.name not in skip:
                    helpers[m.name] = m
                elif isinstance(m, (ast.FunctionDef, ast.AsyncFunctionDef)) and m.name in public and m.name not in skip and m is not fn:
                    helpers[m.name] = m          # a public method of the same class the caller names as inlinable (closed world: no override)
    functions = {k: v for k, v in functions.items() if counts.get(k) == 1}
    partials: T.Dict[str, T.Tuple[FuncNode, T.List[ast.expr], T.List[ast.keyword]]] = {}
    from .c19_fold import is_constant_name
    for st in module.body:
        tgt = st.targets[0] if isinstance(st, ast.Assign) and len(st.targets) == 1 else st.target if isinstance(st, ast.AnnAssign) else None
        v = getattr(st, 'value', None)
        if isinstance(tgt, ast.Name) and isinstance(v, ast.Call) and (attr_chain(v.func) or '').split('.')[-1] == 'partial' and v.args \
                and isinstance(v.args[0], ast.Name) and v.args[0].id in functions and not any(isinstance(x, ast.Starred) for x in v.args) \
                and all(k.arg is not None for k in v.keywords) and tgt.id not in skip and is_constant_name(module, tgt.id) is not None:
            partials[tgt.id] = (functions[v.args[0].id], list(v.args[1:]), list(v.keywords))
    cur = normalise(inline_helpers(fn, helpers, calls=calls, functions=functions, partials=partials), calls=calls, module=module)
    for _ in range(3):
        # a helper selected through a local or a constant table becomes a plain call only after normalisation (A3/A4)
        nxt = inline_helpers(cur, helpers, calls=calls, functions=functions, partials=partials)
        if ast.dump(nxt) == ast.dump(cur):
            break
        cur = normalise(nxt, calls=calls, module=module)
    return cur
