"""Source-to-source normalisation applied before decision-table extraction (C19/C20 packs).

Nothing is evaluated.  Two classic, purely syntactic program transformations make the tables
independent of how a function is *laid out*:

* **tail duplication**: `if c: A else: B; rest`  ->  `if c: A; rest  else: B; rest`
  (statements after a return/raise/break/continue are dropped), so every use of a local has exactly one
  reaching definition at its syntactic position;
* **forward substitution** (copy propagation) of locals: `x = <pure expr>` is removed and every later read
  of `x` is replaced by the expression, written over the *entry* values of the parameters.  A definition is
  forgotten as soon as something it reads may have changed (store to an attribute chain it reads, opaque
  rebinding of a name it reads, a call that is not known to be pure and mentions an object it reads); reading
  a local whose dropped definition was forgotten is `Undecided`, never a guess.

After the pass `flag = A or B; if not flag: ...`, `if c: r = X else: r = Y; return r`, hoisted attribute
reads (`a = self._v`) and renamed locals all give the same rows as the unrefactored code.

Loops, `with` and `try` blocks are normalised block by block (no duplication across their borders); names
bound inside them are unknown afterwards.
"""
from __future__ import annotations

import ast
import copy
import typing as T

from ..core import Undecided, attr_chain, chains_in, names_in, short
from ..tables import INLINE_CALLS

FuncNode = T.Union[ast.FunctionDef, ast.AsyncFunctionDef]

_PURE_NODES = (ast.Name, ast.Attribute, ast.Constant, ast.Subscript, ast.Slice, ast.Compare, ast.BoolOp, ast.UnaryOp, ast.BinOp,
               ast.IfExp, ast.Tuple, ast.Call, ast.keyword, ast.JoinedStr, ast.FormattedValue,
               ast.expr_context, ast.operator, ast.unaryop, ast.cmpop, ast.boolop)
# builtins that do not change the objects they are given (their results need not be pure values)
NOMUT_CALLS = {'zip', 'enumerate', 'sorted', 'reversed', 'list', 'tuple', 'set', 'frozenset', 'dict', 'min', 'max', 'sum', 'any', 'all',
               'iter', 'range', 'repr', 'hash', 'id', 'abs', 'map', 'filter', 'getattr', 'hasattr', 'issubclass', 'copy', 'deepcopy',
               'join', 'split', 'format', 'items', 'keys', 'values', 'find', 'index', 'count', 'isdigit', 'lstrip', 'rstrip', 'replace'}
_TERMINAL = (ast.Return, ast.Raise, ast.Break, ast.Continue)
_BLOCK_FIELDS = ('body', 'orelse', 'finalbody')


def _callee(c: ast.Call) -> str:
    f = c.func
    if isinstance(f, ast.Attribute):
        return f.attr
    if isinstance(f, ast.Name):
        return f.id
    return ''


def _related(a: str, b: str) -> bool:
    """Two attribute chains may denote overlapping storage (one is a prefix of the other)."""
    return a == b or a.startswith(b + '.') or b.startswith(a + '.')


def _mutated_params(fn: FuncNode, nomut: T.Set[str]) -> T.Optional[T.Set[str]]:
    """Parameters of `fn` whose object the body may modify: a store/del through the parameter, an augmented
    assignment, a call (not known to be harmless) that mentions it, or an alias of it.  None: cannot tell."""
    params = {a.arg for a in fn.args.posonlyargs + fn.args.args + fn.args.kwonlyargs}
    out: T.Set[str] = set()
    for n in ast.walk(fn):
        if isinstance(n, (ast.Attribute, ast.Subscript)) and isinstance(n.ctx, (ast.Store, ast.Del)):
            out |= names_in(n) & params
        elif isinstance(n, ast.Call) and _callee(n) not in nomut:
            out |= names_in(n) & params
        elif isinstance(n, (ast.Assign, ast.AnnAssign, ast.NamedExpr, ast.Return, ast.Yield)) and getattr(n, 'value', None) is not None:
            v = n.value
            if isinstance(n, (ast.Return, ast.Yield)):
                continue
            tg = n.targets if isinstance(n, ast.Assign) else [n.target]
            if not any(isinstance(x, ast.Name) for t in tg for x in ast.walk(t) if isinstance(getattr(x, 'ctx', None), ast.Store)):
                continue     # stored into an attribute/item: the callee itself does not write through it
            for x in ast.walk(v):        # `a = self` / `a = [p]`: an alias may be written through later
                if isinstance(x, ast.Name) and x.id in params and not _only_read(v, x):
                    out.add(x.id)
        elif isinstance(n, (ast.Global, ast.Nonlocal)):
            return None
    return out


def _only_read(v: ast.AST, name: ast.Name) -> bool:
    """`name` occurs in `v` only below an attribute read / comparison / pure arithmetic (its object is not aliased)."""
    if v is name:
        return False
    for n in ast.walk(v):
        if isinstance(n, (ast.List, ast.Tuple, ast.Set, ast.Dict, ast.IfExp, ast.BoolOp, ast.Starred)):
            if any(ch is name for ch in ast.iter_child_nodes(n)):
                return False
        if isinstance(n, ast.Call) and any(a is name for a in list(n.args) + [k.value for k in n.keywords]):
            return False
    return True


class _State:
    def __init__(self, env: T.Optional[T.Dict[str, ast.expr]] = None, stale: T.Optional[T.Dict[str, str]] = None):
        self.env: T.Dict[str, ast.expr] = dict(env or {})
        self.stale: T.Dict[str, str] = dict(stale or {})

    def copy(self) -> '_State':
        return _State(self.env, self.stale)

    def forget(self, name: str, why: str) -> None:
        if name in self.env:
            del self.env[name]
            self.stale[name] = why

    def kill_chain(self, chain: str, why: str) -> None:
        """Something stored to / may have mutated `chain`: forget every definition that reads it."""
        for k, v in list(self.env.items()):
            if any(_related(c, chain) for c in chains_in(v)):
                self.forget(k, why)

    def kill_root(self, root: str, why: str) -> None:
        for k, v in list(self.env.items()):
            if root in names_in(v):
                self.forget(k, why)

    def rebind_opaque(self, name: str, why: str) -> None:
        """`name` now holds a value the pass cannot name: forget it and everything that read it."""
        self.env.pop(name, None)
        self.stale.pop(name, None)
        self.kill_root(name, why)


class _StaleRead(Undecided):
    def __init__(self, name: str, why: str):
        super().__init__(f'local `{name}` is read after its definition was invalidated ({why})')
        self.name = name


class _Sub(ast.NodeTransformer):
    def __init__(self, st: _State, shadow: T.Set[str]):
        self.st = st
        self.shadow = shadow

    def visit_Lambda(self, n: ast.Lambda) -> ast.AST:
        # a closure reads its free variables when it is *called*: never substitute into it
        for x in ast.walk(n.body):
            if isinstance(x, ast.Name) and x.id not in self.shadow and (x.id in self.st.env or x.id in self.st.stale):
                raise _StaleRead(x.id, 'captured by a lambda')
        return n

    def visit_Name(self, n: ast.Name) -> ast.AST:
        if not isinstance(n.ctx, ast.Load) or n.id in self.shadow:
            return n
        if n.id in self.st.env:
            return copy.deepcopy(self.st.env[n.id])
        if n.id in self.st.stale:
            raise _StaleRead(n.id, self.st.stale[n.id])
        return n


class Normaliser:
    def __init__(self, calls: T.Iterable[str] = (), budget: int = 6000, module: T.Optional[ast.Module] = None):
        self.callees: T.Dict[str, T.List[FuncNode]] = {}
        self._summary: T.Dict[int, T.Optional[T.Set[str]]] = {}
        if module is not None:
            for n in ast.walk(module):
                if isinstance(n, (ast.FunctionDef, ast.AsyncFunctionDef)):
                    self.callees.setdefault(n.name, []).append(n)
        self.pure = set(INLINE_CALLS) | set(calls)
        self.nomut = self.pure | NOMUT_CALLS
        self.budget = budget
        self.dropped: T.Set[str] = set()
        self.nodrop: T.Set[str] = set()      # locals that stay ordinary named locals (their assignments are kept)

    # -- expressions ---------------------------------------------------------
    def expr(self, e: T.Optional[ast.AST], st: _State) -> T.Any:
        if e is None:
            return None
        shadow: T.Set[str] = set()
        for n in ast.walk(e):
            if isinstance(n, ast.NamedExpr):
                raise Undecided(f'assignment expression in {short(e)}')
            if isinstance(n, ast.comprehension):
                shadow |= {x.id for x in ast.walk(n.target) if isinstance(x, ast.Name)}
            elif isinstance(n, ast.Lambda):
                shadow |= {a.arg for a in n.args.posonlyargs + n.args.args + n.args.kwonlyargs}
                shadow |= {a.arg for a in (n.args.vararg, n.args.kwarg) if a is not None}
        return _Sub(st, shadow).visit(copy.deepcopy(e))

    def substitutable(self, v: ast.AST) -> bool:
        for n in ast.walk(v):
            if not isinstance(n, _PURE_NODES):
                return False
            if isinstance(n, ast.Call) and _callee(n) not in self.pure:
                return False
        return True

    def may_change(self, c: ast.Call) -> T.Set[str]:
        """Root names of the objects a call may modify.  With a module at hand, a call of the only function/method
        of that name in the module is answered from a summary of the callee (which parameters it stores into or
        hands to calls that are not known to be harmless); otherwise: every object the call mentions."""
        everything = names_in(c)
        d = self.callees.get(_callee(c), [None, None])
        if len(d) != 1 or d[0] is None or any(isinstance(a, ast.Starred) for a in c.args) or any(k.arg is None for k in c.keywords):
            return everything
        fn = d[0]
        if isinstance(c.func, ast.Attribute) and not fn.name.startswith('_') and attr_chain(c.func.value) not in ('self', 'cls'):
            return everything      # a public method name on some other object: it need not be this module's function
        if id(fn) not in self._summary:
            self._summary[id(fn)] = _mutated_params(fn, self.nomut)
        mutated = self._summary[id(fn)]
        if mutated is None or fn.args.vararg or fn.args.kwarg:
            return everything
        params = [a.arg for a in fn.args.posonlyargs + fn.args.args]
        actual: T.Dict[str, ast.AST] = {}
        pos = list(c.args)
        if isinstance(c.func, ast.Attribute) and params and params[0] in ('self', 'cls'):
            pos = [c.func.value] + pos
        elif not isinstance(c.func, ast.Name):
            return everything
        if len(pos) > len(params):
            return everything
        for p_, a in zip(params, pos):
            actual[p_] = a
        for k in c.keywords:
            actual[k.arg] = k.value                                      # type: ignore[index]
        out: T.Set[str] = set()
        for p_ in mutated:
            if p_ in actual:
                out |= names_in(actual[p_])
        return out

    def call_kills(self, node: T.Optional[ast.AST], st: _State) -> None:
        """Calls that are not known to be pure may mutate the objects they are given."""
        if node is None:
            return
        for c in ast.walk(node):
            if isinstance(c, ast.Call) and _callee(c) not in self.nomut:
                for r in self.may_change(c):
                    st.kill_root(r, f'call {short(c, 60)} may change `{r}`')

    # -- statements ----------------------------------------------------------
    def block(self, stmts: T.List[ast.stmt], st: _State) -> T.List[ast.stmt]:
        out: T.List[ast.stmt] = []
        for i, s in enumerate(stmts):
            self.budget -= 1
            if self.budget < 0:
                raise Undecided('function too large to normalise by tail duplication')
            if isinstance(s, ast.If):
                rest = stmts[i + 1:]
                test = self.expr(s.test, st)
                self.call_kills(test, st)
                body = self.block(list(s.body) + rest, st.copy())
                orelse = self.block(list(s.orelse) + rest, st.copy())
                new = ast.If(test=test, body=body or [ast.copy_location(ast.Pass(), s)], orelse=orelse)
                out.append(ast.copy_location(new, s))
                return out
            out.extend(self.simple(s, st))
            if isinstance(s, _TERMINAL):
                return out
        return out

    def _store_targets(self, targets: T.List[ast.expr], st: _State, why: str) -> T.List[ast.expr]:
        new: T.List[ast.expr] = []
        for t in targets:
            for n in ast.walk(t):
                if isinstance(n, ast.Name) and isinstance(n.ctx, ast.Store):
                    st.rebind_opaque(n.id, why)
                elif isinstance(n, (ast.Attribute, ast.Subscript)) and isinstance(n.ctx, (ast.Store, ast.Del)):
                    base = n if isinstance(n, ast.Attribute) else n.value
                    c = attr_chain(base)
                    if c is not None:
                        root = c.split('.')[0]
                        if root in st.env or root in st.stale:
                            raise _StaleRead(root, f'stored through in `{short(t, 40)}`')
                        st.kill_chain(c, f'`{short(t, 40)}` is assigned')
                    else:
                        for r in names_in(base):
                            st.kill_root(r, f'`{short(t, 40)}` is assigned')
            new.append(self.expr(t, st))      # only names in Load context (bases, indices) are substituted
        return new

    def simple(self, s: ast.stmt, st: _State) -> T.List[ast.stmt]:
        if isinstance(s, (ast.Assign, ast.AnnAssign)):
            if isinstance(s, ast.AnnAssign):
                if s.value is None:
                    return []           # a bare declaration `x: T`
                targets = [s.target]
            else:
                targets = s.targets
            if len(targets) == 1 and isinstance(targets[0], ast.Tuple) and isinstance(s.value, ast.Tuple) \
                    and len(targets[0].elts) == len(s.value.elts) and all(isinstance(t, ast.Name) for t in targets[0].elts) \
                    and not any(isinstance(x, ast.Starred) for x in s.value.elts):
                # `a, b = x, y`: all values are read before any name is bound
                vals = [self.expr(x, st) for x in s.value.elts]
                for x in vals:
                    self.call_kills(x, st)
                out: T.List[ast.stmt] = []
                binds: T.List[T.Tuple[str, ast.expr]] = []
                for t, x in zip(targets[0].elts, vals):
                    name = t.id                                          # type: ignore[attr-defined]
                    if self.substitutable(x) and name not in self.nodrop:
                        binds.append((name, x))
                    else:
                        st.rebind_opaque(name, f'`{name}` is rebound to {short(x, 40)}')
                        out.append(ast.copy_location(ast.Assign(targets=[ast.Name(id=name, ctx=ast.Store())], value=x), s))
                if out and binds:
                    # some of the names stay ordinary locals: keep the whole parallel assignment as one statement
                    for t in targets[0].elts:
                        st.rebind_opaque(t.id, f'rebound by `{short(s, 50)}`')      # type: ignore[attr-defined]
                    return [ast.copy_location(ast.Assign(targets=[copy.deepcopy(targets[0])], value=ast.Tuple(elts=vals, ctx=ast.Load())), s)]
                for name, x in binds:
                    st.stale.pop(name, None)
                    st.env[name] = x
                    self.dropped.add(name)
                return out
            v = self.expr(s.value, st)
            self.call_kills(v, st)
            if len(targets) == 1 and isinstance(targets[0], ast.Name):
                name = targets[0].id
                if self.substitutable(v) and name not in self.nodrop:
                    st.stale.pop(name, None)
                    st.env[name] = v
                    self.dropped.add(name)
                    return []
                st.rebind_opaque(name, f'`{name}` is rebound to {short(v, 40)}')
                return [ast.copy_location(ast.Assign(targets=[copy.deepcopy(targets[0])], value=v), s)]
            new_t = self._store_targets(list(targets), st, f'rebound by `{short(s, 50)}`')
            return [ast.copy_location(ast.Assign(targets=new_t, value=v), s)]
        if isinstance(s, ast.AugAssign):
            v = self.expr(s.value, st)
            self.call_kills(v, st)
            if isinstance(s.target, ast.Name):
                if s.target.id in st.env or s.target.id in st.stale:
                    raise _StaleRead(s.target.id, f'updated in place by `{short(s, 40)}`')
                st.rebind_opaque(s.target.id, f'`{short(s, 40)}`')
                tgt: ast.expr = copy.deepcopy(s.target)
            else:
                tgt = self._store_targets([s.target], st, f'`{short(s, 40)}`')[0]
            return [ast.copy_location(ast.AugAssign(target=tgt, op=s.op, value=v), s)]
        if isinstance(s, ast.Expr):
            v = self.expr(s.value, st)
            self.call_kills(v, st)
            return [ast.copy_location(ast.Expr(value=v), s)]
        if isinstance(s, ast.Return):
            return [ast.copy_location(ast.Return(value=self.expr(s.value, st)), s)]
        if isinstance(s, ast.Raise):
            return [ast.copy_location(ast.Raise(exc=self.expr(s.exc, st), cause=self.expr(s.cause, st)), s)]
        if isinstance(s, ast.Assert):
            t = self.expr(s.test, st)
            self.call_kills(t, st)
            return [ast.copy_location(ast.Assert(test=t, msg=s.msg), s)]
        if isinstance(s, ast.Delete):
            self._store_targets(list(s.targets), st, f'`{short(s, 40)}`')
            return [s]
        if isinstance(s, (ast.Pass, ast.Break, ast.Continue, ast.Import, ast.ImportFrom, ast.Global, ast.Nonlocal)):
            return [s]
        if isinstance(s, (ast.FunctionDef, ast.AsyncFunctionDef, ast.ClassDef)):
            for x in ast.walk(s):
                if isinstance(x, ast.Name) and (x.id in st.env or x.id in st.stale or x.id in self.dropped):
                    raise _StaleRead(x.id, f'captured by the nested definition {s.name}')
            st.rebind_opaque(s.name, f'definition of {s.name}')
            return [s]
        if isinstance(s, (ast.For, ast.AsyncFor, ast.While, ast.With, ast.AsyncWith, ast.Try)) or s.__class__.__name__ == 'TryStar':
            return [self.compound(s, st)]
        raise Undecided(f'statement kind {s.__class__.__name__} is not understood by the normaliser')

    def compound(self, s: ast.stmt, st: _State) -> ast.stmt:
        new = copy.copy(s)
        is_loop = isinstance(s, (ast.For, ast.AsyncFor, ast.While))
        if isinstance(s, (ast.For, ast.AsyncFor)):
            new.iter = self.expr(s.iter, st)                       # evaluated once, before the first iteration
            self.call_kills(new.iter, st)
        if isinstance(s, (ast.With, ast.AsyncWith)):
            items = []
            for it in s.items:
                ce = self.expr(it.context_expr, st)
                self.call_kills(ce, st)
                items.append(ast.withitem(context_expr=ce, optional_vars=it.optional_vars))
            new.items = items
        # names bound and objects possibly changed anywhere inside: unknown from here on
        bound: T.Set[str] = set()
        for n in ast.walk(s):
            if isinstance(n, ast.Name) and isinstance(n.ctx, (ast.Store, ast.Del)):
                bound.add(n.id)
            elif isinstance(n, ast.ExceptHandler) and n.name:
                bound.add(n.name)
        was_known = {n for n in bound if n in st.env or n in st.stale}
        inner_stmts = [x for x in ast.walk(s) if isinstance(x, ast.stmt) and x is not s]
        for x in inner_stmts:
            if isinstance(x, (ast.Assign, ast.AugAssign, ast.AnnAssign, ast.Delete)):
                tg = x.targets if isinstance(x, (ast.Assign, ast.Delete)) else [x.target]
                for t in tg:
                    for n in ast.walk(t):
                        if isinstance(n, (ast.Attribute, ast.Subscript)) and isinstance(n.ctx, (ast.Store, ast.Del)):
                            c = attr_chain(n if isinstance(n, ast.Attribute) else n.value)
                            if c is not None:
                                st.kill_chain(c, f'`{short(t, 40)}` is assigned in a nested block')
                            else:
                                for r in names_in(n):
                                    st.kill_root(r, f'`{short(t, 40)}` is assigned in a nested block')
        for n in bound:
            st.rebind_opaque(n, f'`{n}` is bound inside a nested block')
            if n in was_known:
                st.stale[n] = f'`{n}` may be rebound inside a nested block'
        probe = st.copy()
        for c in ast.walk(s):
            if isinstance(c, ast.Call) and _callee(c) not in self.nomut:
                # conservatively: the raw names of the call (before substitution) and whatever their definitions read
                for r in self.may_change(c):
                    for rr in ({r} | (names_in(probe.env[r]) if r in probe.env else set())):
                        st.kill_root(rr, f'call {short(c, 60)} in a nested block may change `{rr}`')
        if isinstance(s, ast.While):
            new.test = self.expr(s.test, st)

        def run(entry: _State) -> T.Tuple[T.Dict[str, T.List[ast.stmt]], T.List[T.List[ast.stmt]], T.Set[str]]:
            before = set(self.dropped)
            self.dropped = set()
            blocks: T.Dict[str, T.List[ast.stmt]] = {}
            for f in _BLOCK_FIELDS:
                sub = getattr(s, f, None)
                if isinstance(sub, list) and sub and isinstance(sub[0], ast.stmt):
                    e = entry.copy()
                    if f == 'body' and isinstance(s, (ast.For, ast.AsyncFor)):
                        # the loop header binds its targets afresh at the start of every iteration: inside the body the
                        # bare name denotes that value (like a parameter), later rebindings are substituted over it
                        for x in ast.walk(s.target):
                            if isinstance(x, ast.Name):
                                e.stale.pop(x.id, None)
                    blocks[f] = self.block(sub, e) or [ast.copy_location(ast.Pass(), s)]
            hs = [self.block(h.body, entry.copy()) or [ast.copy_location(ast.Pass(), s)] for h in getattr(s, 'handlers', [])]
            inside = self.dropped
            self.dropped = before | inside
            return blocks, hs, inside

        blocks, hs, inside = run(st)
        if inside and (is_loop or getattr(s, 'handlers', None) or getattr(s, 'finalbody', None)):
            # a local whose definition was dropped inside may be read before it is redefined (next iteration,
            # handler after a partial body): such a read must not be resolved (normalise() then retries with
            # that local kept as an ordinary named local)
            for n in inside:
                st.stale[n] = f'`{n}` is defined inside a loop/try block'
            blocks, hs, inside = run(st)
        for f, b in blocks.items():
            setattr(new, f, b)
        if hs:
            new.handlers = [ast.copy_location(ast.ExceptHandler(type=h.type, name=h.name, body=b), h) for h, b in zip(s.handlers, hs)]  # type: ignore[attr-defined]
        for n in inside:
            st.env.pop(n, None)
            st.stale[n] = f'`{n}` is defined inside a nested block'
        return new


def normalise(fn: FuncNode, *, body: T.Optional[T.List[ast.stmt]] = None, calls: T.Iterable[str] = (),
              env: T.Optional[T.Dict[str, ast.expr]] = None, module: T.Optional[ast.Module] = None) -> FuncNode:
    """A copy of `fn` whose body (or `body`, e.g. one loop body of it) is tail-duplicated and has its locals
    forward-substituted.  `calls`: additional callee names whose calls may be treated as pure values
    (e.g. {'intersect'} for the copy-returning Range.intersect).  `module`: the module tree, to answer "what may this
    call modify" from the callee's own stores instead of assuming the worst."""
    if any(isinstance(n, (ast.Yield, ast.YieldFrom, ast.Await)) for n in ast.walk(fn)):
        raise Undecided(f'{fn.name}: generator/coroutine bodies are not normalised')
    nodrop: T.Set[str] = set()
    for n in ast.walk(fn):
        if isinstance(n, (ast.Global, ast.Nonlocal)):
            nodrop |= set(n.names)
    while True:
        nz = Normaliser(calls, module=module)
        nz.nodrop = set(nodrop)
        try:
            new_body = nz.block(list(body if body is not None else fn.body), _State(env))
            break
        except _StaleRead as e:
            # e.g. a loop-carried local (`acc = acc.f(x)`), a flag set inside a loop: keep its assignments as statements
            if e.name in nodrop or len(nodrop) > 30:
                raise
            nodrop.add(e.name)
    new = copy.copy(fn)
    new.body = new_body or [ast.copy_location(ast.Pass(), fn)]
    return new


# ---------------------------------------------------------------------------------------------------------
# inlining of private helper methods called for effect (`obj._helper(a, b)` as a statement)
# ---------------------------------------------------------------------------------------------------------

def _strip_tail_returns(stmts: T.List[ast.stmt]) -> T.Optional[T.List[ast.stmt]]:
    """Remove `return` / `return None` in tail position of a tail-duplicated body; None if a value is returned."""
    if not stmts:
        return stmts
    out = list(stmts)
    last = out[-1]
    if isinstance(last, ast.Return):
        if last.value is not None and not (isinstance(last.value, ast.Constant) and last.value.value is None):
            return None
        out = out[:-1]
    elif isinstance(last, ast.If):
        b, o = _strip_tail_returns(last.body), _strip_tail_returns(last.orelse)
        if b is None or o is None:
            return None
        out[-1] = ast.copy_location(ast.If(test=last.test, body=b or [ast.copy_location(ast.Pass(), last)], orelse=o), last)
    return out


def inline_helpers(fn: FuncNode, helpers: T.Dict[str, FuncNode], *, calls: T.Iterable[str] = ()) -> FuncNode:
    """A copy of `fn` in which every *statement* `recv._m(args)` that calls one of `helpers` (private methods of the
    same class, called for their effect) is replaced by the helper's body: `self` -> recv, parameters -> arguments
    (bound by position or keyword), the helper's own locals renamed.  A helper that cannot be inlined faithfully
    (returns a value, returns from inside a loop, rebinds a parameter, *args) is left as a call."""
    from ..tables import _Subst

    def expand(st: ast.Expr) -> T.Optional[T.List[ast.stmt]]:
        c = st.value
        assert isinstance(c, ast.Call) and isinstance(c.func, ast.Attribute)
        callee = helpers[c.func.attr]
        a = callee.args
        if a.vararg or a.kwarg or a.kwonlyargs or any(isinstance(x, ast.Starred) for x in c.args) or any(k.arg is None for k in c.keywords):
            return None
        params = [p.arg for p in a.posonlyargs + a.args]
        if not params or params[0] != 'self' or attr_chain(c.func.value) is None:
            return None
        actual: T.Dict[str, ast.AST] = {'self': c.func.value}
        if len(c.args) > len(params) - 1:
            return None
        for p, x in zip(params[1:], c.args):
            actual[p] = x
        for k in c.keywords:
            if k.arg not in params or k.arg in actual:
                return None
            actual[k.arg] = k.value                     # type: ignore[index]
        defaults = dict(zip(params[len(params) - len(a.defaults):], a.defaults))
        for p in params:
            if p not in actual:
                if p not in defaults:
                    return None
                actual[p] = defaults[p]
        try:
            cn = normalise(callee, calls=calls)
        except Undecided:
            return None
        body = _strip_tail_returns(cn.body)
        if body is None:
            return None
        wrapper = ast.Module(body=body, type_ignores=[])
        stores = {n.id for n in ast.walk(wrapper) if isinstance(n, ast.Name) and isinstance(n.ctx, (ast.Store, ast.Del))}
        if any(isinstance(n, (ast.Return, ast.Global, ast.Nonlocal, ast.FunctionDef, ast.Lambda)) for n in ast.walk(wrapper)) or stores & set(params):
            return None
        mapping: T.Dict[str, ast.AST] = dict(actual)
        mapping.update({n: ast.Name(id=f'{n}__{callee.name.strip("_")}', ctx=ast.Load()) for n in stores})
        new = []
        for s in body:
            s2 = _Subst(mapping).visit(copy.deepcopy(s))
            for n in ast.walk(s2):
                if isinstance(n, ast.Name) and isinstance(n.ctx, (ast.Store, ast.Del)) and n.id in stores:
                    n.id = f'{n.id}__{callee.name.strip("_")}'
            new.append(ast.copy_location(s2, st))
        return [s for s in new if not (isinstance(s, ast.Expr) and isinstance(s.value, ast.Constant))] or [ast.copy_location(ast.Pass(), st)]

    def conv(stmts: T.List[ast.stmt]) -> T.List[ast.stmt]:
        out: T.List[ast.stmt] = []
        for s in stmts:
            if isinstance(s, ast.Expr) and isinstance(s.value, ast.Call) and isinstance(s.value.func, ast.Attribute) \
                    and s.value.func.attr in helpers and helpers[s.value.func.attr] is not fn:
                ex = expand(s)
                if ex is not None:
                    out.extend(ex)
                    continue
            s2 = copy.copy(s)
            for f in _BLOCK_FIELDS:
                sub = getattr(s, f, None)
                if isinstance(sub, list) and sub and isinstance(sub[0], ast.stmt):
                    setattr(s2, f, conv(sub))
            if getattr(s, 'handlers', None):
                s2.handlers = [ast.copy_location(ast.ExceptHandler(type=h.type, name=h.name, body=conv(h.body)), h) for h in s.handlers]   # type: ignore[attr-defined]
            out.append(s2)
        return out

    new = copy.copy(fn)
    new.body = conv(list(fn.body))
    return new
