"""C13 helper: one source-to-source normal form per method, applied before the table/path rules read it.

  * calls of private helpers of the same class are folded in (arguments bound to parameters by position or keyword):
      - helper = single `return <expr>`                       -> substituted as an expression,
      - statement `self.h(...)`, helper returns no value       -> its statements, locals renamed apart,
      - `t = self.h(...)` / `a, b = self.h(...)`, helper ends in its only `return <expr>` -> its statements + `t = <expr>`,
    a classmethod/staticmethod helper called through self/cls is treated alike (`cls` reads become `self` reads);
  * a pure local with a single definition whose uses all follow it in the same block is substituted at its uses
    (a condition named before the `if`, a hoisted attribute read, a selected bound method);
  * `x = x if c else y`-style and walrus forms are left to sa.paths, which already decomposes them.

Nothing is evaluated: the result is an AST the rules read instead of the original one (line numbers are kept).
"""
from __future__ import annotations

import ast
import copy
import itertools
import typing as T

from ..core import Module, Undecided, attr_chain, chains_in, walk_no_nested

KEEP_CALLS = {'_can_dedup', '_should_prepend', 'flush_pre_post'}     # vocabulary of the reference tables, never inlined
PURE_METHODS = {'startswith', 'endswith', '_can_dedup', '_should_prepend', 'search', 'match', 'fullmatch', 'isabs'}
PURE_FUNCS = {'len', 'isinstance', 'bool', 'reversed', 'os.path.isabs', 're.search', 're.match', 're.fullmatch'}

_uid = itertools.count(1)


def _body_of(h: T.Any) -> T.List[ast.stmt]:
    b = list(h.body)
    if b and isinstance(b[0], ast.Expr) and isinstance(b[0].value, ast.Constant) and isinstance(b[0].value.value, str):
        b = b[1:]
    return b


def _decorators(h: T.Any) -> T.Set[str]:
    return {attr_chain(d.func if isinstance(d, ast.Call) else d) or '?' for d in h.decorator_list}


class _Helper(T.NamedTuple):
    fn: T.Any
    mapping: T.Dict[str, ast.AST]       # parameter -> argument expression


def _bind(h: T.Any, call: ast.Call, implicit: int) -> T.Optional[_Helper]:
    a = h.args
    if a.vararg or a.kwarg or any(isinstance(x, ast.Starred) for x in call.args) or any(k.arg is None for k in call.keywords):
        return None
    params = [x.arg for x in a.posonlyargs + a.args]
    if len(params) < implicit:
        return None
    first, params = params[:implicit], params[implicit:]
    mapping: T.Dict[str, ast.AST] = {}
    if first:
        mapping[first[0]] = ast.Name(id='self', ctx=ast.Load())
    if len(call.args) > len(params):
        return None
    for p, v in zip(params, call.args):
        mapping[p] = v
    names = set(params) | {x.arg for x in a.kwonlyargs}
    for k in call.keywords:
        if k.arg not in names or k.arg in mapping:
            return None
        mapping[T.cast(str, k.arg)] = k.value
    defaults = dict(zip(reversed(params), reversed(a.defaults)))
    for p in params:
        if p not in mapping:
            if p not in defaults:
                return None
            mapping[p] = defaults[p]
    for p, d in zip(a.kwonlyargs, a.kw_defaults):
        if p.arg not in mapping:
            if d is None:
                return None
            mapping[p.arg] = d
    return _Helper(h, mapping)


MEMO_DECORATORS = {'lru_cache', 'functools.lru_cache', 'functools.cache', 'cache'}     # memoisation does not change what a pure function returns


def _resolve_helper(meths: T.Dict[str, T.Any], current: str, call: ast.AST, closures: T.Optional[T.Dict[str, T.Any]] = None) -> T.Optional[_Helper]:
    if isinstance(call, ast.Call) and isinstance(call.func, ast.Name) and closures and call.func.id in closures:
        h = closures[call.func.id]
        # E2: nested function of the method itself / private function of the same module (possibly memoised)
        return None if (_decorators(h) - MEMO_DECORATORS) else _bind(h, call, 0)
    if not (isinstance(call, ast.Call) and isinstance(call.func, ast.Attribute)):
        return None
    recv = call.func.value
    rk = attr_chain(recv)
    is_type_self = isinstance(recv, ast.Call) and attr_chain(recv.func) == 'type' and len(recv.args) == 1 and attr_chain(recv.args[0]) == 'self'
    if rk not in ('self', 'cls') and not is_type_self:
        return None
    n = call.func.attr
    if not n.startswith('_') or n.endswith('__') or n in KEEP_CALLS or n not in meths or n == current:
        return None
    h = meths[n]
    decos = _decorators(h)
    if decos - {'staticmethod', 'classmethod'}:
        return None
    a = h.args
    if a.vararg or a.kwarg or any(isinstance(x, ast.Starred) for x in call.args) or any(k.arg is None for k in call.keywords):
        return None
    params = [x.arg for x in a.posonlyargs + a.args]
    implicit = 0 if 'staticmethod' in decos else 1
    if len(params) < implicit:
        return None
    first = params[:implicit]
    params = params[implicit:]
    mapping: T.Dict[str, ast.AST] = {}
    if first:
        # self / cls of the helper is the receiver the caller used (`cls._h(x)` inside a classmethod keeps reading `cls`)
        mapping[first[0]] = ast.Name(id=rk if rk in ('self', 'cls') else 'self', ctx=ast.Load())
    if len(call.args) > len(params):
        return None
    for p, v in zip(params, call.args):
        mapping[p] = v
    names = set(params) | {x.arg for x in a.kwonlyargs}
    for k in call.keywords:
        if k.arg not in names or k.arg in mapping:
            return None
        mapping[T.cast(str, k.arg)] = k.value
    # defaults for what was not passed
    defaults = dict(zip(reversed(params), reversed(a.defaults)))
    for p in params:
        if p not in mapping:
            if p not in defaults:
                return None
            mapping[p] = defaults[p]
    for p, d in zip(a.kwonlyargs, a.kw_defaults):
        if p.arg not in mapping:
            if d is None:
                return None
            mapping[p.arg] = d
    return _Helper(h, mapping)


def _subst(node: ast.AST, mapping: T.Dict[str, ast.AST], rename: T.Dict[str, str]) -> ast.AST:
    class S(ast.NodeTransformer):
        def visit_Name(self, n: ast.Name) -> ast.AST:
            if n.id in mapping and isinstance(n.ctx, ast.Load):
                return ast.copy_location(copy.deepcopy(mapping[n.id]), n)
            if n.id in rename:
                return ast.copy_location(ast.Name(id=rename[n.id], ctx=n.ctx), n)
            return n
    return S().visit(copy.deepcopy(node))


def _locals_of(stmts: T.List[ast.stmt]) -> T.Set[str]:
    return {n.id for x in stmts for n in ast.walk(x) if isinstance(n, ast.Name) and isinstance(n.ctx, (ast.Store, ast.Del))}


def _own_nodes(stmts: T.List[ast.stmt]) -> T.Iterator[ast.AST]:
    """Nodes of a block that belong to the function itself (bodies of nested defs / lambdas are somebody else's)."""
    todo: T.List[ast.AST] = list(stmts)
    while todo:
        n = todo.pop()
        yield n
        if isinstance(n, (ast.FunctionDef, ast.AsyncFunctionDef, ast.Lambda, ast.ClassDef)):
            continue
        todo.extend(ast.iter_child_nodes(n))


def _is_yield_stmt(s: ast.AST) -> bool:
    return isinstance(s, ast.Expr) and isinstance(s.value, ast.Yield)


def _has_yield(stmts: T.List[ast.stmt]) -> bool:
    return any(isinstance(n, (ast.Yield, ast.YieldFrom)) for n in _own_nodes(stmts))


def _yields_in_tail(stmts: T.List[ast.stmt], tail: bool) -> bool:
    """Is every `yield` statement the last thing an iteration of its nearest enclosing loop does?  (then resuming the
    producer after the yield and `continue` of that loop are the same jump)"""
    for i, s in enumerate(stmts):
        last = i == len(stmts) - 1
        if _is_yield_stmt(s):
            if not (tail and last):
                return False
        elif isinstance(s, (ast.For, ast.While)):
            if not _yields_in_tail(s.body, True) or _has_yield(s.orelse):
                return False
        elif isinstance(s, ast.If):
            if not _yields_in_tail(s.body, tail and last) or not _yields_in_tail(s.orelse, tail and last):
                return False
        elif _has_yield([s]):
            return False
    return True


def _loop_jumps(body: T.List[ast.stmt]) -> T.Set[str]:
    """`break` / `continue` statements of a loop body that address that loop itself."""
    out: T.Set[str] = set()

    def scan(stmts: T.List[ast.stmt]) -> None:
        for s in stmts:
            if isinstance(s, ast.Break):
                out.add('break')
            elif isinstance(s, ast.Continue):
                out.add('continue')
            elif isinstance(s, (ast.FunctionDef, ast.AsyncFunctionDef, ast.ClassDef)):
                continue
            elif isinstance(s, (ast.For, ast.AsyncFor, ast.While)):
                scan(s.orelse)          # the body's jumps address the inner loop, the else clause's the outer one
            else:
                for field in ('body', 'orelse', 'finalbody'):
                    sub = getattr(s, field, None)
                    if isinstance(sub, list) and sub and isinstance(sub[0], ast.stmt):
                        scan(sub)
                for hd in getattr(s, 'handlers', []) or []:
                    scan(hd.body)
                for cs in getattr(s, 'cases', []) or []:
                    scan(cs.body)
    scan(body)
    return out


def fuse_generator(loop: ast.For, h: _Helper) -> T.Optional[T.List[ast.stmt]]:
    """D7/E1, lazy producer/consumer pair:  `for X in self._gen(a...): BODY`  where `_gen` is a private generator of the same
    class (or a closure / private module function).  A generator runs in lock step with the `for` that drives it, so the pair
    means the producer's statements with every `yield E` replaced by `X = E; BODY`.  Read that way only when the
    correspondence is exact:
      * every yield is a statement `yield E` (its value unused), no `yield from`, no `return` in the producer;
      * no yield under try/with in the producer (an exception of BODY never passes through the producer's handlers, and a
        dropped generator runs its finally blocks at another time);
      * BODY does not `break` the loop; it may `continue` only if every yield is the last act of an iteration of a producer
        loop (resuming after the yield == continuing that loop); the loop has no else clause;
      * arguments are plain names / attribute chains / constants that neither BODY nor the loop target rebinds, and the
        producer does not rebind its parameters (so binding at the call == reading at the use).
    Anything else is left as it is (the reading rule then says what it cannot read)."""
    b = _body_of(h.fn)
    own = list(_own_nodes(b))
    yields = [n for n in own if isinstance(n, (ast.Yield, ast.YieldFrom))]
    if not yields or any(isinstance(n, ast.YieldFrom) for n in yields):
        return None
    if len([n for n in own if _is_yield_stmt(n)]) != len(yields):
        return None                                     # a yield whose value is used (send protocol)
    if any(isinstance(n, (ast.Return, ast.Await, ast.AsyncFor, ast.AsyncWith)) for n in own) or isinstance(h.fn, ast.AsyncFunctionDef):
        return None
    for n in own:
        if isinstance(n, (ast.Try, ast.With)) and _has_yield([T.cast(ast.stmt, n)]):
            return None
    if loop.orelse:
        return None
    jumps = _loop_jumps(loop.body)
    if 'break' in jumps or ('continue' in jumps and not _yields_in_tail(b, False)):
        return None
    locs = _locals_of(b)
    if locs & set(h.mapping):
        return None
    stored = {n.id for x in [loop.target] + list(loop.body) for n in ast.walk(x) if isinstance(n, ast.Name) and isinstance(n.ctx, (ast.Store, ast.Del))}
    stored_attrs = {n.attr for x in loop.body for n in ast.walk(x) if isinstance(n, ast.Attribute) and isinstance(n.ctx, (ast.Store, ast.Del))}
    params = [x.arg for x in h.fn.args.posonlyargs + h.fn.args.args + h.fn.args.kwonlyargs]
    for p, v in h.mapping.items():
        if isinstance(v, ast.Constant):
            continue
        c = attr_chain(v)
        if c is None:
            return None
        if p == params[0] and c in ('self', 'cls') and 'staticmethod' not in _decorators(h.fn):
            continue
        parts = c.split('.')
        if parts[0] in stored or any(a in stored_attrs for a in parts[1:]):
            return None
    tag = next(_uid)
    rename = {n: f'{n}__{h.fn.name.strip("_")}{tag}' for n in locs}

    class Y(ast.NodeTransformer):
        def visit_Expr(self, n: ast.Expr) -> T.Any:
            if not _is_yield_stmt(n):
                return n
            val = T.cast(ast.Yield, n.value).value or ast.Constant(value=None)
            bind = ast.copy_location(ast.Assign(targets=[copy.deepcopy(loop.target)], value=val, lineno=n.lineno), n)
            return [bind] + [copy.deepcopy(x) for x in loop.body]

        def visit_FunctionDef(self, n: ast.FunctionDef) -> ast.AST:
            return n

        def visit_Lambda(self, n: ast.Lambda) -> ast.AST:
            return n
    out: T.List[ast.stmt] = []
    for x in b:
        r = Y().visit(_subst(x, h.mapping, rename))
        out.extend(r if isinstance(r, list) else [r])
    return out


def inline_helpers(mod: Module, cls: str, fn: T.Any, depth: int = 3) -> T.Any:
    meths = mod.methods(cls) if cls and mod.has_cls(cls) else {}
    cur = copy.deepcopy(fn)
    closures = {st.name: st for st in cur.body if isinstance(st, ast.FunctionDef)}
    local_names = set(closures)
    for q, h in mod.funcs().items():        # private module-level functions (helpers moved out of the class)
        if '.' not in q and q.startswith('_') and not q.endswith('__') and q not in closures and isinstance(h, ast.FunctionDef) and h is not fn:
            closures[q] = h
    if closures:
        free_ok = {}
        for n, h in closures.items():
            # only closures that do not rebind names of the enclosing method (nonlocal) are folded in
            if not any(isinstance(x, (ast.Nonlocal, ast.Global)) for x in ast.walk(h)):
                free_ok[n] = h
        closures = free_ok
    if not meths and not closures:
        return cur
    for _ in range(depth):
        changed = False

        class E(ast.NodeTransformer):
            def visit_Call(self, c: ast.Call) -> ast.AST:
                nonlocal changed
                self.generic_visit(c)
                h = _resolve_helper(meths, fn.name, c, closures)
                if h is not None:
                    b = _body_of(h.fn)
                    if len(b) == 1 and isinstance(b[0], ast.Return) and b[0].value is not None and not (_locals_of(b) & set(h.mapping)):
                        changed = True
                        return ast.copy_location(_subst(b[0].value, h.mapping, {}), c)
                return c

        def splice(stmts: T.List[ast.stmt], loop_body: bool = False) -> T.List[ast.stmt]:
            nonlocal changed
            out: T.List[ast.stmt] = []
            for st in stmts:
                for field in ('body', 'orelse', 'finalbody'):
                    sub = getattr(st, field, None)
                    if isinstance(sub, list) and sub and isinstance(sub[0], ast.stmt):
                        setattr(st, field, splice(sub, field == 'body' and isinstance(st, (ast.For, ast.AsyncFor, ast.While))))
                for hd in getattr(st, 'handlers', []) or []:
                    hd.body = splice(hd.body)
                if isinstance(st, ast.For) and isinstance(st.iter, ast.Call):
                    hg = _resolve_helper(meths, fn.name, st.iter, closures)
                    fused = fuse_generator(st, hg) if hg is not None else None
                    if fused is not None:
                        out.extend(fused)       # lazy producer/consumer pair read as one loop
                        changed = True
                        continue
                if isinstance(st, ast.Return) and st.value is not None:
                    hr = _resolve_helper(meths, fn.name, st.value, closures)
                    if hr is not None:
                        b = _body_of(hr.fn)
                        locs = _locals_of(b)
                        if not (locs & set(hr.mapping)) and not any(isinstance(n, (ast.Yield, ast.YieldFrom)) for x in b for n in ast.walk(x)):
                            tag = next(_uid)
                            rename = {n: f'{n}__{hr.fn.name.strip("_")}{tag}' for n in locs}
                            out.extend(T.cast(ast.stmt, _subst(x, hr.mapping, rename)) for x in b)   # `return h(...)`: h's returns are ours
                            changed = True
                            continue
                call = st.value if isinstance(st, (ast.Expr, ast.Assign, ast.AnnAssign)) else None
                if isinstance(st, ast.FunctionDef) and st.name in closures:
                    out.append(st)
                    continue
                h = _resolve_helper(meths, fn.name, call, closures) if call is not None else None
                if h is not None:
                    b = _body_of(h.fn)
                    locs = _locals_of(b)
                    if locs & set(h.mapping):
                        out.append(st)      # the helper rebinds a parameter: left alone
                        continue
                    tag = next(_uid)
                    rename = {n: f'{n}__{h.fn.name.strip("_")}{tag}' for n in locs}
                    nested_exit = [n for x in b[:-1] for n in ast.walk(x) if isinstance(n, (ast.Return, ast.Yield, ast.YieldFrom))]
                    last = b[-1] if b else None
                    if isinstance(st, ast.Expr) and nested_exit and loop_body and st is stmts[-1] \
                            and all(isinstance(n, ast.Return) and n.value is None for n in nested_exit) \
                            and not (isinstance(last, ast.Return) and last.value is not None) \
                            and not any(isinstance(x, (ast.For, ast.AsyncFor, ast.While)) and any(isinstance(n, ast.Return) for n in ast.walk(x)) for x in b):
                        # E1: a loop body extracted into a helper - its early `return`s were the loop's `continue`s
                        class R(ast.NodeTransformer):
                            def visit_Return(self, n: ast.Return) -> ast.AST:
                                return ast.copy_location(ast.Continue(), n)

                            def visit_FunctionDef(self, n: ast.FunctionDef) -> ast.AST:
                                return n
                        b2 = [R().visit(copy.deepcopy(x)) for x in b]
                        out.extend(T.cast(ast.stmt, _subst(x, h.mapping, rename)) for x in b2)
                        changed = True
                        continue
                    if isinstance(st, ast.Expr):
                        if isinstance(last, ast.Return) and last.value is None:
                            b, last = b[:-1], None
                        if b and not nested_exit and not any(isinstance(n, (ast.Return, ast.Yield, ast.YieldFrom)) for x in b[-1:] for n in ast.walk(x)):
                            out.extend(T.cast(ast.stmt, _subst(x, h.mapping, rename)) for x in b)
                            changed = True
                            continue
                    elif isinstance(last, ast.Return) and last.value is not None and not nested_exit:
                        out.extend(T.cast(ast.stmt, _subst(x, h.mapping, rename)) for x in b[:-1])
                        tail = copy.copy(st)
                        tail.value = T.cast(ast.expr, _subst(last.value, h.mapping, rename))
                        out.append(ast.copy_location(tail, st))
                        changed = True
                        continue
                out.append(st)
            return out
        keep_defs = {n: h for n, h in closures.items()}
        cur.body = [E().visit(st) if not (isinstance(st, ast.FunctionDef) and st.name in keep_defs) else st for st in cur.body]
        cur.body = splice(cur.body)
        ast.fix_missing_locations(cur)
        if not changed:
            break
    # closures that are no longer referenced disappear
    for n in list(local_names & set(closures)):
        refs = [x for st in cur.body if not (isinstance(st, ast.FunctionDef) and st.name == n) for x in ast.walk(st) if isinstance(x, ast.Name) and x.id == n]
        if not refs:
            cur.body = [st for st in cur.body if not (isinstance(st, ast.FunctionDef) and st.name == n)]
    return cur


def _pure(e: ast.AST) -> bool:
    for n in ast.walk(e):
        if isinstance(n, (ast.Await, ast.Yield, ast.YieldFrom, ast.NamedExpr, ast.Lambda, ast.ListComp, ast.SetComp, ast.DictComp, ast.GeneratorExp)):
            return False
        if isinstance(n, ast.Call):
            f = n.func
            if isinstance(f, ast.Attribute) and f.attr in PURE_METHODS:
                continue
            if attr_chain(f) in PURE_FUNCS:
                continue
            return False
    return True


def inline_locals(fn: T.Any) -> T.Any:
    """Substitute pure single-definition locals at their uses when every use follows the definition in the same block
    (possibly nested deeper) and nothing the value reads is rebound or mutated in between."""
    cur = copy.deepcopy(fn)
    for _ in range(6):
        stores: T.Dict[str, int] = {}
        for n in walk_no_nested(cur, include_root=False):
            if isinstance(n, ast.Name) and isinstance(n.ctx, (ast.Store, ast.Del)):
                stores[n.id] = stores.get(n.id, 0) + 1
        for a in cur.args.posonlyargs + cur.args.args + cur.args.kwonlyargs:
            stores[a.arg] = stores.get(a.arg, 0) + 1
        done = False

        def try_block(stmts: T.List[ast.stmt]) -> bool:
            for i, st in enumerate(stmts):
                tgt = val = None
                if isinstance(st, ast.Assign) and len(st.targets) == 1 and isinstance(st.targets[0], ast.Name):
                    tgt, val = st.targets[0].id, st.value
                elif isinstance(st, ast.AnnAssign) and isinstance(st.target, ast.Name) and st.value is not None:
                    tgt, val = st.target.id, st.value
                const_table = isinstance(val, ast.Tuple) and bool(val.elts) and not any(isinstance(r, ast.Starred) for r in val.elts)   # immutable record / key
                if tgt is not None and val is not None and stores.get(tgt) == 1 and _pure(val) and (const_table or not isinstance(val, (ast.List, ast.Set, ast.Dict, ast.Tuple, ast.Constant))) \
                        and not (isinstance(val, ast.Call) and not val.args and not val.keywords):
                    rest = stmts[i + 1:]
                    uses_after = [n for x in rest for n in ast.walk(x) if isinstance(n, ast.Name) and n.id == tgt]
                    uses_all = [n for n in ast.walk(cur) if isinstance(n, ast.Name) and n.id == tgt and isinstance(n.ctx, ast.Load)]
                    if uses_after and len(uses_after) == len(uses_all):
                        reads = {n.id for n in ast.walk(val) if isinstance(n, ast.Name)}
                        chains = chains_in(val)
                        # region: statements up to the last one that uses the local
                        last = max(j for j, x in enumerate(rest) if any(n.id == tgt for n in ast.walk(x) if isinstance(n, ast.Name)))
                        ok = True
                        for x in rest[:last + 1]:
                            for n in ast.walk(x):
                                if isinstance(n, ast.Name) and isinstance(n.ctx, (ast.Store, ast.Del)) and n.id in reads:
                                    ok = False
                                if isinstance(n, (ast.Attribute, ast.Subscript)) and isinstance(n.ctx, (ast.Store, ast.Del)):
                                    c = attr_chain(n.value if isinstance(n, ast.Subscript) else n)
                                    if c and any(c == k or k.startswith(c + '.') for k in chains):
                                        ok = False
                                if isinstance(n, ast.Call) and isinstance(n.func, ast.Attribute) and n.func.attr not in PURE_METHODS:
                                    c = attr_chain(n.func.value)
                                    if c and any(c == k or k.startswith(c + '.') for k in chains):
                                        ok = False
                                    if c == 'self':
                                        ok = False      # another method of self may change what the value reads
                        if ok:
                            repl = {tgt: val}
                            new_rest = [T.cast(ast.stmt, _subst(x, repl, {})) for x in rest]
                            stmts[i:] = new_rest
                            return True
                for field in ('body', 'orelse', 'finalbody'):
                    sub = getattr(st, field, None)
                    if isinstance(sub, list) and sub and isinstance(sub[0], ast.stmt) and try_block(sub):
                        return True
                for hd in getattr(st, 'handlers', []) or []:
                    if try_block(hd.body):
                        return True
            return False
        done = try_block(cur.body)
        ast.fix_missing_locations(cur)
        if not done:
            break
    return cur


def _is_enum_member(e: ast.AST) -> bool:
    c = attr_chain(e)
    return bool(c) and c.count('.') == 1 and c.split('.')[0] == 'Dedup'  # type: ignore[union-attr]


def _boolish(e: ast.AST) -> bool:
    if isinstance(e, ast.Compare):
        return True
    if isinstance(e, ast.UnaryOp) and isinstance(e.op, ast.Not):
        return True
    if isinstance(e, ast.BoolOp):
        return all(_boolish(v) for v in e.values)
    if isinstance(e, ast.Constant) and isinstance(e.value, bool):
        return True
    return False


class _Expr(ast.NodeTransformer):
    """Expression-level normal forms (all value-preserving in the position they are applied)."""

    def __init__(self, sigs: T.Dict[str, T.List[str]]):
        self.sigs = sigs          # method name -> positional parameter names (without self/cls)
        self.bool_ctx = False

    def visit_Call(self, c: ast.Call) -> ast.AST:
        self.generic_visit(c)
        # A1: keyword -> positional at calls of methods of the class
        f = c.func
        if isinstance(f, ast.Attribute) and attr_chain(f.value) in ('self', 'cls') and f.attr in self.sigs and c.keywords \
                and not any(k.arg is None for k in c.keywords) and not any(isinstance(a, ast.Starred) for a in c.args):
            params = self.sigs[f.attr]
            slots: T.List[T.Optional[ast.AST]] = list(c.args) + [None] * (len(params) - len(c.args))
            ok = len(c.args) <= len(params)
            for k in c.keywords:
                if ok and k.arg in params and slots[params.index(k.arg)] is None:
                    slots[params.index(k.arg)] = k.value
                else:
                    ok = False
            while slots and slots[-1] is None:
                slots.pop()
            if ok and all(x is not None for x in slots):
                c = ast.copy_location(ast.Call(func=f, args=T.cast(T.List[ast.expr], slots), keywords=[]), c)
        # D2: any()/all() of a generator over a constant tuple of expressions
        if isinstance(c.func, ast.Name) and c.func.id in ('any', 'all') and len(c.args) == 1 and not c.keywords \
                and isinstance(c.args[0], (ast.GeneratorExp, ast.ListComp)):
            g = c.args[0]
            if len(g.generators) == 1 and not g.generators[0].ifs and isinstance(g.generators[0].target, ast.Name) \
                    and isinstance(g.generators[0].iter, (ast.Tuple, ast.List)) and g.generators[0].iter.elts \
                    and not any(isinstance(x, ast.Starred) for x in g.generators[0].iter.elts) and _boolish(g.elt):
                v = g.generators[0].target.id
                vals = [T.cast(ast.expr, _subst(g.elt, {v: x}, {})) for x in g.generators[0].iter.elts]
                return ast.copy_location(ast.BoolOp(op=ast.Or() if c.func.id == 'any' else ast.And(), values=vals) if len(vals) > 1 else vals[0], c)
        return c

    def visit_Compare(self, e: ast.Compare) -> ast.AST:
        self.generic_visit(e)
        if len(e.ops) != 1:
            return e
        op, l, r = e.ops[0], e.left, e.comparators[0]
        # membership in a concatenation is membership in one of its parts: x in chain(A, B) / x in A + B / x in (*A, *B)
        if isinstance(op, (ast.In, ast.NotIn)):
            def parts_of(c: ast.AST) -> T.Optional[T.List[ast.expr]]:
                if isinstance(c, ast.Call) and attr_chain(c.func) in ('itertools.chain', 'chain') and c.args and not c.keywords \
                        and not any(isinstance(x, ast.Starred) for x in c.args):
                    out_: T.List[ast.expr] = []
                    for x in c.args:
                        sub = parts_of(x)
                        out_ += sub if sub is not None else [x]
                    return out_
                if isinstance(c, ast.BinOp) and isinstance(c.op, ast.Add):
                    lp, rp = parts_of(c.left), parts_of(c.right)
                    lp = lp if lp is not None else ([c.left] if attr_chain(c.left) else None)  # type: ignore[list-item]
                    rp = rp if rp is not None else ([c.right] if attr_chain(c.right) else None)  # type: ignore[list-item]
                    return lp + rp if lp is not None and rp is not None else None
                if isinstance(c, (ast.Tuple, ast.List)) and c.elts and all(isinstance(x, ast.Starred) and attr_chain(x.value) for x in c.elts):
                    return [x.value for x in c.elts]  # type: ignore[attr-defined]
                if isinstance(c, ast.Call) and attr_chain(c.func) in ('list', 'tuple') and len(c.args) == 1 and not c.keywords:
                    return parts_of(c.args[0])
                return None
            ps = parts_of(r)
            if ps is not None and len(ps) >= 2 and all(attr_chain(x) for x in ps) and (attr_chain(l) or isinstance(l, ast.Constant)):
                tests: T.List[ast.expr] = [ast.Compare(left=copy.deepcopy(l), ops=[ast.In()], comparators=[x]) for x in ps]
                res2: ast.expr = ast.BoolOp(op=ast.Or(), values=tests)
                if isinstance(op, ast.NotIn):
                    res2 = ast.UnaryOp(op=ast.Not(), operand=res2)
                return ast.copy_location(res2, e)
        # a regex match object is truthy exactly when it is not None
        if isinstance(op, (ast.Is, ast.IsNot, ast.Eq, ast.NotEq)) and isinstance(r, ast.Constant) and r.value is None and isinstance(l, ast.Call) \
                and isinstance(l.func, ast.Attribute) and l.func.attr in ('search', 'match', 'fullmatch'):
            inner_m: ast.expr = ast.UnaryOp(op=ast.Not(), operand=l)
            if isinstance(op, (ast.IsNot, ast.NotEq)):
                inner_m = ast.UnaryOp(op=ast.Not(), operand=inner_m)
            return ast.copy_location(inner_m, e)
        # C2: enum members compare by identity
        if isinstance(op, (ast.Eq, ast.NotEq)) and (_is_enum_member(l) or _is_enum_member(r)):
            if _is_enum_member(l) and not _is_enum_member(r):
                l, r = r, l
            return ast.copy_location(ast.Compare(left=l, ops=[ast.Is() if isinstance(op, ast.Eq) else ast.IsNot()], comparators=[r]), e)
        if isinstance(op, (ast.In, ast.NotIn)) and isinstance(r, (ast.Tuple, ast.List, ast.Set)) and r.elts and all(_is_enum_member(x) for x in r.elts) \
                and attr_chain(l) is not None:
            parts: T.List[ast.expr] = [ast.Compare(left=copy.deepcopy(l), ops=[ast.Is()], comparators=[x]) for x in r.elts]
            res: ast.expr = parts[0] if len(parts) == 1 else ast.BoolOp(op=ast.Or(), values=parts)
            if isinstance(op, ast.NotIn):
                res = ast.UnaryOp(op=ast.Not(), operand=res)
            return ast.copy_location(res, e)
        # C2: len(x) compared with 0/1 is truthiness of x
        def is_len(x: ast.AST) -> T.Optional[ast.expr]:
            if isinstance(x, ast.Call) and isinstance(x.func, ast.Name) and x.func.id == 'len' and len(x.args) == 1 and not x.keywords and attr_chain(x.args[0]):
                return x.args[0]
            return None
        def const(x: ast.AST) -> T.Any:
            return x.value if isinstance(x, ast.Constant) and type(x.value) is int else None
        inner, k, flipped = is_len(l), const(r), False
        if inner is None and is_len(r) is not None:
            inner, k, flipped = is_len(r), const(l), True
        if inner is not None and k is not None:
            name = op.__class__.__name__
            if flipped:
                name = {'Lt': 'Gt', 'Gt': 'Lt', 'LtE': 'GtE', 'GtE': 'LtE'}.get(name, name)
            truthy = (name, k) in (('Gt', 0), ('NotEq', 0), ('GtE', 1))
            falsy = (name, k) in (('Eq', 0), ('Lt', 1), ('LtE', 0))
            if truthy:
                return ast.copy_location(ast.UnaryOp(op=ast.Not(), operand=ast.UnaryOp(op=ast.Not(), operand=inner)), e)
            if falsy:
                return ast.copy_location(ast.UnaryOp(op=ast.Not(), operand=inner), e)
        return e


def _stmt_forms(stmts: T.List[ast.stmt]) -> T.List[ast.stmt]:
    """Statement-level normal forms, applied recursively to a block."""
    out: T.List[ast.stmt] = []
    for st in stmts:
        for field in ('body', 'orelse', 'finalbody'):
            sub = getattr(st, field, None)
            if isinstance(sub, list) and sub and isinstance(sub[0], ast.stmt):
                setattr(st, field, _stmt_forms(sub))
        for hd in getattr(st, 'handlers', []) or []:
            hd.body = _stmt_forms(hd.body)

        def one(recv: ast.expr, meth: str, elts: T.List[ast.expr]) -> T.List[ast.stmt]:
            return [ast.copy_location(ast.Expr(value=ast.Call(func=ast.Attribute(value=copy.deepcopy(recv), attr=meth, ctx=ast.Load()), args=[x], keywords=[])), st)
                    for x in elts]
        # A5: one-element (or display) extend / += / update spelled as the element-wise call
        if isinstance(st, ast.AugAssign) and attr_chain(st.target) and attr_chain(st.target) != 'self':
            tgt = copy.deepcopy(st.target)
            tgt.ctx = ast.Load()  # type: ignore[attr-defined]
            if isinstance(st.op, ast.Add) and isinstance(st.value, ast.List) and st.value.elts and not any(isinstance(x, ast.Starred) for x in st.value.elts):
                out += one(tgt, 'append', st.value.elts)
                continue
            if isinstance(st.op, ast.BitOr) and isinstance(st.value, ast.Set) and st.value.elts and not any(isinstance(x, ast.Starred) for x in st.value.elts):
                out += one(tgt, 'add', st.value.elts)
                continue
            # C4: flag |= cond
            if isinstance(st.op, ast.BitOr) and _boolish(st.value):
                out.append(ast.copy_location(ast.If(test=st.value, body=[ast.Assign(targets=[st.target], value=ast.Constant(value=True))], orelse=[]), st))
                continue
        if isinstance(st, ast.Expr) and isinstance(st.value, ast.Call) and isinstance(st.value.func, ast.Attribute) and len(st.value.args) == 1 \
                and not st.value.keywords and attr_chain(st.value.func.value) and attr_chain(st.value.func.value) != 'self':
            m, a0 = st.value.func.attr, st.value.args[0]
            disp = isinstance(a0, (ast.List, ast.Tuple, ast.Set)) and a0.elts and not any(isinstance(x, ast.Starred) for x in a0.elts)
            if disp and m == 'extend' and isinstance(a0, (ast.List, ast.Tuple)):
                out += one(st.value.func.value, 'append', a0.elts)
                continue
            if disp and m == 'extendleft' and isinstance(a0, (ast.List, ast.Tuple)):
                out += one(st.value.func.value, 'appendleft', a0.elts)
                continue
            if disp and m == 'update':
                out += one(st.value.func.value, 'add', a0.elts)  # type: ignore[union-attr]
                continue
        # A3: callee (bound method) selected by a conditional expression
        if isinstance(st, ast.Expr) and isinstance(st.value, ast.Call) and isinstance(st.value.func, ast.IfExp):
            sel0 = st.value.func

            def arm0(f: ast.expr) -> ast.stmt:
                c2 = copy.deepcopy(st.value)
                c2.func = f  # type: ignore[attr-defined]
                return ast.copy_location(ast.Expr(value=c2), st)
            out += _stmt_forms([ast.copy_location(ast.If(test=sel0.test, body=[arm0(sel0.body)], orelse=[arm0(sel0.orelse)]), st)])
            continue
        # A3: receiver selected by a conditional expression
        if isinstance(st, ast.Expr) and isinstance(st.value, ast.Call) and isinstance(st.value.func, ast.Attribute) and isinstance(st.value.func.value, ast.IfExp):
            sel = st.value.func.value

            def arm(v: ast.expr) -> ast.stmt:
                c2 = copy.deepcopy(st.value)
                c2.func.value = v  # type: ignore[attr-defined]
                return ast.copy_location(ast.Expr(value=c2), st)
            out += _stmt_forms([ast.copy_location(ast.If(test=sel.test, body=[arm(sel.body)], orelse=[arm(sel.orelse)]), st)])
            continue
        # C4: flag = flag or cond
        if isinstance(st, ast.Assign) and len(st.targets) == 1 and isinstance(st.value, ast.BoolOp) and isinstance(st.value.op, ast.Or) \
                and attr_chain(st.targets[0]) and len(st.value.values) >= 2:
            vals = st.value.values
            tn = attr_chain(st.targets[0])
            rest = [v for v in vals if attr_chain(v) != tn]
            if len(rest) == len(vals) - 1 and all(_boolish(v) for v in rest):
                test = rest[0] if len(rest) == 1 else ast.BoolOp(op=ast.Or(), values=rest)
                out.append(ast.copy_location(ast.If(test=test, body=[ast.Assign(targets=st.targets, value=ast.Constant(value=True))], orelse=[]), st))
                continue
        # C6: walrus in the first evaluated position of an if-test is an assignment before the if
        if isinstance(st, ast.If):
            pos: T.Any = st.test
            parent: T.Any = None
            field_idx: T.Any = None
            while True:
                if isinstance(pos, ast.BoolOp):
                    parent, field_idx, pos = pos, ('values', 0), pos.values[0]
                elif isinstance(pos, ast.Compare):
                    parent, field_idx, pos = pos, ('left', None), pos.left
                elif isinstance(pos, ast.UnaryOp) and isinstance(pos.op, ast.Not):
                    parent, field_idx, pos = pos, ('operand', None), pos.operand
                else:
                    break
            if isinstance(pos, ast.NamedExpr) and isinstance(pos.target, ast.Name):
                name = ast.copy_location(ast.Name(id=pos.target.id, ctx=ast.Load()), pos)
                if parent is None:
                    st.test = name
                elif field_idx[1] is None:
                    setattr(parent, field_idx[0], name)
                else:
                    getattr(parent, field_idx[0])[field_idx[1]] = name
                out.append(ast.copy_location(ast.Assign(targets=[ast.Name(id=pos.target.id, ctx=ast.Store())], value=pos.value), st))
                out.append(st)
                continue
        # A4/B5: loop over a display of records (tuples) with an unpacking target is the body repeated per record
        if isinstance(st, ast.For) and isinstance(st.target, (ast.Tuple, ast.List)) and not st.orelse and isinstance(st.iter, (ast.Tuple, ast.List)) and st.iter.elts \
                and all(isinstance(t, ast.Name) for t in st.target.elts) \
                and all(isinstance(r, (ast.Tuple, ast.List)) and len(r.elts) == len(st.target.elts) and all(_pure(x) and not isinstance(x, ast.Starred) for x in r.elts)
                        for r in st.iter.elts):
            names = [t.id for t in st.target.elts]  # type: ignore[attr-defined]
            jumps = [n for x in st.body for n in ast.walk(x) if isinstance(n, (ast.Break, ast.Continue))]
            rebinds = [n for x in st.body for n in ast.walk(x) if isinstance(n, ast.Name) and n.id in names and isinstance(n.ctx, (ast.Store, ast.Del))]
            if not jumps and not rebinds:
                for r in st.iter.elts:
                    out += _stmt_forms([T.cast(ast.stmt, _subst(b, dict(zip(names, r.elts)), {})) for b in st.body])  # type: ignore[attr-defined]
                continue
        if isinstance(st, ast.For) and isinstance(st.target, ast.Name) and not st.orelse:
            v = st.target.id
            jumps = [n for x in st.body for n in ast.walk(x) if isinstance(n, (ast.Break, ast.Continue))]
            rebinds = [n for x in st.body for n in ast.walk(x) if isinstance(n, ast.Name) and n.id == v and isinstance(n.ctx, (ast.Store, ast.Del))]
            # A4: loop over a display of (attribute) expressions is the body repeated
            if isinstance(st.iter, (ast.Tuple, ast.List)) and st.iter.elts and not jumps and not rebinds and all(attr_chain(x) for x in st.iter.elts):
                for x in st.iter.elts:
                    out += _stmt_forms([T.cast(ast.stmt, _subst(b, {v: x}, {})) for b in st.body])
                continue
            # D1: index loop over one sequence
            it = st.iter
            seq: T.Optional[ast.expr] = None
            backward = False
            if isinstance(it, ast.Call) and isinstance(it.func, ast.Name) and it.func.id == 'range' and not it.keywords:
                a = it.args
                def len_of(x: ast.AST) -> T.Optional[ast.expr]:
                    if isinstance(x, ast.Call) and isinstance(x.func, ast.Name) and x.func.id == 'len' and len(x.args) == 1 and attr_chain(x.args[0]):
                        return x.args[0]
                    return None
                if len(a) == 1 and len_of(a[0]) is not None:
                    seq = len_of(a[0])
                elif len(a) == 2 and isinstance(a[0], ast.Constant) and a[0].value == 0 and len_of(a[1]) is not None:
                    seq = len_of(a[1])
                elif len(a) == 3 and isinstance(a[0], ast.BinOp) and isinstance(a[0].op, ast.Sub) and len_of(a[0].left) is not None \
                        and isinstance(a[0].right, ast.Constant) and a[0].right.value == 1 and ast.unparse(a[1]) == '-1' and ast.unparse(a[2]) == '-1':
                    seq, backward = len_of(a[0].left), True
            if seq is not None and not rebinds:
                uses = [n for x in st.body for n in ast.walk(x) if isinstance(n, ast.Name) and n.id == v]
                subs = [n for x in st.body for n in ast.walk(x) if isinstance(n, ast.Subscript) and isinstance(n.slice, ast.Name) and n.slice.id == v
                        and ast.unparse(n.value) == ast.unparse(seq) and isinstance(n.ctx, ast.Load)]
                first = st.body[0] if st.body else None
                if uses and len(uses) == len(subs) and isinstance(first, ast.Assign) and len(first.targets) == 1 and isinstance(first.targets[0], ast.Name) \
                        and len(subs) == 1 and first.value is subs[0]:
                    new_iter: ast.expr = ast.Call(func=ast.Name(id='reversed', ctx=ast.Load()), args=[seq], keywords=[]) if backward else seq
                    out.append(ast.copy_location(ast.For(target=ast.Name(id=first.targets[0].id, ctx=ast.Store()), iter=new_iter, body=st.body[1:] or [ast.Pass()],
                                                         orelse=[], type_comment=None), st))
                    continue
        out.append(st)
    return out


def _signatures(mod: Module, cls: str) -> T.Dict[str, T.List[str]]:
    out: T.Dict[str, T.List[str]] = {}
    if not (cls and mod.has_cls(cls)):
        return out
    for n, h in mod.methods(cls).items():
        a = h.args
        params = [x.arg for x in a.posonlyargs + a.args]
        if 'staticmethod' not in _decorators(h):
            params = params[1:]
        if not a.vararg and not a.kwarg and not a.kwonlyargs:
            out[n.split('#')[0]] = params
    return out


def forms(mod: Module, cls: str, fn: T.Any) -> T.Any:
    cur = copy.deepcopy(fn)
    cur = _Expr(_signatures(mod, cls)).visit(cur)
    cur.body = _stmt_forms(cur.body)
    ast.fix_missing_locations(cur)
    return cur


def normalise(mod: Module, cls: str, fn: T.Any) -> T.Any:
    try:
        return forms(mod, cls, inline_locals(forms(mod, cls, inline_helpers(mod, cls, forms(mod, cls, fn)))))
    except RecursionError:      # pragma: no cover
        raise Undecided(f'{cls}.{getattr(fn, "name", "?")}: normalisation does not terminate')
