"""C16 helpers: the node model read from mparser.py (field types of the AST node classes), a small
static type resolver for expressions inside formatter passes, and the collection of every write
(assignment, augmented assignment, mutator call, del) a pass performs."""
from __future__ import annotations

import ast
import typing as T

from ..core import Module, Repo, Undecided, norm, short, attr_chain, walk_no_nested

MP = 'mesonbuild/mparser.py'

MUTATORS = {'append', 'extend', 'insert', 'pop', 'remove', 'clear', 'sort', 'reverse', 'update', 'add', 'discard', 'setdefault', 'popitem',
            'appendleft', 'popleft', '__setitem__', '__delitem__'}


def _strip_mod(n: str) -> str:
    return n.split('.')[-1]


class NodeModel:
    """Classes of mparser.py that derive from BaseNode, with the declared type of every field."""

    def __init__(self, repo: Repo):
        self.repo = repo
        self.mod = repo.module(MP)
        self.classes: T.Dict[str, ast.ClassDef] = {}
        for q, c in self.mod.classes().items():
            if '.' in q or '#' in q:
                continue
            names = [x[1].name for x in repo.mro(self.mod, c)]
            if 'BaseNode' in names:
                self.classes[q] = c
        if 'BaseNode' not in self.classes or 'WhitespaceNode' not in self.classes:
            raise Undecided('mparser.py: BaseNode / WhitespaceNode not found')

    def mro(self, cls: str) -> T.List[str]:
        if cls not in self.classes:
            return []
        return [c.name for _, c in self.repo.mro(self.mod, self.classes[cls]) if c.name in self.classes]

    def is_sub(self, cls: str, base: str) -> bool:
        return base in self.mro(cls)

    def subclasses(self, base: str) -> T.List[str]:
        return [c for c in self.classes if self.is_sub(c, base)]

    def parse_ann(self, ann: ast.AST) -> str:
        """'SymbolNode' | 'list[SymbolNode]' | 'dict[BaseNode,BaseNode]' | 'bool' | 'str' | 'int' | '?'."""
        if isinstance(ann, ast.Constant) and isinstance(ann.value, str):
            try:
                ann = ast.parse(ann.value, mode='eval').body
            except SyntaxError:
                return '?'
        if isinstance(ann, ast.Subscript):
            head = _strip_mod(attr_chain(ann.value) or '')
            sl = ann.slice
            if head == 'Optional':
                return self.parse_ann(sl)
            if head == 'Union' and isinstance(sl, ast.Tuple):
                parts = [self.parse_ann(x) for x in sl.elts if not (isinstance(x, ast.Constant) and x.value is None)]
                return '|'.join(sorted(set(parts))) if parts and '?' not in parts else '?'
            if head in ('List', 'list', 'Sequence', 'MutableSequence'):
                return f'list[{self.parse_ann(sl)}]'
            if head in ('Dict', 'dict', 'Mapping') and isinstance(sl, ast.Tuple) and len(sl.elts) == 2:
                return f'dict[{self.parse_ann(sl.elts[0])},{self.parse_ann(sl.elts[1])}]'
            if head in self.classes:      # ElementaryNode[str]
                return head
            return '?'
        if isinstance(ann, ast.BinOp) and isinstance(ann.op, ast.BitOr):
            parts = [self.parse_ann(x) for x in (ann.left, ann.right) if not (isinstance(x, ast.Constant) and x.value is None)]
            return '|'.join(sorted(set(parts))) if parts and '?' not in parts else '?'
        n = attr_chain(ann)
        if n is None:
            return '?'
        n = _strip_mod(n)
        if n in self.classes or n in ('bool', 'str', 'int'):
            return n
        return '?'

    def field_type(self, cls: str, field: str) -> str:
        for cname in self.mro(cls):
            c = self.classes[cname]
            for st in c.body:
                if isinstance(st, ast.AnnAssign) and isinstance(st.target, ast.Name) and st.target.id == field:
                    return self.parse_ann(st.annotation)
            for st in c.body:
                if isinstance(st, ast.FunctionDef) and st.name == '__init__':
                    for n in ast.walk(st):
                        if isinstance(n, ast.AnnAssign) and attr_chain(n.target) == f'self.{field}':
                            return self.parse_ann(n.annotation)
                        if isinstance(n, ast.Assign) and any(attr_chain(t) == f'self.{field}' for t in n.targets):
                            v = n.value
                            if isinstance(v, ast.Constant):
                                return type(v.value).__name__ if v.value is not None else '?'
                            if isinstance(v, ast.List):
                                return 'list[?]'
                            if isinstance(v, ast.Dict):
                                return 'dict[?,?]'
        return '?'

    def fields(self, cls: str) -> T.Dict[str, str]:
        out: T.Dict[str, str] = {}
        for cname in reversed(self.mro(cls)):
            for st in self.classes[cname].body:
                if isinstance(st, ast.AnnAssign) and isinstance(st.target, ast.Name):
                    out[st.target.id] = self.parse_ann(st.annotation)
        return out


class Typer:
    """Static type of an expression inside one method of a pass class (from annotations only)."""

    def __init__(self, model: NodeModel, mod: Module, cls: T.Optional[ast.ClassDef], fn: ast.AST, repo: Repo):
        self.model = model
        self.mod = mod
        self.cls = cls
        self.fn = fn
        self.repo = repo
        self.params: T.Dict[str, ast.AST] = {}
        for f in [fn] + [n for n in ast.walk(fn) if isinstance(n, (ast.FunctionDef, ast.AsyncFunctionDef)) and n is not fn]:
            a = f.args  # type: ignore[attr-defined]
            for p in a.posonlyargs + a.args + a.kwonlyargs:
                if p.annotation is not None and p.arg not in self.params:
                    self.params[p.arg] = p.annotation
        self.defs: T.Dict[str, T.List[T.Tuple[str, ast.AST]]] = {}
        for n in ast.walk(fn):
            if isinstance(n, ast.Assign):
                for t in n.targets:
                    if isinstance(t, ast.Name):
                        self.defs.setdefault(t.id, []).append(('val', n.value))
            elif isinstance(n, ast.AnnAssign) and isinstance(n.target, ast.Name):
                self.defs.setdefault(n.target.id, []).append(('ann', n.annotation))
                if n.value is not None:
                    self.defs[n.target.id].append(('val', n.value))
            elif isinstance(n, (ast.For, ast.comprehension)):
                if isinstance(n.target, ast.Name):
                    self.defs.setdefault(n.target.id, []).append(('elem', n.iter))

    def of(self, e: ast.AST, depth: int = 0) -> T.Set[str]:
        if depth > 8:
            return {'?'}
        if isinstance(e, ast.Name):
            if e.id in self.params:
                return set(self.model.parse_ann(self.params[e.id]).split('|'))
            out: T.Set[str] = set()
            for kind, v in self.defs.get(e.id, []):
                if kind == 'val':
                    out |= self.of(v, depth + 1)
                elif kind == 'ann':
                    out.add(self.model.parse_ann(v))
                else:
                    out |= self._elem(self.of(v, depth + 1))
            return out or {'?'}
        if isinstance(e, ast.Attribute):
            if attr_chain(e.value) == 'self':
                return {self._self_attr(e.attr)}
            out = set()
            for t in self.of(e.value, depth + 1):
                if t in self.model.classes:
                    out.add(self.model.field_type(t, e.attr))
                else:
                    out.add('?')
            return out or {'?'}
        if isinstance(e, ast.Subscript):
            if isinstance(e.slice, ast.Slice):
                return self.of(e.value, depth + 1)
            return self._elem(self.of(e.value, depth + 1))
        if isinstance(e, ast.IfExp):
            return self.of(e.body, depth + 1) | self.of(e.orelse, depth + 1)
        if isinstance(e, ast.Call):
            n = attr_chain(e.func)
            if n is not None and _strip_mod(n) in self.model.classes:
                return {_strip_mod(n)}
            if isinstance(e.func, ast.Attribute) and e.func.attr == 'values':
                ts = self.of(e.func.value, depth + 1)
                return {f'list[{t[5:-1].split(",")[1]}]' if t.startswith('dict[') else '?' for t in ts}
            if isinstance(e.func, ast.Attribute) and e.func.attr == 'pop':
                return self._elem(self.of(e.func.value, depth + 1))
            return {'?'}
        if isinstance(e, ast.Constant):
            return {type(e.value).__name__}
        return {'?'}

    @staticmethod
    def _elem(ts: T.Set[str]) -> T.Set[str]:
        out = set()
        for t in ts:
            if t.startswith('list['):
                out.add(t[5:-1])
            elif t.startswith('dict['):
                out.add(t[5:-1].split(',')[0])
            else:
                out.add('?')
        return out

    def _self_attr(self, attr: str) -> str:
        if self.cls is None:
            return '?'
        for m, c in self.repo.mro(self.mod, self.cls):
            for st in c.body:
                if isinstance(st, ast.AnnAssign) and isinstance(st.target, ast.Name) and st.target.id == attr:
                    return self.model.parse_ann(st.annotation)
                if isinstance(st, ast.FunctionDef):
                    for n in ast.walk(st):
                        if isinstance(n, ast.AnnAssign) and attr_chain(n.target) == f'self.{attr}':
                            return self.model.parse_ann(n.annotation)
        return '?'


class Write(T.NamedTuple):
    stmt: ast.stmt            # the statement that performs the write
    node: ast.AST             # the Assign target / the mutator Call
    kind: str                 # 'assign' | 'aug' | 'del' | 'mutate:<method>' | 'setattr'
    obj: T.Optional[ast.AST]  # object whose field is written (None for a plain local)
    attr: str                 # field name ('' for subscript stores on a local)
    value: T.Optional[ast.AST]


def _stmt_map(fn: ast.AST) -> T.Dict[int, ast.stmt]:
    out: T.Dict[int, ast.stmt] = {}

    def rec(n: ast.AST, cur: T.Optional[ast.stmt]) -> None:
        if isinstance(n, ast.stmt):
            cur = n
        if cur is not None:
            out[id(n)] = cur
        for ch in ast.iter_child_nodes(n):
            rec(ch, cur)
    rec(fn, None)
    return out


def collect_writes(fn: ast.AST) -> T.List[Write]:
    """Every store through an attribute/subscript and every mutator call in fn (nested functions included)."""
    smap = _stmt_map(fn)
    out: T.List[Write] = []

    def target(t: ast.AST, st: ast.stmt, kind: str, value: T.Optional[ast.AST]) -> None:
        if isinstance(t, (ast.Tuple, ast.List)):
            for x in t.elts:
                target(x, st, kind, None)
        elif isinstance(t, ast.Starred):
            target(t.value, st, kind, None)
        elif isinstance(t, ast.Attribute):
            out.append(Write(st, t, kind, t.value, t.attr, value))
        elif isinstance(t, ast.Subscript):
            # X[i] = v  mutates X
            base = t.value
            if isinstance(base, ast.Attribute):
                out.append(Write(st, t, 'mutate:__setitem__' if kind != 'del' else 'mutate:__delitem__', base.value, base.attr, value))
            else:
                out.append(Write(st, t, 'mutate:__setitem__' if kind != 'del' else 'mutate:__delitem__', None, norm(base), value))

    for n in ast.walk(fn):
        if isinstance(n, ast.Assign):
            for t in n.targets:
                target(t, n, 'assign', n.value)
        elif isinstance(n, ast.AnnAssign) and n.value is not None:
            target(n.target, n, 'assign', n.value)
        elif isinstance(n, ast.AugAssign):
            target(n.target, n, 'aug', n.value)
        elif isinstance(n, ast.Delete):
            for t in n.targets:
                target(t, n, 'del', None)
        elif isinstance(n, ast.Call):
            f = n.func
            if isinstance(f, ast.Attribute) and f.attr in MUTATORS:
                st = smap.get(id(n))
                if st is None:
                    continue
                r = f.value
                if isinstance(r, ast.Attribute):
                    out.append(Write(st, n, 'mutate:' + f.attr, r.value, r.attr, None))
                elif isinstance(r, ast.Name):
                    out.append(Write(st, n, 'mutate:' + f.attr, None, r.id, None))
                elif isinstance(r, ast.Subscript):
                    out.append(Write(st, n, 'mutate:' + f.attr, r, '[]', None))
            elif isinstance(f, ast.Name) and f.id in ('setattr', 'delattr'):
                st = smap.get(id(n))
                if st is not None:
                    out.append(Write(st, n, 'setattr', n.args[0] if n.args else None, '*', None))
    out.sort(key=lambda w: (getattr(w.node, 'lineno', 0), getattr(w.node, 'col_offset', 0)))
    return out


def root_name(e: T.Optional[ast.AST]) -> T.Optional[str]:
    while isinstance(e, (ast.Attribute, ast.Subscript)):
        e = e.value
    if isinstance(e, ast.Name):
        return e.id
    if isinstance(e, ast.Call):
        return root_name(e.func)
    return None
