"""C06 helper: set-typedness of expressions from annotations / constructors (DESIGN B.5, first half),
name/callee resolution for the order-determinism rule.  Pure ast, nothing of /repo is imported."""
from __future__ import annotations

import ast
import typing as T

from ..core import Module, Repo, attr_chain, walk_no_nested, norm

SET_NAMES = {'Set', 'FrozenSet', 'AbstractSet', 'MutableSet', 'set', 'frozenset'}
ORDERED_NAMES = {
    'List', 'list', 'Dict', 'dict', 'OrderedSet', 'OrderedDict', 'Tuple', 'tuple', 'Sequence', 'MutableSequence', 'Deque',
    'deque', 'DefaultDict', 'defaultdict', 'Mapping', 'MutableMapping', 'str', 'bytes', 'int', 'bool', 'float',
    'ImmutableListProtocol', 'KeysView', 'ValuesView', 'ItemsView', 'Counter', 'CompilerArgs', 'ChainMap',
}
MAPPING_NAMES = {'Dict', 'dict', 'OrderedDict', 'DefaultDict', 'defaultdict', 'Mapping', 'MutableMapping', 'ChainMap'}
SET_RETURNING_METHODS = {'copy', 'union', 'intersection', 'difference', 'symmetric_difference'}
SET_OPS = (ast.BitOr, ast.BitAnd, ast.Sub, ast.BitXor)


class Ty(T.NamedTuple):
    kind: str                          # 'set' | 'ordered' | 'unknown' | 'ambiguous'
    ann: T.Optional[ast.AST] = None    # annotation the kind was derived from (element types for R5)
    mod: T.Optional[Module] = None     # module in which `ann` is to be resolved
    why: str = ''


UNKNOWN = Ty('unknown')


_ANN_CACHE: T.Dict[str, T.Optional[ast.AST]] = {}


def ann_node(a: T.Optional[ast.AST]) -> T.Optional[ast.AST]:
    if isinstance(a, ast.Constant) and isinstance(a.value, str):
        v = a.value
        if v not in _ANN_CACHE:
            try:
                _ANN_CACHE[v] = ast.parse(v, mode='eval').body
            except SyntaxError:
                _ANN_CACHE[v] = None
        return _ANN_CACHE[v]
    return a


def base_name(n: T.Optional[ast.AST]) -> str:
    n = ann_node(n)
    if isinstance(n, ast.Subscript):
        return base_name(n.value)
    if isinstance(n, ast.Attribute):
        return n.attr
    if isinstance(n, ast.Name):
        return n.id
    return ''


def sub_args(n: T.Optional[ast.AST]) -> T.List[ast.AST]:
    n = ann_node(n)
    if isinstance(n, ast.Subscript):
        s = n.slice
        return list(s.elts) if isinstance(s, ast.Tuple) else [s]
    return []


def star_imports(mod: Module) -> T.List[str]:
    cached = getattr(mod, '_c06_star', None)
    if cached is not None:
        return cached   # type: ignore[no-any-return]
    out = _star_imports(mod)
    mod._c06_star = out   # type: ignore[attr-defined]
    return out


def _star_imports(mod: Module) -> T.List[str]:
    out = []
    pkg = mod.rel[:-3].replace('/', '.').split('.')
    base = pkg[:-1] if pkg[-1] != '__init__' else pkg[:-1]
    for st in ast.walk(mod.tree):
        if isinstance(st, ast.ImportFrom) and any(a.name == '*' for a in st.names):
            if st.level:
                b = base[:len(base) - (st.level - 1)]
                out.append('.'.join(b + ([st.module] if st.module else [])))
            else:
                out.append(st.module or '')
    return out


def defined_in(mod: Module, name: str) -> bool:
    return mod.has_cls(name) or mod.has_func(name) or mod.has_assign(name) or _has_annassign(mod, name)


def _has_annassign(mod: Module, name: str) -> bool:
    for st in mod.tree.body:
        if isinstance(st, ast.AnnAssign) and isinstance(st.target, ast.Name) and st.target.id == name:
            return True
    return False


def _stmts(body: T.List[ast.stmt]) -> T.Iterator[ast.stmt]:
    """All statements, descending statement bodies only (imports are statements)."""
    stack = list(reversed(body))
    while stack:
        st = stack.pop()
        yield st
        for field in ('body', 'orelse', 'finalbody'):
            sub = getattr(st, field, None)
            if isinstance(sub, list):
                stack.extend(reversed(sub))
        for h in getattr(st, 'handlers', ()):
            stack.extend(reversed(h.body))


def fast_imports(mod: Module) -> T.Dict[str, str]:
    """Same table as Module.imports() (local name -> dotted origin), without walking expressions."""
    out: T.Dict[str, str] = {}
    pkg = mod.rel[:-3].replace('/', '.').split('.')
    base = pkg[:-1]
    stars: T.List[str] = []
    for st in _stmts(mod.tree.body):
        if isinstance(st, ast.Import):
            for a in st.names:
                out[a.asname or a.name.split('.')[0]] = a.name if a.asname else a.name.split('.')[0]
        elif isinstance(st, ast.ImportFrom):
            if st.level:
                b = base[:len(base) - (st.level - 1)]
                m = '.'.join(b + ([st.module] if st.module else []))
            else:
                m = st.module or ''
            for a in st.names:
                if a.name == '*':
                    stars.append(m)
                out[a.asname or a.name] = f'{m}.{a.name}'
    mod._c06_star = stars   # type: ignore[attr-defined]
    return out


def _memoise_imports(repo: Repo) -> None:
    """Engine work-around: Module.imports() re-walks the whole tree on every call (resolve_class calls it in a loop);
    memoise it per Module instance of *this* Repo object."""
    if getattr(repo, '_c06_memo', False):
        return
    orig = repo.module

    def module(rel: str) -> Module:
        m = orig(rel)
        if not getattr(m, '_c06_imps', False):
            cached = fast_imports(m)
            m.imports = lambda c=cached: c   # type: ignore[method-assign]
            m._c06_imps = True               # type: ignore[attr-defined]
        return m
    repo.module = module      # type: ignore[method-assign]
    repo._c06_memo = True     # type: ignore[attr-defined]
    orig_dotted = repo.module_by_dotted

    def module_by_dotted(dotted: str) -> T.Optional[Module]:
        allowed = getattr(repo, '_c06_allowed', None)
        if allowed is not None:
            rel = dotted.replace('.', '/')
            if rel + '.py' not in allowed and not repo.exists(rel + '/__init__.py'):
                return None
        return orig_dotted(dotted)
    repo.module_by_dotted = module_by_dotted   # type: ignore[method-assign]


class Resolver:
    """Name, class, attribute and callee resolution over a set of indexed modules."""

    def __init__(self, repo: Repo, index_modules: T.Sequence[str], closed: bool = True):
        """closed: classes / functions are resolved only inside the indexed modules (and package __init__ re-exports);
        anything defined elsewhere stays unresolved (-> information), which keeps the quick tier from parsing the whole package."""
        self.repo = repo
        _memoise_imports(repo)
        prev = getattr(repo, '_c06_allowed', None)
        repo._c06_allowed = ((prev or set()) | set(index_modules) | {'mesonbuild/mesonlib.py'}) if closed else None   # type: ignore[attr-defined]
        self.index = [repo.module(m) for m in index_modules if repo.exists(m)]
        self._attr_tables: T.Dict[int, T.Dict[str, Ty]] = {}
        self.ctor_calls: T.Dict[int, T.Dict[str, str]] = {}
        self._cls_memo: T.Dict[T.Tuple[str, str], T.Any] = {}
        self._iter_memo: T.Dict[str, T.Optional[str]] = {}
        self._glob_memo: T.Dict[T.Tuple[str, str], T.Optional[T.Tuple[Module, str]]] = {}
        self._gty_memo: T.Dict[T.Tuple[str, str], Ty] = {}
        self._attr_by_name: T.Optional[T.Dict[str, T.List[Ty]]] = None
        self._meth_by_name: T.Optional[T.Dict[str, T.List[T.Tuple[Module, ast.ClassDef, ast.FunctionDef]]]] = None
        self._cls_of_fn: T.Dict[int, T.Tuple[Module, T.Optional[ast.ClassDef]]] = {}
        self.unresolved = 0
        self.resolved = 0

    # -- one traversal per module: nodes owned by each function + parent map ----------
    def own_nodes(self, mod: Module, fn: ast.AST) -> T.List[ast.AST]:
        """Nodes of fn's body that are not inside a nested def / lambda / class (the nested definition node itself is listed)."""
        tab = getattr(mod, '_c06_own', None)
        if tab is None:
            tab = {}
            parents: T.Dict[ast.AST, ast.AST] = {}
            stack: T.List[T.Tuple[ast.AST, T.Optional[T.List[ast.AST]]]] = [(mod.tree, None)]
            FD = (ast.FunctionDef, ast.AsyncFunctionDef)
            while stack:
                node, lst = stack.pop()
                if isinstance(node, FD):
                    # body -> the function's own list; decorators, defaults, annotations -> the enclosing scope (lst)
                    mine: T.List[ast.AST] = []
                    tab[id(node)] = mine
                    body = set(map(id, node.body))
                    children = [(ch, mine if id(ch) in body else lst) for ch in ast.iter_child_nodes(node)]
                elif isinstance(node, (ast.Lambda, ast.ClassDef)):
                    children = [(ch, None) for ch in ast.iter_child_nodes(node)]
                else:
                    children = [(ch, lst) for ch in ast.iter_child_nodes(node)]
                for ch, l2 in children:
                    parents[ch] = node
                    if l2 is not None:
                        l2.append(ch)
                    stack.append((ch, l2))
            mod._c06_own = tab          # type: ignore[attr-defined]
            if mod._parents is None:
                mod._parents = parents  # same content as Module.parent_map() builds
        return tab.get(id(fn), [])      # type: ignore[no-any-return]

    # -- globals -------------------------------------------------------
    def resolve_global(self, mod: Module, name: str, depth: int = 0) -> T.Optional[T.Tuple[Module, str]]:
        key = (mod.rel, name)
        if key in self._glob_memo:
            return self._glob_memo[key]
        r = self._resolve_global(mod, name, depth)
        self._glob_memo[key] = r
        return r

    def _resolve_global(self, mod: Module, name: str, depth: int = 0) -> T.Optional[T.Tuple[Module, str]]:
        if depth > 8:
            return None
        if defined_in(mod, name):
            return mod, name
        imps = mod.imports()
        if name in imps and imps[name].split('.')[-1] != '*':
            origin = imps[name].split('.')
            m2 = self.repo.module_by_dotted('.'.join(origin[:-1]))
            if m2 is not None and m2 is not mod:
                r = self.resolve_global(m2, origin[-1], depth + 1)
                if r is not None:
                    return r
        for dotted in star_imports(mod):
            m2 = self.repo.module_by_dotted(dotted)
            if m2 is not None and m2 is not mod:
                r = self.resolve_global(m2, name, depth + 1)
                if r is not None:
                    return r
        return None

    def module_alias(self, mod: Module, name: str) -> T.Optional[Module]:
        imps = mod.imports()
        if name in imps:
            return self.repo.module_by_dotted(imps[name])
        return None

    def global_ty(self, mod: Module, name: str) -> Ty:
        key = (mod.rel, name)
        if key not in self._gty_memo:
            self._gty_memo[key] = self._global_ty(mod, name)
        return self._gty_memo[key]

    def _global_ty(self, mod: Module, name: str) -> Ty:
        r = self.resolve_global(mod, name)
        if r is None:
            return UNKNOWN
        m, n = r
        for st in m.tree.body:
            if isinstance(st, ast.AnnAssign) and isinstance(st.target, ast.Name) and st.target.id == n:
                return self.ann_ty(st.annotation, m, f'module variable {m.rel}:{n} annotated {norm(st.annotation)}')
        if m.has_assign(n):
            return self.ctor_ty(m.assign_value(n), m, f'module variable {m.rel}:{n}')
        return UNKNOWN

    # -- annotations -----------------------------------------------------
    def ann_ty(self, ann: T.Optional[ast.AST], mod: Module, why: str = '', depth: int = 0) -> Ty:
        a = ann_node(ann)
        if a is None or depth > 6:
            return UNKNOWN
        if isinstance(a, ast.Constant) and a.value is None:
            return Ty('ordered', a, mod, why)
        if isinstance(a, ast.BinOp) and isinstance(a.op, ast.BitOr):
            return self._union([a.left, a.right], a, mod, why, depth)
        b = base_name(a)
        if b == 'Optional':
            return self._union(sub_args(a), a, mod, why, depth)
        if b == 'Union':
            return self._union(sub_args(a), a, mod, why, depth)
        if b in SET_NAMES:
            return Ty('set', a, mod, why or f'annotated {norm(a)}')
        if b in ORDERED_NAMES:
            return Ty('ordered', a, mod, why)
        if b in ('Iterable', 'Iterator', 'Collection', 'Container', 'Any', 'object', 'Generator', ''):
            return Ty('unknown', a, mod, why)
        # alias or class
        if isinstance(a, (ast.Name, ast.Attribute)):
            chain = attr_chain(a) or ''
            head, _, tail = chain.partition('.')
            m2: T.Optional[Module] = mod
            name = chain
            if tail:
                m2 = self.module_alias(mod, head)
                name = tail
            if m2 is not None and '.' not in name:
                r = self.resolve_global(m2, name)
                if r is not None:
                    m3, n3 = r
                    if m3.has_cls(n3):
                        return Ty('ordered', a, mod, why)   # an instance of a repository class is not a builtin set
                    if m3.has_assign(n3):
                        v = m3.assign_value(n3)
                        if isinstance(ann_node(v), (ast.Subscript, ast.Attribute, ast.Name, ast.BinOp)):
                            return self.ann_ty(v, m3, why, depth + 1)
        return Ty('unknown', a, mod, why)

    def _union(self, members: T.List[ast.AST], a: ast.AST, mod: Module, why: str, depth: int) -> Ty:
        kinds = []
        first_set: T.Optional[Ty] = None
        for m in members:
            mm = ann_node(m)
            if isinstance(mm, ast.Constant) and mm.value is None:
                continue
            t = self.ann_ty(mm, mod, why, depth + 1)
            kinds.append(t.kind)
            if t.kind == 'set' and first_set is None:
                first_set = t
        if kinds and all(k == 'set' for k in kinds):
            assert first_set is not None
            return first_set
        if any(k in ('set', 'ambiguous') for k in kinds):
            return Ty('ambiguous', a, mod, why)
        if kinds and all(k == 'ordered' for k in kinds):
            return Ty('ordered', a, mod, why)
        return Ty('unknown', a, mod, why)

    def ctor_ty(self, v: ast.AST, mod: Module, why: str = '') -> Ty:
        """Kind of a value from its construction alone (no local context)."""
        if isinstance(v, (ast.Set, ast.SetComp)):
            return Ty('set', None, mod, why + ' built by a set display')
        if isinstance(v, (ast.List, ast.ListComp, ast.Dict, ast.DictComp, ast.Tuple, ast.Constant, ast.JoinedStr)):
            return Ty('ordered', None, mod, why)
        if isinstance(v, ast.Call):
            n = attr_chain(v.func) or ''
            last = n.split('.')[-1]
            if n in ('set', 'frozenset'):
                return Ty('set', None, mod, why + f' built by {n}()')
            if last in ORDERED_NAMES or last in ('sorted', 'field'):
                if last == 'field':
                    for k in v.keywords:
                        if k.arg == 'default_factory':
                            fn = attr_chain(k.value) or ''
                            if fn in ('set', 'frozenset'):
                                return Ty('set', None, mod, why + ' default_factory=set')
                    return UNKNOWN
                return Ty('ordered', None, mod, why)
        return UNKNOWN

    # -- classes -----------------------------------------------------------
    def resolve_cls(self, mod: Module, dotted: str) -> T.Optional[T.Tuple[Module, ast.ClassDef]]:
        """Repo.resolve_class plus star imports and re-exporting modules (engine gap: `from x import *` is not followed)."""
        key = (mod.rel, dotted)
        if key in self._cls_memo:
            return self._cls_memo[key]
        r = self.repo.resolve_class(mod, dotted)
        if r is None:
            head, _, tail = dotted.partition('.')
            m2: T.Optional[Module] = mod
            name = dotted
            if tail:
                m2 = self.module_alias(mod, head)
                name = tail
            if m2 is not None and '.' not in name:
                g = self.resolve_global(m2, name)
                if g is not None and g[0].has_cls(g[1]):
                    r = (g[0], g[0].cls(g[1]))
        self._cls_memo[key] = r
        return r

    def class_by_ann(self, ann: T.Optional[ast.AST], mod: Module) -> T.Optional[T.Tuple[Module, ast.ClassDef]]:
        a = ann_node(ann)
        if a is None:
            return None
        b = base_name(a)
        if b == 'Optional':
            args = sub_args(a)
            return self.class_by_ann(args[0], mod) if args else None
        if b == 'Union':
            cands = [self.class_by_ann(x, mod) for x in sub_args(a)]
            cands = [c for c in cands if c is not None]
            return cands[0] if len(cands) == 1 else None
        if isinstance(a, ast.Subscript):
            return None
        chain = attr_chain(a)
        if not chain:
            return None
        return self.resolve_cls(mod, chain)

    def attr_table(self, mod: Module, cls: ast.ClassDef) -> T.Dict[str, Ty]:
        key = id(cls)
        if key in self._attr_tables:
            return self._attr_tables[key]
        anns: T.Dict[str, Ty] = {}
        ctors: T.Dict[str, T.List[Ty]] = {}
        where = f'{mod.rel}:{cls.name}'
        for st in cls.body:
            if isinstance(st, ast.AnnAssign) and isinstance(st.target, ast.Name):
                anns.setdefault(st.target.id, self.ann_ty(st.annotation, mod, f'{where}.{st.target.id} annotated {norm(st.annotation)}'))
            elif isinstance(st, ast.Assign):
                for t in st.targets:
                    if isinstance(t, ast.Name):
                        ctors.setdefault(t.id, []).append(self.ctor_ty(st.value, mod, f'{where}.{t.id}'))
            elif isinstance(st, (ast.FunctionDef, ast.AsyncFunctionDef)):
                params = {a.arg: a.annotation for a in st.args.posonlyargs + st.args.args + st.args.kwonlyargs}
                for n in (self.own_nodes(mod, st) if getattr(mod, '_c06_own', None) is not None or mod in self.index else walk_no_nested(st)):
                    if isinstance(n, ast.AnnAssign) and isinstance(n.target, ast.Attribute) and attr_chain(n.target.value) == 'self':
                        anns.setdefault(n.target.attr, self.ann_ty(n.annotation, mod, f'{where}.{n.target.attr} annotated {norm(n.annotation)}'))
                    elif isinstance(n, ast.Assign):
                        for t in n.targets:
                            if isinstance(t, ast.Attribute) and attr_chain(t.value) == 'self':
                                v = n.value
                                if isinstance(v, ast.Call) and attr_chain(v.func):
                                    self.ctor_calls.setdefault(key, {}).setdefault(t.attr, attr_chain(v.func) or '')
                                ty = self.ctor_ty(v, mod, f'{where}.{t.attr}')
                                if ty.kind == 'unknown' and isinstance(v, ast.Name) and params.get(v.id) is not None:
                                    ty = self.ann_ty(params[v.id], mod, f'{where}.{t.attr} = parameter {v.id}: {norm(params[v.id])}')
                                ctors.setdefault(t.attr, []).append(ty)
        tab: T.Dict[str, Ty] = dict(anns)
        for name, tys in ctors.items():
            if name in tab:
                continue
            kinds = {t.kind for t in tys}
            if kinds == {'set'}:
                tab[name] = tys[0]
            elif 'set' in kinds or 'ambiguous' in kinds:
                tab[name] = Ty('ambiguous', None, mod, f'{where}.{name} has set and non-set definitions')
            elif kinds == {'ordered'}:
                tab[name] = tys[0]
        self._attr_tables[key] = tab
        return tab

    def class_attr_ty(self, mod: Module, cls: ast.ClassDef, attr: str) -> T.Optional[Ty]:
        for m, c in self.repo.mro(mod, cls):
            t = self.attr_table(m, c).get(attr)
            if t is not None:
                return t
        return None

    def attr_by_name(self, attr: str) -> T.List[Ty]:
        if self._attr_by_name is None:
            tab: T.Dict[str, T.List[Ty]] = {}
            for m in self.index:
                for q, c in m.classes().items():
                    for a, t in self.attr_table(m, c).items():
                        tab.setdefault(a, []).append(t)
            self._attr_by_name = tab
        return self._attr_by_name.get(attr, [])

    def attr_iterated(self, attr: str) -> T.Optional[str]:
        """Is a container attribute `.attr` iterated / serialised anywhere in the indexed modules?  (A keyed insertion into a dict
        is order-relevant only if the dict is iterated later - DESIGN B.5.)  Returns a location text or None."""
        if attr in self._iter_memo:
            return self._iter_memo[attr]
        import re
        pat = re.compile(r'\.' + re.escape(attr) + r'\b')
        hit: T.Optional[str] = None
        for m in self.index:
            if not pat.search(m.src):      # cheap pre-filter only; the decision is made on the AST below
                continue
            for n in ast.walk(m.tree):
                it: T.Optional[ast.AST] = None
                if isinstance(n, (ast.For, ast.AsyncFor, ast.comprehension)):
                    it = n.iter
                elif isinstance(n, ast.Call) and isinstance(n.func, ast.Name) and n.func.id in ('list', 'tuple', 'sorted', 'iter', 'enumerate', 'zip') and n.args:
                    it = n.args[0]
                elif isinstance(n, ast.Call) and isinstance(n.func, ast.Attribute) and n.func.attr in ('join', 'extend', 'update', 'dump', 'dumps') and n.args:
                    it = n.args[-1] if n.func.attr in ('join', 'extend', 'update') else n.args[0]
                elif isinstance(n, ast.Return) and n.value is not None:
                    it = n.value        # handed out: callers may iterate it
                elif isinstance(n, ast.Starred):
                    it = n.value
                if it is None:
                    continue
                if isinstance(it, ast.Call) and isinstance(it.func, ast.Attribute) and it.func.attr in ('items', 'keys', 'values', 'copy'):
                    it = it.func.value
                if isinstance(it, ast.Attribute) and it.attr == attr:
                    hit = f'{m.rel}:{getattr(n, "lineno", getattr(it, "lineno", 0))}'
                    break
            if hit:
                break
        self._iter_memo[attr] = hit
        return hit

    def methods_by_name(self, name: str) -> T.List[T.Tuple[Module, ast.ClassDef, ast.FunctionDef]]:
        if self._meth_by_name is None:
            tab: T.Dict[str, T.List[T.Tuple[Module, ast.ClassDef, ast.FunctionDef]]] = {}
            for m in self.index:
                for q, c in m.classes().items():
                    for st in c.body:
                        if isinstance(st, (ast.FunctionDef, ast.AsyncFunctionDef)):
                            tab.setdefault(st.name, []).append((m, c, st))  # type: ignore[arg-type]
            self._meth_by_name = tab
        return self._meth_by_name.get(name, [])


def is_abstract_stub(fn: ast.AST) -> bool:
    body = [s for s in getattr(fn, 'body', []) if not (isinstance(s, ast.Expr) and isinstance(s.value, ast.Constant))]
    if not body:
        return True
    if len(body) == 1:
        s = body[0]
        if isinstance(s, ast.Pass):
            return True
        if isinstance(s, ast.Raise):
            return True
        if isinstance(s, ast.Expr) and isinstance(s.value, ast.Constant):
            return True
    return False
