"""C02.R3 - the full-fidelity visitor/printer replays every field of every node the parser builds (K8 + K5)."""
from __future__ import annotations

import ast
import typing as T

from ..core import Undecided, attr_chain, norm, short, walk_no_nested, call_method, names_in
from ..paths import enumerate_paths, Path
from ..consteval import fold_expr
from ..report import RuleCtx
from .c02_model import NodeModel, MPARSER, VISITOR, PRINTER, params_of, unroll_tables, inline_self_calls, desugar_with, emission, chunk_buffers, class_callables

# Reference (DESIGN A.5, read from Parser.args/key_values): in an argument list every positional argument is followed by its
# comma; then every keyword entry is key, colon, value followed by its comma.  All other classes: declaration (= textual) order.
INTERLEAVED = {'ArgumentNode': ['arguments', 'commas', 'kwargs', 'colons', 'kwargs', 'commas']}
# Node classes that exist only under MESON_RUNNING_IN_PROJECT_TESTS (verified below: every construction is behind that guard)
TEST_ONLY_GUARD = 'self.lexer.in_unit_test'


class Visitors:
    def __init__(self, repo: T.Any, leaf: str = 'RawPrinter'):
        self.repo = repo
        self.pm = repo.module(PRINTER)
        self.vm = repo.module(VISITOR)
        self.chain: T.List[T.Tuple[T.Any, ast.ClassDef]] = []
        self._callables: T.Dict[str, T.Dict[str, ast.FunctionDef]] = {}
        mod, name = self.pm, leaf
        for _ in range(6):
            c = mod.cls(name)
            self.chain.append((mod, c))
            bases = [attr_chain(b) for b in c.bases if attr_chain(b)]
            if not bases:
                break
            if len(bases) != 1:
                raise Undecided(f'{name}: multiple bases')
            b = bases[0]
            if mod.has_cls(b):
                name = b
            elif self.vm.has_cls(b):
                mod, name = self.vm, b
            else:
                break

    def resolve(self, meth: str) -> T.Optional[T.Tuple[T.Any, str, ast.FunctionDef]]:
        def find_class(n: str) -> T.Optional[ast.ClassDef]:
            return self.pm.cls(n) if self.pm.has_cls(n) else self.vm.cls(n) if self.vm.has_cls(n) else None
        def find_func(n: str) -> T.Optional[ast.FunctionDef]:
            for m in (self.pm, self.vm):
                if m.has_func(n):
                    return m.func(n)      # type: ignore[return-value]
            return None
        for mod, c in self.chain:
            if c.name not in self._callables:
                self._callables[c.name] = class_callables(c, find_class, 0, find_func)
            st = self._callables[c.name].get(meth)
            if st is not None:
                return mod, f'{c.name}.{meth}', st
            if meth in self._callables[c.name].unread:
                b = next(x for x in c.body if isinstance(x, ast.Assign) and any(isinstance(t, ast.Name) and t.id == meth for t in x.targets))
                raise Undecided(f'{c.name}.{meth} is bound at class level to `{short(b.value, 80)}`, a shape that is not read as a method')
        return None

    def resolve_visit(self, cls: str) -> T.Optional[T.Tuple[T.Any, str, ast.FunctionDef, T.List[str]]]:
        via: T.List[str] = []
        meth = f'visit_{cls}'
        for _ in range(6):
            r = self.resolve(meth)
            if r is None:
                return None
            mod, qn, fn = r
            body = [s for s in fn.body if not (isinstance(s, ast.Expr) and isinstance(s.value, ast.Constant))]
            if len(body) == 1 and isinstance(body[0], ast.Expr) and isinstance(body[0].value, ast.Call):
                c = body[0].value
                ch = attr_chain(c.func) or ''
                if ch.startswith('self.visit_') and len(c.args) == 1 and norm(c.args[0]) == params_of(fn)[1]:
                    via.append(qn)
                    meth = ch[5:]
                    continue
            return mod, qn, fn, via
        raise Undecided(f'visit_{cls}: delegation chain too long')


def _inlined(vis: 'Visitors', fn: ast.FunctionDef) -> ast.FunctionDef:
    def lookup(name: str) -> T.Optional[ast.FunctionDef]:
        r = vis.resolve(name)
        return r[2] if r else None
    def klass(name: str) -> T.Optional[ast.ClassDef]:
        for m in (vis.pm, vis.vm):
            if m.has_cls(name):
                return m.cls(name)
        return None
    fn = desugar_with(fn, lookup, klass)     # `with self._entered(node): ...` -> enter statements; body; exit statements
    return inline_self_calls(fn, lookup, lambda n: n in ('enter_node', 'exit_node') or n.startswith('visit_'))


def constructed_classes(model: NodeModel) -> T.Set[str]:
    out: T.Set[str] = set()
    scopes = [model.mod.cls('Parser')] + list(model.classes.values())   # tree builders: the parser and the node classes themselves
    for c in (x for sc in scopes for x in ast.walk(sc)):
        if isinstance(c, ast.Call):
            if isinstance(c.func, ast.Name) and c.func.id in model.classes:
                out.add(c.func.id)
            elif isinstance(c.func, ast.Attribute) and c.args and isinstance(c.args[0], ast.Name) and c.args[0].id in model.classes \
                    and attr_chain(c.func) and attr_chain(c.func).startswith('self.'):  # type: ignore[union-attr]
                out.add(c.args[0].id)
    # a class selected from a module-level constant table that a tree builder looks up (`self.create_node(TABLE[k], ...)`, also through
    # a record field or an unpacked row): every class named in the rows of that table counts as built
    for sub in (x for sc in scopes for x in ast.walk(sc)):
        if isinstance(sub, ast.Subscript) and isinstance(sub.value, ast.Name) and isinstance(sub.ctx, ast.Load) and model.mod.has_assign(sub.value.id):
            tv = model.mod.assign_value(sub.value.id)
            if isinstance(tv, ast.Dict):
                out |= {n.id for v in tv.values for n in ast.walk(v) if isinstance(n, ast.Name) and n.id in model.classes}
    return out


def _field_map(fn: ast.FunctionDef, node: str, fields: T.Set[str]) -> T.Dict[str, str]:
    env: T.Dict[str, str] = {}

    def field_of(e: ast.AST) -> T.Optional[str]:
        while isinstance(e, (ast.Call, ast.Subscript)):
            if isinstance(e, ast.Subscript):      # an element / a slice of a list field
                e = e.value
                continue
            m = call_method(e)
            if m == 'getattr' and len(e.args) == 2 and isinstance(e.args[0], ast.Name) and e.args[0].id == node \
                    and isinstance(e.args[1], ast.Constant) and e.args[1].value in fields:
                return e.args[1].value
            if m in ('iter', 'next', 'reversed', 'list', 'tuple', 'enumerate') and e.args:
                e = e.args[0]
            elif m in ('items', 'values', 'keys') and isinstance(e.func, ast.Attribute):
                e = e.func.value
            else:
                return None
        if isinstance(e, ast.Attribute) and isinstance(e.value, ast.Name) and e.value.id == node and e.attr in fields:
            return e.attr
        if isinstance(e, ast.Name):
            return env.get(e.id)
        return None

    def bind(t: ast.AST, src: ast.AST) -> None:
        if isinstance(t, (ast.Tuple, ast.List)) and isinstance(src, ast.Call) and call_method(src) == 'enumerate' and len(t.elts) == 2 and src.args:
            bind(t.elts[1], src.args[0])      # (index, element)
            return
        if isinstance(t, (ast.Tuple, ast.List)) and isinstance(src, ast.Call) and call_method(src) in ('zip', 'zip_longest') and len(src.args) == len(t.elts):
            for a, b in zip(t.elts, src.args):
                bind(a, b)
            return
        f = field_of(src)
        if f is not None:
            for n in ast.walk(t):
                if isinstance(n, ast.Name):
                    env[n.id] = f
    for _ in range(2):
        for st in ast.walk(fn):
            if isinstance(st, ast.For):
                bind(st.target, st.iter)
            elif isinstance(st, ast.Assign) and len(st.targets) == 1:
                bind(st.targets[0], st.value)
    env['__field_of__'] = ''  # marker
    _field_map.field_of = field_of  # type: ignore[attr-defined]
    return env


def _accepts_on(p: Path, fn: ast.FunctionDef, node: str, fields: T.Set[str]) -> T.List[str]:
    _field_map(fn, node, fields)
    field_of = _field_map.field_of  # type: ignore[attr-defined]
    seq: T.List[str] = []
    for c in p.calls():
        if call_method(c) == 'accept' and isinstance(c.func, ast.Attribute) and len(c.args) == 1 and norm(c.args[0]) == 'self':
            f = field_of(c.func.value)
            if f is None:
                raise Undecided(f'{fn.name}: cannot attribute `{short(c)}` to a field of the node')
            seq.append(f)
    return seq


def check_replay(ctx: RuleCtx, model: NodeModel) -> None:
    vis = Visitors(ctx.repo)
    built = constructed_classes(model)
    ctx.floor('node classes built by mparser', len(built), 28)
    parser = model.mod
    # the replay of a node ends with its own whitespace
    ex = vis.resolve('exit_node')
    if ex is None:
        raise Undecided('exit_node not found in the RawPrinter hierarchy')
    emod, eqn, efn = ex
    en = params_of(efn)[1]
    edefs = _single_defs(efn)

    def is_ws(e: ast.AST) -> bool:
        if isinstance(e, ast.Name) and e.id in edefs:
            e = edefs[e.id]
        return norm(e) == f'{en}.whitespaces' or (isinstance(e, ast.Call) and call_method(e) == 'getattr' and len(e.args) >= 2
                                                  and norm(e.args[0]) == en and norm(e.args[1]) == "'whitespaces'")
    aliases = {n for n, v in edefs.items() if is_ws(v)} | {'whitespaces'}
    silent_paths = []
    for p in enumerate_paths(efn.body, unroll=1):
        if p.outcome == 'raise':
            continue
        visits = any(call_method(c) == 'accept' and isinstance(c.func, ast.Attribute) and is_ws(c.func.value) for c in p.calls())
        tested = any(e.kind == 'cond' and any(a in norm(e.node) for a in aliases) for e in p.events)
        if not visits and not tested:
            silent_paths.append(p)
    calls_other = [c for c in walk_no_nested(efn) if isinstance(c, ast.Call) and (attr_chain(c.func) or '').startswith('self.')]
    if silent_paths and calls_other:
        raise Undecided(f'{eqn}: delegates to `{short(calls_other[0])}`; whether node.whitespaces is replayed there is not followed')
    ctx.require(not silent_paths, f'{eqn} replays node.whitespaces when present', emod, eqn, efn,
                f'on the path `{silent_paths[0].describe() if silent_paths else ""}` exit_node neither visits node.whitespaces nor tests it: '
                'trailing whitespace/comments of every node would not be printed')
    n_cls = 0
    for cls in sorted(built):
        fields = model.node_fields(cls)
        if not fields:
            continue
        n_cls += 1
        r = vis.resolve_visit(cls)
        if r is None:
            _missing_visitor(ctx, model, cls)
            continue
        vmod, qn, fn, via = r
        fn = unroll_tables(_inlined(vis, fn), vmod)     # helpers inlined; `for f in ('a', 'b'): getattr(node, f).accept(self)` is one visit per declared name
        node = params_of(fn)[1]
        fset = {f for f, _ in fields}
        kinds = dict(fields)
        want = INTERLEAVED.get(cls, [f for f, _ in fields])
        paths = [p for p in enumerate_paths(fn.body, unroll=1) if p.outcome != 'raise']
        seqs = [(_accepts_on(p, fn, node, fset), p) for p in paths]
        full = max(seqs, key=lambda x: len(x[0]))[0]
        opaque = [c for c in walk_no_nested(fn) if isinstance(c, ast.Call) and (
            ((attr_chain(c.func) or '').startswith('self.') and (attr_chain(c.func) or '')[5:] not in ('enter_node', 'exit_node'))
            or (call_method(c) not in ('accept', 'enter_node', 'exit_node', 'getattr', 'iter', 'next', 'zip', 'zip_longest', 'items', 'keys', 'values',
                                       'len', 'isinstance', 'enumerate', 'reversed', 'list', 'tuple')
                and any(isinstance(a, ast.Name) and a.id == node or (isinstance(a, ast.Attribute) and norm(a.value) == node) for a in c.args)))]
        if opaque and (full != want or any([f for f in s_ if kinds[f] == 'one'] != [f for f in want if kinds[f] == 'one'] for s_, _ in seqs)):
            raise Undecided(f'{qn}: part of the replay of {cls} happens in `{short(opaque[0])}`, which is not followed')
        label = f'{cls} via {qn}' + (f' (delegated by {", ".join(via)})' if via else '')
        ok = ctx.require(full == want, f'{label}: replays {want} in textual order', vmod, qn, f'visit order of {cls}',
                         f'{cls} is replayed as {full}; the fields in textual order are {want}'
                         + (f' - never visited: {sorted(set(want) - set(full))}' if set(want) - set(full) else ''), fn)
        if not ok:
            continue
        ones = [f for f in want if kinds[f] == 'one']
        bad = [(s, p) for s, p in seqs if [f for f in s if kinds[f] == 'one'] != ones]
        ctx.require(not bad, f'{label}: the single-node fields {ones} are visited exactly once on all {len(paths)} paths', vmod, qn,
                    f'conditional visit in {cls}', f'on the path `{bad[0][1].describe() if bad else ""}` only {bad[0][0] if bad else ""} are visited', fn)
        def finishes(p: Path) -> bool:
            cs = p.calls()
            if cs and call_method(cs[-1]) == 'exit_node' and [norm(a) for a in list(cs[-1].args) + [k.value for k in cs[-1].keywords]] == [node]:
                return True
            # the inlined form of exit_node: the node's own whitespace is visited last
            if bool(cs) and call_method(cs[-1]) == 'accept' and isinstance(cs[-1].func, ast.Attribute) and norm(cs[-1].func.value) == f'{node}.whitespaces':
                return True
            return any(e.kind == 'cond' and f'{node}.whitespaces' in norm(e.node) for e in p.events)
        ends = [p for p in paths if not finishes(p)]
        ctx.require(not ends, f'{label}: every path ends with exit_node(node)', vmod, qn, f'exit_node in {cls}',
                    f'a path of {qn} does not finish with self.exit_node({node}): the whitespace attached to the {cls} is not printed', fn)
    ctx.floor('non-terminal classes replayed', n_cls, 19)


def _missing_visitor(ctx: RuleCtx, model: NodeModel, cls: str) -> None:
    """A class without visit_ method is silently skipped by BaseNode.accept.  Only acceptable when the class cannot be
    built outside the project-tests mode: every construction site sits in a method whose every call is behind the guard."""
    parser = model.mod
    meths = parser.methods('Parser')
    makers = [n for n, fn in meths.items() if any(isinstance(c, ast.Call) and cls in [norm(a) for a in c.args[:1]] + [norm(c.func)] for c in walk_no_nested(fn))]
    guarded = bool(makers)
    for mk in makers:
        for n, fn in meths.items():
            for p in enumerate_paths(fn.body, unroll=1):
                if any(call_method(c) == mk and (attr_chain(c.func) or '').startswith('self.') for c in p.calls()):
                    if p.cond_map().get(TEST_ONLY_GUARD) is not True:
                        guarded = False
    ctx.require(guarded, f'{cls}: no visit method, but only built behind `{TEST_ONLY_GUARD}` (by {makers})', parser, cls, f'visit_{cls} missing',
                f'{cls} has no visit_{cls} in RawPrinter/FullAstVisitor/AstVisitor: BaseNode.accept drops the whole subtree silently '
                f'(construction sites {makers or "none"} are not all behind `{TEST_ONLY_GUARD}`)', parser.cls(cls))


# -- terminals ---------------------------------------------------------------------------------------
def _parts(e: ast.AST, node: str, defs: T.Optional[T.Dict[str, ast.AST]] = None, depth: int = 0) -> T.List[T.Any]:
    if isinstance(e, ast.Constant) and isinstance(e.value, str):
        return [e.value]
    if isinstance(e, ast.Name) and defs and e.id in defs and depth < 4:
        return _parts(defs[e.id], node, defs, depth + 1)   # single-definition local: use its reaching definition
    if isinstance(e, ast.JoinedStr):
        out: T.List[T.Any] = []
        for v in e.values:
            if isinstance(v, ast.FormattedValue):
                if v.format_spec is not None or v.conversion != -1:
                    raise Undecided(f'formatted value {short(v)}')
                out += _parts(v.value, node, defs, depth)
            else:
                out += _parts(v, node, defs, depth)
        return out
    if isinstance(e, ast.BinOp) and isinstance(e.op, ast.Add):
        return _parts(e.left, node, defs, depth) + _parts(e.right, node, defs, depth)
    if isinstance(e, ast.Attribute) and isinstance(e.value, ast.Name) and e.value.id == node:
        return [('field', e.attr)]
    if isinstance(e, ast.Call) and isinstance(e.func, ast.Name) and e.func.id in ('str', 'repr', 'format') and len(e.args) == 1 and not e.keywords:
        return _parts(e.args[0], node, defs, depth)
    if isinstance(e, ast.IfExp):
        return [('if', norm(e.test).replace(node + '.', 'node.'), _merge(_parts(e.body, node, defs, depth)), _merge(_parts(e.orelse, node, defs, depth)))]
    raise Undecided(f'printed expression `{short(e)}`')


def _single_defs(fn: ast.AST) -> T.Dict[str, ast.AST]:
    count: T.Dict[str, int] = {}
    val: T.Dict[str, ast.AST] = {}
    for st in walk_no_nested(fn):
        tgts: T.List[ast.AST] = []
        if isinstance(st, ast.Assign):
            tgts = list(st.targets)
        elif isinstance(st, (ast.AugAssign, ast.AnnAssign, ast.For, ast.NamedExpr)):
            tgts = [st.target, st.target]
        for t in tgts:
            for n in ast.walk(t):
                if isinstance(n, ast.Name):
                    count[n.id] = count.get(n.id, 0) + 1
                    if isinstance(st, ast.Assign) and isinstance(t, ast.Name):
                        val[n.id] = st.value
    return {k: v for k, v in val.items() if count.get(k) == 1}


def _expand(parts: T.List[T.Any], cm: T.Dict[str, bool]) -> T.List[T.Tuple[T.List[T.Any], T.Dict[str, bool]]]:
    for i, p in enumerate(parts):
        if isinstance(p, tuple) and p[0] == 'if':
            test, neg = p[1], False
            if test.startswith('not '):
                test, neg = test[4:], True
            out = []
            for v in ([cm[test]] if test in cm else [True, False]):
                body = p[2] if (v != neg) else p[3]
                out += _expand(parts[:i] + list(body) + parts[i + 1:], {**cm, test: v})
            return out
    return [(parts, cm)]


def _merge(parts: T.List[T.Any]) -> T.List[T.Any]:
    out: T.List[T.Any] = []
    for p in parts:
        if isinstance(p, str) and out and isinstance(out[-1], str):
            out[-1] += p
        elif p != '':
            out.append(p)
    return out


def raw_fields(model: NodeModel, cls: str) -> T.Dict[str, T.List[T.List[T.Tuple[str, bool]]]]:
    """field -> list of overwrite conditions; a field assigned `token.value` in the constructor chain holds source text
    except when a later assignment (under the recorded condition, a conjunction of (atom, polarity)) replaces it."""
    out: T.Dict[str, T.List[T.List[T.Tuple[str, bool]]]] = {}
    chain: T.List[ast.FunctionDef] = []
    r = model.find(cls, '__init__')
    seen = set()
    while r is not None and id(r[1]) not in seen:
        owner, fn = r
        seen.add(id(fn))
        chain.append(fn)
        nxt = None
        for c in walk_no_nested(fn):
            if isinstance(c, ast.Call):
                d = model._delegate(cls, owner, c)
                if d is not None and d[1].name == '__init__':
                    nxt = (d[0], d[1])
        r = nxt
    for fn in reversed(chain):
        tok = params_of(fn)[1] if len(params_of(fn)) > 1 else ''
        for p in enumerate_paths(fn.body, unroll=1):
            for ev_i, ev in enumerate(p.events):
                st = ev.node
                if ev.kind == 'stmt' and isinstance(st, ast.Assign) and len(st.targets) == 1 and (attr_chain(st.targets[0]) or '').startswith('self.'):
                    f = attr_chain(st.targets[0])[5:]  # type: ignore[index]
                    if norm(st.value) == f'{tok}.value':
                        out[f] = []
                    elif isinstance(st.value, ast.Constant) and st.value.value == '' and any(
                            isinstance(x, ast.AugAssign) and attr_chain(x.target) == f'self.{f}' for c in model.mro(cls) for x in ast.walk(c)):
                        out[f] = []   # accumulator of token text (WhitespaceNode.value)
                    elif f in out:
                        conds = [(norm(e.node).replace('self.', 'node.'), e.val) for e in p.events[:ev_i] if e.kind == 'cond']
                        if conds not in out[f]:
                            out[f].append(conds)
    return out


def check_terminals(ctx: RuleCtx, model: NodeModel, bool_map: T.Dict[str, T.Any], strip: T.Dict[str, T.Tuple[str, str]],
                    model_kinds: T.Dict[str, T.Set[T.Any]]) -> None:
    vis = Visitors(ctx.repo)
    built = constructed_classes(model)
    fixed_ok = 0
    bufs = chunk_buffers(vis.pm.cls('RawPrinter'))
    n = 0
    for cls in sorted(built):
        if model.node_fields(cls):
            continue
        r = vis.resolve_visit(cls)
        if r is None:
            _missing_visitor(ctx, model, cls)
            continue
        vmod, qn, fn, via = r
        fn = _inlined(vis, fn)
        node = params_of(fn)[1]
        roles = model.roles(cls)
        carries = any(role == 'tok' for _, role in roles)
        raws = raw_fields(model, cls) if carries else {}
        defs = _single_defs(fn)
        cases: T.List[T.Tuple[Path, T.List[T.Any], T.Dict[str, bool]]] = []
        for p in enumerate_paths(fn.body, unroll=1):
            if p.outcome == 'raise':
                continue
            adds0: T.List[T.Any] = []
            for st in p.stmts():
                em = emission(st, bufs)
                if em is not None:
                    for x in em:
                        adds0 += _parts(x, node, defs)
                elif isinstance(st, (ast.Assign, ast.AugAssign)) and ('self.result' in norm(st) or any(f'self.{b_}' in norm(st) for b_ in bufs)):
                    raise Undecided(f'{qn}: `{short(st)}`')
                elif isinstance(st, ast.Expr) and isinstance(st.value, ast.Call) and any(f'self.{b_}.' in norm(st.value.func) for b_ in bufs):
                    raise Undecided(f'{qn}: `{short(st)}`')
            cm0 = {k.replace(node + '.', 'node.'): v for k, v in p.cond_map().items() if k.startswith(node + '.')}
            # a conditional piece of text is a branch on its test: split the path (both truth values unless the path decides it)
            cases += [(p, _merge(a), c) for a, c in _expand(adds0, cm0)]
        for p, adds, cm in cases:
            n += 1
            what = f'{cls} via {qn} on `{p.describe()}`' + (f' with {cm}' if len([1 for q, _, _ in cases if q is p]) > 1 else '')
            if not carries:
                ctx.require(adds == [], f'{what}: prints nothing (the class carries no token)', vmod, qn, f'text of {cls}', f'{cls} carries no token but {adds} is printed', fn)
                continue
            flds = [a for a in adds if isinstance(a, tuple) and a[0] == 'field']
            ifs = [a for a in adds if isinstance(a, tuple) and a[0] == 'if']
            consts = [a for a in adds if isinstance(a, str)]
            if cls in bool_map:
                # keyword token whose value the parser replaced by a Python constant: the printer must map it back
                want = bool_map[cls]
                v = cm.get('node.value')
                if v is None:
                    raise Undecided(f'{qn}: the text of a {cls} is not chosen by a test of node.value on `{p.describe()}`')
                exp = [kw for kw, const in want if bool(const) == v]
                ctx.require(adds == exp, f'{what}: node.value {v} is printed as the keyword {exp}', vmod, qn, f'text of {cls}',
                            f'{cls} with a {"true" if v else "false"} value is printed as {adds}; the parser stores (keyword consumed, value) = {want}', fn)
                continue
            if not flds and not ifs:
                # fixed spelling: the class name must correspond to the keyword (checked against the parser by R1)
                ok = len(consts) == 1 and cls.lower() == consts[0] + 'node'
                fixed_ok += ok
                ctx.require(ok, f'{what}: fixed spelling {consts}', vmod, qn, f'text of {cls}', f'{cls} is printed as the constant {consts}', fn)
                continue
            ok = len(flds) == 1 and not ifs
            why = f'{adds} is printed'
            if ok:
                f = flds[0][1]
                if f not in raws:
                    ok, why = False, f'node.{f} is printed, which does not hold the source text of the token (fields holding it: {sorted(raws)})'
                else:
                    for conj in raws[f]:
                        # the overwrite condition must be refuted by the printer path
                        if not any(cm.get(a) is not None and cm.get(a) != v for a, v in conj) and conj:
                            ok, why = False, (f'node.{f} is printed on a path where the constructor may have replaced the source text '
                                              f'(it does when {" and ".join(("" if v else "not ") + a for a, v in conj)})')
                        if not conj:
                            ok, why = False, f'node.{f} is unconditionally replaced by the constructor'
            if ok:
                # the text the lexer stripped around the value must be put back, for every token id this path serves
                i = adds.index(flds[0])
                if any(not isinstance(a, str) for a in adds[:i] + adds[i + 1:]):
                    raise Undecided(f'{qn}: non-constant text around the field on `{p.describe()}`')
                pre, post = ''.join(adds[:i]), ''.join(adds[i + 1:])
                kinds = sorted(model_kinds.get(cls, ()), key=repr)
                if not kinds or any(not isinstance(t, str) or t not in strip for t in kinds):
                    if pre or post:
                        raise Undecided(f'{qn}: the token ids a {cls} is built from ({kinds}) are not all regex tokens; cannot judge {pre!r}...{post!r}')
                    kinds = []
                flags = tid_flags(model, cls)
                for tid in kinds:
                    if any(cm.get(f'node.{f}', sub in tid) != (sub in tid) for f, sub in flags.items()):
                        continue     # this path does not serve that token id
                    if (pre, post) != strip[tid]:
                        unexplained = [k for k in cm if k.startswith('node.') and k[5:] not in flags]
                        if unexplained:
                            raise Undecided(f'{qn}: the path `{p.describe()}` is selected by {unexplained}, which the constructor of {cls} does not '
                                            f'define as `<constant> in token.tid`; cannot tell which token ids it serves')
                        ok = False
                        why = (f'for a `{tid}` token the printer adds {pre!r}...{post!r} on the path `{p.describe()}`; the lexer strips '
                               f'{strip[tid][0]!r}...{strip[tid][1]!r} from the matched text')
            ctx.require(ok, f'{what}: prints the source text field {[x[1] for x in flds]}', vmod, qn, f'text of {cls}: {p.describe()}', f'{cls}: {why}', fn)
    ctx.floor('terminal print paths', n, 12)


def tid_flags(model: NodeModel, cls: str) -> T.Dict[str, str]:
    """Fields set by the constructor chain to `<constant> in token.tid` (is_multiline, is_fstring): field -> constant."""
    out: T.Dict[str, str] = {}
    for c in model.mro(cls):
        for fn in c.body:
            if isinstance(fn, ast.FunctionDef) and fn.name == '__init__':
                defs = _single_defs(fn)
                for st in walk_no_nested(fn):
                    src = st.value.comparators[0] if isinstance(st, ast.Assign) and isinstance(st.value, ast.Compare) and len(st.value.comparators) == 1 else None
                    if isinstance(src, ast.Name) and src.id in defs:
                        src = defs[src.id]
                    if isinstance(st, ast.Assign) and (attr_chain(st.targets[0]) or '').startswith('self.') and isinstance(st.value, ast.Compare) \
                            and len(st.value.ops) == 1 and isinstance(st.value.ops[0], ast.In) and isinstance(st.value.left, ast.Constant) \
                            and isinstance(st.value.left.value, str) and src is not None and norm(src).endswith('.tid'):
                        out[attr_chain(st.targets[0])[5:]] = st.value.left.value  # type: ignore[index]
    return out


def lexer_facts(ctx: RuleCtx, model: NodeModel) -> T.Tuple[T.Dict[str, T.Any], T.Dict[str, T.Tuple[str, str]]]:
    """(a) e10: which Python constant replaces the value of which keyword token, per node class;
    (b) Lexer.lex: how many characters are stripped from both ends of each string-like token."""
    mod = model.mod
    bool_map: T.Dict[str, T.List[T.Tuple[str, T.Any]]] = {}
    from .c02_model import unroll_tables
    for name, fn0 in mod.methods('Parser').items():
        fn = unroll_tables(fn0, mod)
        for p in enumerate_paths(fn.body, unroll=1):
            kw = None
            tokname = None
            for ev in p.events:
                if ev.kind == 'cond' and ev.val and isinstance(ev.node, ast.Call) and call_method(ev.node) == 'accept' and ev.node.args \
                        and isinstance(ev.node.args[0], ast.Constant):
                    kw = ev.node.args[0].value
                elif ev.kind == 'stmt' and isinstance(ev.node, ast.Assign) and isinstance(ev.node.targets[0], ast.Attribute) \
                        and ev.node.targets[0].attr == 'value' and isinstance(ev.node.value, ast.Constant) and kw is not None:
                    tokname = norm(ev.node.targets[0].value)
                    const = ev.node.value.value
                    for c in p.calls():
                        if len(c.args) == 2 and isinstance(c.args[0], ast.Name) and c.args[0].id in model.classes and norm(c.args[1]) == tokname:
                            if (kw, const) not in bool_map.setdefault(c.args[0].id, []):
                                bool_map[c.args[0].id].append((kw, const))
    from .c02_lex import strip_table
    strip = strip_table(ctx)
    return bool_map, strip


def _arm_of(fn: ast.AST, st: ast.AST, tidvar: str) -> T.Optional[ast.AST]:
    for n in ast.walk(fn):
        if isinstance(n, ast.If) and any(x is st for b in n.body for x in ast.walk(b)):
            best = n
            for m in ast.walk(n):
                if isinstance(m, ast.If) and m is not n and any(x is st for b in m.body for x in ast.walk(b)) and tidvar in names_in(m.test):
                    best = m
            if tidvar in names_in(best.test):
                return best.test
    return None


def _tid_in(ctx: RuleCtx, mod: T.Any, test: ast.AST, tid: str, tidvar: str) -> bool:
    from .c02_lex import fold_cond
    v = fold_cond(ctx.repo, mod, test, {tidvar: tid})
    if v is None:
        raise Undecided(f'Lexer.lex: cannot decide `{short(test)}` for token id `{tid}`')
    return v


def check_equality(ctx: RuleCtx, model: NodeModel) -> None:
    """Nodes are dictionary keys (ArgumentNode.kwargs): equality must keep the position, or two textually equal keys collapse."""
    mod = model.mod
    root = model.classes[model.root]
    pos = {'lineno', 'colno'}
    for st in root.body:
        if isinstance(st, ast.AnnAssign) and isinstance(st.target, ast.Name) and st.target.id in pos:
            v = st.value
            bad = isinstance(v, ast.Call) and any(k.arg == 'compare' and isinstance(k.value, ast.Constant) and k.value.value is False for k in v.keywords)
            ctx.require(not bad, f'{model.root}.{st.target.id} takes part in ==', mod, model.root, st, f'{model.root}.{st.target.id} is excluded from comparison', st)
            pos = pos - {st.target.id}
    ctx.require(not pos, 'position fields are dataclass fields of the root class', mod, model.root, 'position fields', f'{sorted(pos)} are not dataclass fields of {model.root}')
    n = 0
    for name, c in model.classes.items():
        deco = [d for d in c.decorator_list if (attr_chain(d.func if isinstance(d, ast.Call) else d) or '').endswith('dataclass')]
        eq_off = any(isinstance(d, ast.Call) and any(k.arg == 'eq' and isinstance(k.value, ast.Constant) and k.value.value is False for k in d.keywords) for d in deco)
        own_eq = any(isinstance(s, ast.FunctionDef) and s.name == '__eq__' for s in c.body)
        n += 1
        ctx.require(not eq_off and not own_eq and (deco or name != model.root), f'{name}: generated field-wise __eq__ (positions compared)', mod, name, f'__eq__ of {name}',
                    f'{name} {"disables the generated __eq__" if eq_off else "defines its own __eq__"}: as a kwargs key two entries could collapse into one', c)
    ctx.floor('node classes with generated equality', n, 30)


def check_hashable(ctx: RuleCtx, model: NodeModel) -> None:
    """Any expression may be written as a dictionary key (`{<expr>: v}`), and Parser.key_values stores the key *node* as a key of
    ArgumentNode.kwargs: every node class the parser builds must therefore be hashable.  Decided from the class hierarchy:
    `@dataclass` with eq (the default) and neither unsafe_hash nor frozen sets `__hash__ = None`; a class without its own
    decorator inherits `__hash__` from the nearest base that has one or defines `__eq__`/`__hash__`."""
    mod = model.mod
    stores_nodes_as_keys = any(isinstance(s_, ast.Assign) and isinstance(s_.targets[0], ast.Subscript) and norm(s_.targets[0].value) == 'self.kwargs'
                               for c in model.classes.values() for s_ in ast.walk(c))
    if not stores_nodes_as_keys:
        raise Undecided('no node class keeps nodes as dictionary keys any more (self.kwargs[...] = ...); hashability rule has no subject')
    n = 0
    for cls in sorted(constructed_classes(model)):
        verdict, owner = None, None
        for c in model.mro(cls):
            own_hash = [s_ for s_ in c.body if (isinstance(s_, ast.FunctionDef) and s_.name == '__hash__')
                        or (isinstance(s_, ast.Assign) and norm(s_.targets[0]) == '__hash__')]
            own_eq = any(isinstance(s_, ast.FunctionDef) and s_.name == '__eq__' for s_ in c.body)
            deco = [d for d in c.decorator_list if (attr_chain(d.func if isinstance(d, ast.Call) else d) or '').split('.')[-1] == 'dataclass']
            others = [d for d in c.decorator_list if d not in deco]
            if others:
                raise Undecided(f'{c.name}: decorator `{short(others[0])}` may change hashing')
            if own_hash:
                verdict = not (isinstance(own_hash[0], ast.Assign) and isinstance(own_hash[0].value, ast.Constant) and own_hash[0].value.value is None)
                owner = c.name
                break
            if deco:
                kw = {k.arg: k.value for d in deco if isinstance(d, ast.Call) for k in d.keywords}
                if any(not isinstance(v, ast.Constant) for v in kw.values()):
                    raise Undecided(f'{c.name}: non-constant dataclass options')
                opt = {k: v.value for k, v in kw.items()}  # type: ignore[union-attr]
                if opt.get('eq', True) is False:
                    if own_eq:
                        verdict, owner = False, c.name   # own __eq__ without __hash__ -> __hash__ = None
                        break
                    continue          # dataclass leaves __eq__/__hash__ alone: look further up
                verdict, owner = bool(opt.get('unsafe_hash') or opt.get('frozen')), c.name
                break
            if own_eq:
                verdict, owner = False, c.name
                break
        if verdict is None:
            verdict, owner = True, 'object'
        n += 1
        ctx.require(verdict, f'{cls}: hashable (hashing decided by {owner})', mod, cls, f'__hash__ of {cls}',
                    f'{cls} takes its hashing from {owner}, a dataclass with eq and without unsafe_hash/frozen (so __hash__ is None): '
                    f'a {cls} used as a dictionary key, e.g. `{{(): 1}}` for an empty expression, raises TypeError in Parser.key_values', model.classes[cls])
    ctx.floor('node classes checked for hashability', n, 28)


def check_list_order(ctx: RuleCtx, model: NodeModel) -> None:
    """Source order across separately stored child lists.  When the full-fidelity visitor replays all of list field A of a node
    class before any of list field B (ArgumentNode: `arguments` then `kwargs`), the text order of an A-element and a B-element
    is only kept if the parser never stores into A after it has stored into B for the same node.  Decided on the CFG of every
    Parser method: a store into B must not reach a store into A (a raise in between cuts the path)."""
    from ..cfg import CFG
    vis = Visitors(ctx.repo)
    mod = model.mod
    n = 0
    for cls in sorted(constructed_classes(model)):
        fields = model.node_fields(cls)
        multi = [f for f, k in fields if k in ('list', 'dict')]
        if len(multi) < 2:
            continue
        r = vis.resolve_visit(cls)
        if r is None:
            continue
        vmod, qn, fn, via = r
        fn = unroll_tables(_inlined(vis, fn), vmod)
        node = params_of(fn)[1]
        paths = [p for p in enumerate_paths(fn.body, unroll=1) if p.outcome != 'raise']
        full = max((_accepts_on(p, fn, node, {f for f, _ in fields}) for p in paths), key=len)
        # which field a node-class method stores its arguments into
        writes: T.Dict[str, T.Set[str]] = {}
        for c in model.mro(cls):
            for m in c.body:
                if isinstance(m, ast.FunctionDef) and m.name != '__init__' and m.name not in writes:
                    ps = set(params_of(m)[1:])
                    tg: T.Set[str] = set()
                    for st in walk_no_nested(m):
                        if isinstance(st, (ast.Assign, ast.AugAssign)):
                            t = st.targets[0] if isinstance(st, ast.Assign) else st.target
                            base = t.value if isinstance(t, ast.Subscript) else t
                            ch = attr_chain(base) or ''
                            used = {x.id for x in ast.walk(st.value) if isinstance(x, ast.Name)} | ({x.id for x in ast.walk(t.slice) if isinstance(x, ast.Name)} if isinstance(t, ast.Subscript) else set())
                            if ch.startswith('self.') and ch[5:] in multi and used & ps:
                                tg.add(ch[5:])
                        elif isinstance(st, ast.Call) and isinstance(st.func, ast.Attribute) and st.func.attr in ('append', 'extend', 'insert', 'add', 'update', 'setdefault') \
                                and (attr_chain(st.func.value) or '').startswith('self.') and (attr_chain(st.func.value) or '')[5:] in multi \
                                and {x.id for a in st.args for x in ast.walk(a) if isinstance(x, ast.Name)} & ps:
                            tg.add((attr_chain(st.func.value) or '')[5:])
                    if tg or any(isinstance(c_, ast.Call) and (attr_chain(c_.func) or '').startswith('self.') for c_ in walk_no_nested(m)):
                        writes.setdefault('__pending__', set())
                    if tg:
                        if any(isinstance(x, ast.Raise) for x in walk_no_nested(m)):
                            raise Undecided(f'{cls}.{m.name} stores into {sorted(tg)} and can raise; whether it rejects out-of-order stores is not followed')
                        writes[m.name] = tg
        writes.pop('__pending__', None)
        # a method that hands its parameters to another storing method of the node (`self.set_kwarg_no_check(name, value)`) stores too
        for _ in range(3):
            for c in model.mro(cls):
                for m in c.body:
                    if isinstance(m, ast.FunctionDef) and m.name != '__init__':
                        ps = set(params_of(m)[1:])
                        for c_ in walk_no_nested(m):
                            if isinstance(c_, ast.Call) and (attr_chain(c_.func) or '').startswith('self.') and (attr_chain(c_.func) or '')[5:] in writes \
                                    and {x.id for a in list(c_.args) + [k.value for k in c_.keywords] for x in ast.walk(a) if isinstance(x, ast.Name)} & ps:
                                if any(isinstance(x, ast.Raise) for x in walk_no_nested(m)):
                                    raise Undecided(f'{cls}.{m.name} stores through `{short(c_)}` and can raise; not followed')
                                writes.setdefault(m.name, set()).update(writes[(attr_chain(c_.func) or '')[5:]])
        for a_i, A in enumerate(multi):
            for B in multi:
                if A == B or A not in full or B not in full:
                    continue
                last_a = max(i for i, f in enumerate(full) if f == A)
                first_b = min(i for i, f in enumerate(full) if f == B)
                if last_a > first_b:
                    continue       # not replayed as two separate blocks in this order
                a_meths = {m for m, t in writes.items() if A in t}
                b_meths = {m for m, t in writes.items() if B in t}
                if not a_meths or not b_meths:
                    continue
                for pname, pfn in mod.methods('Parser').items():
                    locs = {norm(st.targets[0]) for st in walk_no_nested(pfn) if isinstance(st, ast.Assign) and isinstance(st.targets[0], ast.Name)
                            and isinstance(st.value, ast.Call) and cls in [norm(x) for x in st.value.args[:1]] + [norm(st.value.func)]}
                    if not locs:
                        continue
                    cfg = CFG(pfn)

                    def sites(meths: T.Set[str]) -> T.List[T.Tuple[T.Any, ast.Call]]:
                        out = []
                        for nd in cfg.nodes:
                            e = nd.expr()
                            for c in (walk_no_nested(e) if e is not None else []):
                                if isinstance(c, ast.Call) and isinstance(c.func, ast.Attribute) and c.func.attr in meths and norm(c.func.value) in locs:
                                    out.append((nd, c))
                        return out
                    sa_, sb_ = sites(a_meths), sites(b_meths)
                    if not sa_ or not sb_:
                        continue
                    n += 1
                    # a test of the node's B-content with a raising branch between the two stores rejects the out-of-order text
                    readers = {B} | {m.name for c in model.mro(cls) for m in c.body if isinstance(m, ast.FunctionDef) and m.name not in writes
                                     and any(attr_chain(x) in (f'self.{B}', 'self.order_error') or (isinstance(x, ast.Call) and call_method(x) in ('num_kwargs',))
                                             for x in ast.walk(m))}
                    guards = [t for t in cfg.nodes if t.kind == 'test' and any(f'{x}.{r_}' in norm(t.expr()) for x in locs for r_ in readers)
                              and any(cfg.nodes[b].kind == 'stmt' and isinstance(cfg.nodes[b].ast, ast.Raise) for b, _ in cfg.succ[t.id])]
                    hit = [(b, a) for b in sb_ for a in sa_ if cfg.can_reach(b[0], a[0], avoid=guards, no_exc=True)]
                    if hit:
                        (bn, bc), (an, ac) = hit[0]
                        ctx.violation(mod, f'Parser.{pname}', ac, f'`{short(ac)}` (stores into {cls}.{A}) can run after `{short(bc)}` (stores into {cls}.{B}) '
                                      f'for the same node without an error being raised, but {qn} replays all of `{A}` before any of `{B}`: '
                                      f'an accepted text with a {A[:-1] if A.endswith("s") else A} after a {B[:-1] if B.endswith("s") else B} is printed in a different order', ac)
                    else:
                        ctx.ok(f'Parser.{pname}: no store into {cls}.{A} is reachable after a store into {cls}.{B} ({len(sa_)}x{len(sb_)} site pairs)')
    if n == 0:
        raise Undecided('no parser method was found that fills two separately replayed child lists of one node through the node class methods')
