"""Helpers of the C04 pack: lazy per-function CFGs with CFG-based reaching definitions, a scoped
origin tracer (comprehension variables do not leak, unlike sa.flow), an all-paths pairing check
(created -> registered | returned) and a symbolic evaluator of rule-name expressions.

Nothing here looks at line numbers or statement positions: everything is reachability on sa.cfg.CFG
plus resolved names.
"""
from __future__ import annotations

import ast
import string
import typing as T

from ..core import Undecided, Module, Repo, norm, short, attr_chain, call_name, walk_no_nested, decorator_names
from ..cfg import CFG, Node

MUTATORS = {'append', 'extend', 'insert', 'add', 'update', 'setdefault', 'appendleft', 'extendleft'}
ENTRY = 'entry'


class Def(T.NamedTuple):
    node: Node
    kind: str                        # assign | aug | iter | unpack | with | other
    value: T.Optional[ast.AST]
    index: T.Optional[int]


def node_roots(n: Node) -> T.List[ast.AST]:
    """The expressions evaluated at a CFG node."""
    if n.kind == 'test':
        return [n.ast.test]  # type: ignore[union-attr]
    if n.kind == 'iter':
        return [n.ast.iter]  # type: ignore[union-attr]
    if n.kind == 'with_enter':
        return [i.context_expr for i in n.ast.items]  # type: ignore[union-attr]
    if n.kind == 'stmt' and n.ast is not None:
        return [n.ast]
    return []


def node_calls(n: Node) -> T.List[ast.Call]:
    out: T.List[ast.Call] = []
    for r in node_roots(n):
        out.extend(c for c in walk_no_nested(r) if isinstance(c, ast.Call))
    return out


def _pattern_test(subj: ast.expr, p: ast.AST) -> T.Optional[ast.expr]:
    """The branch predicate of a `case` pattern that binds no name: `A()` -> isinstance(s, A); `A() | B()` -> isinstance(s, (A, B)); a value / singleton
    pattern -> `s == v` / `s is v`.  None: a pattern the normal form does not cover (captures, sequences, mappings, positional sub-patterns)."""
    import copy
    if isinstance(p, ast.MatchClass) and not p.patterns and not p.kwd_patterns:
        return ast.Call(func=ast.Name(id='isinstance', ctx=ast.Load()), args=[copy.deepcopy(subj), p.cls], keywords=[])
    if isinstance(p, ast.MatchOr) and all(isinstance(x, ast.MatchClass) and not x.patterns and not x.kwd_patterns for x in p.patterns):
        return ast.Call(func=ast.Name(id='isinstance', ctx=ast.Load()), args=[copy.deepcopy(subj), ast.Tuple(elts=[x.cls for x in p.patterns], ctx=ast.Load())], keywords=[])  # type: ignore[attr-defined]
    if isinstance(p, ast.MatchValue):
        return ast.Compare(left=copy.deepcopy(subj), ops=[ast.Eq()], comparators=[p.value])
    if isinstance(p, ast.MatchSingleton):
        return ast.Compare(left=copy.deepcopy(subj), ops=[ast.Is()], comparators=[ast.Constant(value=p.value)])
    return None


def match_as_if_chain(fn: T.Any) -> T.Any:
    """Normal form for the CFG: a `match` over a plain name whose cases bind nothing (class patterns without sub-patterns, alternatives of them, values,
    a final wildcard; no guards) is the if/elif/else chain of the same tests.  The statements of the case bodies are the *same* objects, so lookups by
    identity keep working; only the statement list that holds the match is rebuilt (shallow copies of the enclosing statements).  Any other match is left alone."""
    import copy
    if not any(isinstance(x, ast.Match) for x in ast.walk(fn)):
        return fn

    def chain(m: ast.Match) -> T.Optional[ast.stmt]:
        if not isinstance(m.subject, ast.Name):
            return None
        arms: T.List[T.Tuple[T.Optional[ast.expr], T.List[ast.stmt]]] = []
        for i, cs in enumerate(m.cases):
            if cs.guard is not None:
                return None
            if isinstance(cs.pattern, ast.MatchAs) and cs.pattern.pattern is None and cs.pattern.name is None:
                if i != len(m.cases) - 1:
                    return None
                arms.append((None, conv(cs.body)))
                continue
            t = _pattern_test(m.subject, cs.pattern)
            if t is None:
                return None
            arms.append((ast.fix_missing_locations(ast.copy_location(t, cs.pattern)), conv(cs.body)))
        tail: T.List[ast.stmt] = []
        for t, body in reversed(arms):
            if t is None:
                tail = body
            else:
                tail = [ast.copy_location(ast.If(test=t, body=body, orelse=tail), t)]
        return tail[0] if len(tail) == 1 and isinstance(tail[0], ast.If) else None

    def conv(stmts: T.List[ast.stmt]) -> T.List[ast.stmt]:
        out: T.List[ast.stmt] = []
        for st in stmts:
            if isinstance(st, (ast.FunctionDef, ast.AsyncFunctionDef, ast.ClassDef)) or not any(isinstance(x, ast.Match) for x in ast.walk(st)):
                out.append(st)
                continue
            if isinstance(st, ast.Match):
                c = chain(st)
                out.append(c if c is not None else st)
                continue
            st2 = copy.copy(st)
            for fld in ('body', 'orelse', 'finalbody'):
                if isinstance(getattr(st2, fld, None), list) and getattr(st2, fld) and isinstance(getattr(st2, fld)[0], ast.stmt):
                    setattr(st2, fld, conv(getattr(st2, fld)))
            if isinstance(st2, ast.Try):
                hs = []
                for h in st2.handlers:
                    h2 = copy.copy(h)
                    h2.body = conv(h.body)
                    hs.append(h2)
                st2.handlers = hs
            out.append(st2)
        return out
    fn2 = copy.copy(fn)
    fn2.body = conv(fn.body)
    return fn2


class FnInfo:
    """One function: CFG built on first use, definitions per local name, cached reachability."""

    def __init__(self, mod: Module, qn: str, fn: T.Union[ast.FunctionDef, ast.AsyncFunctionDef]):
        self.mod = mod
        self.qn = qn
        self.fn = fn
        a = fn.args
        self.params: T.List[str] = [x.arg for x in a.posonlyargs + a.args + a.kwonlyargs]
        if a.vararg:
            self.params.append(a.vararg.arg)
        if a.kwarg:
            self.params.append(a.kwarg.arg)
        self._cfg: T.Optional[CFG] = None
        self._defs: T.Optional[T.Dict[str, T.List[Def]]] = None
        self._reach: T.Dict[T.Tuple[int, T.FrozenSet[int]], T.Set[int]] = {}
        self.attr_stores: T.List[T.Tuple[Node, str, ast.AST]] = []
        self._mut: T.Optional[T.Dict[str, T.List[T.Tuple[Node, ast.Call]]]] = None
        self._loc: T.Optional[T.Dict[int, T.List[Node]]] = None

    @property
    def cfg(self) -> CFG:
        if self._cfg is None:
            self._cfg = CFG(match_as_if_chain(self.fn))
        return self._cfg

    # -- definitions ------------------------------------------------------
    def defs(self) -> T.Dict[str, T.List[Def]]:
        if self._defs is not None:
            return self._defs
        out: T.Dict[str, T.List[Def]] = {}

        def bind(n: Node, target: ast.AST, value: T.Optional[ast.AST], kind: str, idx: T.Optional[int] = None) -> None:
            if isinstance(target, ast.Name):
                out.setdefault(target.id, []).append(Def(n, kind, value, idx))
            elif isinstance(target, (ast.Tuple, ast.List)):
                if kind == 'assign' and isinstance(value, (ast.Tuple, ast.List)) and len(value.elts) == len(target.elts) \
                        and not any(isinstance(x, ast.Starred) for x in list(value.elts) + list(target.elts)):
                    for t, v in zip(target.elts, value.elts):
                        bind(n, t, v, 'assign')
                else:
                    for i, t in enumerate(target.elts):
                        bind(n, t, value, 'unpack' if kind == 'assign' else kind, i)
            elif isinstance(target, ast.Starred):
                bind(n, target.value, value, 'unpack' if kind == 'assign' else kind, idx)
            elif isinstance(target, ast.Attribute):
                c = attr_chain(target)
                if c and value is not None:
                    self.attr_stores.append((n, c, value))

        for n in self.cfg.nodes:
            st = n.ast
            if n.kind == 'stmt':
                if isinstance(st, ast.Assign):
                    for t in st.targets:
                        bind(n, t, st.value, 'assign')
                elif isinstance(st, ast.AnnAssign):
                    if st.value is not None:
                        bind(n, st.target, st.value, 'assign')
                elif isinstance(st, ast.AugAssign):
                    bind(n, st.target, st.value, 'aug')
                elif isinstance(st, (ast.Import, ast.ImportFrom)):
                    for al in st.names:
                        out.setdefault((al.asname or al.name).split('.')[0], []).append(Def(n, 'other', None, None))
                elif isinstance(st, (ast.FunctionDef, ast.AsyncFunctionDef, ast.ClassDef)):
                    out.setdefault(st.name, []).append(Def(n, 'other', None, None))
            elif n.kind == 'iter':
                bind(n, st.target, st.iter, 'iter')  # type: ignore[union-attr]
            elif n.kind == 'with_enter':
                for it in st.items:  # type: ignore[union-attr]
                    if it.optional_vars is not None:
                        bind(n, it.optional_vars, it.context_expr, 'with')
            elif n.kind == 'handler':
                nm = getattr(st, 'name', None)
                if nm:
                    out.setdefault(nm, []).append(Def(n, 'other', None, None))
            for r in node_roots(n):
                for w in walk_no_nested(r):
                    if isinstance(w, ast.NamedExpr):
                        bind(n, w.target, w.value, 'assign')
        self._defs = out
        return out

    def mutations(self) -> T.Dict[str, T.List[T.Tuple[Node, ast.Call]]]:
        """local name -> [(node, call)] for `name.append(..)`-like calls."""
        if self._mut is None:
            m: T.Dict[str, T.List[T.Tuple[Node, ast.Call]]] = {}
            for n in self.cfg.nodes:
                for c in node_calls(n):
                    f = c.func
                    if isinstance(f, ast.Attribute) and f.attr in MUTATORS and isinstance(f.value, ast.Name):
                        m.setdefault(f.value.id, []).append((n, c))
            self._mut = m
        return self._mut

    def additions(self, name: str) -> T.List[T.Tuple[Node, ast.AST, T.Optional[ast.AST]]]:
        """Normal form of "an element is added to list `name`": append(a) / extend([a, b]) / `name += [a, b]` / `name = name + [a]` /
        `name = [*name, a]` -> (node, construct, a).  An addition the rule cannot itemise (extend(f()), insert, += other) has element None."""
        out: T.List[T.Tuple[Node, ast.AST, T.Optional[ast.AST]]] = []

        def items(e: ast.AST) -> T.Optional[T.List[ast.AST]]:
            if isinstance(e, (ast.List, ast.Tuple)) and not any(isinstance(x, ast.Starred) for x in e.elts):
                return list(e.elts)
            return None
        for n in self.cfg.nodes:
            for c in node_calls(n):
                f = c.func
                if isinstance(f, ast.Attribute) and isinstance(f.value, ast.Name) and f.value.id == name and f.attr in MUTATORS:
                    if f.attr == 'append' and len(c.args) == 1 and not c.keywords:
                        out.append((n, c, c.args[0]))
                    elif f.attr == 'extend' and len(c.args) == 1 and items(c.args[0]) is not None:
                        out.extend((n, c, x) for x in items(c.args[0]) or [])
                    else:
                        out.append((n, c, None))
            st = n.ast if n.kind == 'stmt' else None
            if isinstance(st, ast.AugAssign) and isinstance(st.target, ast.Name) and st.target.id == name and isinstance(st.op, ast.Add):
                its = items(st.value)
                out.extend([(n, st, x) for x in its] if its is not None else [(n, st, None)])
            elif isinstance(st, ast.Assign) and len(st.targets) == 1 and isinstance(st.targets[0], ast.Name) and st.targets[0].id == name:
                v = st.value
                if isinstance(v, ast.BinOp) and isinstance(v.op, ast.Add) and isinstance(v.left, ast.Name) and v.left.id == name:
                    its = items(v.right)
                    out.extend([(n, st, x) for x in its] if its is not None else [(n, st, None)])
                elif isinstance(v, ast.List) and v.elts and isinstance(v.elts[0], ast.Starred) and isinstance(v.elts[0].value, ast.Name) and v.elts[0].value.id == name:
                    rest = v.elts[1:]
                    out.extend([(n, st, x) for x in rest] if not any(isinstance(x, ast.Starred) for x in rest) else [(n, st, None)])
        return out

    def base_defs(self, name: str, at: Node) -> T.List[T.Union[Def, str]]:
        """Reaching definitions of list `name` at `at`, looking through definitions that only add to it (`+=`, `x = x + [..]`)."""
        add_nodes = {n.id for n, c, _ in self.additions(name) if isinstance(c, (ast.AugAssign, ast.Assign))}
        out: T.List[T.Union[Def, str]] = []
        seen: T.Set[int] = set()
        work = [at]
        while work:
            cur = work.pop()
            for d in self.reaching(name, cur):
                if isinstance(d, Def) and d.node.id in add_nodes:
                    if d.node.id not in seen:
                        seen.add(d.node.id)
                        work.append(d.node)
                elif d not in out:
                    out.append(d)
        return out

    # -- reachability -------------------------------------------------------
    def reach(self, start: Node, avoid: T.Iterable[Node] = ()) -> T.Set[int]:
        key = (start.id, frozenset(a.id for a in avoid))
        r = self._reach.get(key)
        if r is None:
            r = self.cfg.reachable([start], [self.cfg.nodes[i] for i in key[1]])
            self._reach[key] = r
        return r

    def reaching(self, name: str, at: Node) -> T.List[T.Union[Def, str]]:
        """Definitions of `name` that may reach the evaluation at node `at` (ENTRY = value on entry)."""
        ds = self.defs().get(name, [])
        dnodes = {d.node.id: d.node for d in ds}
        avoid = [n for i, n in dnodes.items() if i != at.id]
        out: T.List[T.Union[Def, str]] = []
        for d in ds:
            av = [n for n in avoid if n.id != d.node.id]
            if at.id in self.reach(d.node, av):
                out.append(d)
        if at.id in self.reach(self.cfg.entry, avoid) or at.id == self.cfg.entry.id:
            out.append(ENTRY)
        return out

    def node_of(self, sub: ast.AST) -> Node:
        ns = self.nodes_of(sub)
        if not ns:
            raise Undecided(f'{self.qn}: construct `{short(sub, 60)}` is not on the control-flow graph (unreachable or nested)')
        return ns[0]

    def nodes_of(self, sub: ast.AST) -> T.List[Node]:
        # same answer as cfg.node_containing(sub), from an index built once per function
        if self._loc is None:
            loc: T.Dict[int, T.List[Node]] = {}
            for n in self.cfg.nodes:
                e = n.expr()
                if e is None:
                    continue
                if n.kind == 'with_enter':
                    roots: T.List[ast.AST] = list(n.ast.items)  # type: ignore[union-attr]
                elif n.kind == 'iter':
                    roots = [n.ast.iter, n.ast.target]  # type: ignore[union-attr]
                else:
                    roots = [e]
                seen: T.Set[int] = set()
                for r in roots:
                    for x in walk_no_nested(r):
                        if id(x) not in seen:
                            seen.add(id(x))
                            loc.setdefault(id(x), []).append(n)
            self._loc = loc
        return self._loc.get(id(sub), [])


class Infos:
    """Lazy FnInfo cache for one module."""

    def __init__(self, mod: Module):
        self.mod = mod
        self._c: T.Dict[str, FnInfo] = {}

    def get(self, qn: str) -> FnInfo:
        i = self._c.get(qn)
        if i is None:
            i = FnInfo(self.mod, qn, self.mod.func(qn))
            self._c[qn] = i
        return i

    def of(self, qn: str, fn: ast.AST) -> FnInfo:
        i = self._c.get(qn)
        if i is None or i.fn is not fn:
            i = FnInfo(self.mod, qn, fn)  # type: ignore[arg-type]
            self._c[qn] = i
        return i


# ----------------------------------------------------------------------------
# origins: which leaves (attribute chains, parameters, calls) may flow into an expression
# ----------------------------------------------------------------------------
class Tracer:
    def __init__(self, info: FnInfo):
        self.info = info

    def origins(self, e: ast.AST, at: Node, env: T.Optional[T.Dict[str, ast.AST]] = None) -> T.Set[str]:
        out: T.Set[str] = set()
        self._go(e, at, env or {}, out, set())
        return out

    def _name(self, name: str, at: Node, env: T.Dict[str, ast.AST], out: T.Set[str], busy: T.Set[T.Tuple[str, int]]) -> None:
        if name in env:
            self._go(env[name], at, {k: v for k, v in env.items() if k != name}, out, busy)
            return
        key = (name, at.id)
        if key in busy:
            return
        busy = busy | {key}
        info = self.info
        rs = info.reaching(name, at)
        if not rs:
            out.add(f'free:{name}')
        for d in rs:
            if d == ENTRY:
                out.add(f'param:{name}' if name in info.params else f'free:{name}')
                continue
            assert isinstance(d, Def)
            if d.value is not None:
                self._go(d.value, d.node, {}, out, busy)
            if d.kind == 'aug':
                self._name(name, d.node, {}, out, busy)
        for n, c in info.mutations().get(name, []):
            for a in list(c.args) + [k.value for k in c.keywords]:
                self._go(a.value if isinstance(a, ast.Starred) else a, n, {}, out, busy)

    def _go(self, e: ast.AST, at: Node, env: T.Dict[str, ast.AST], out: T.Set[str], busy: T.Set[T.Tuple[str, int]]) -> None:
        if isinstance(e, ast.Name):
            self._name(e.id, at, env, out, busy)
        elif isinstance(e, ast.Attribute):
            c = attr_chain(e)
            if c is not None:
                out.add(f'attr:{c}')
            else:
                self._go(e.value, at, env, out, busy)
        elif isinstance(e, ast.Call):
            out.add(f'call:{call_name(e) or "<dynamic>"}')
            if isinstance(e.func, ast.Attribute):
                self._go(e.func.value, at, env, out, busy)
            for a in e.args:
                self._go(a.value if isinstance(a, ast.Starred) else a, at, env, out, busy)
            for k in e.keywords:
                self._go(k.value, at, env, out, busy)
        elif isinstance(e, ast.Constant):
            out.add('const')
        elif isinstance(e, (ast.ListComp, ast.SetComp, ast.GeneratorExp, ast.DictComp)):
            env2 = dict(env)
            for g in e.generators:
                self._go(g.iter, at, env2, out, busy)
                for t in ast.walk(g.target):
                    if isinstance(t, ast.Name):
                        env2[t.id] = g.iter
            if isinstance(e, ast.DictComp):
                self._go(e.key, at, env2, out, busy)
                self._go(e.value, at, env2, out, busy)
            else:
                self._go(e.elt, at, env2, out, busy)
        elif isinstance(e, ast.Lambda):
            self._go(e.body, at, env, out, busy)
        else:
            for ch in ast.iter_child_nodes(e):
                if isinstance(ch, (ast.expr, ast.keyword, ast.FormattedValue)):
                    self._go(ch.value if isinstance(ch, ast.keyword) else ch, at, env, out, busy)


def self_fields(origins: T.Iterable[str]) -> T.Set[str]:
    return {o[len('attr:self.'):] for o in origins if o.startswith('attr:self.')}


def inline_locals(info: FnInfo, e: ast.AST, at: Node, depth: int = 4) -> ast.AST:
    """Copy of `e` with every local that has exactly one reaching plain assignment replaced by its value."""
    import copy

    class Sub(ast.NodeTransformer):
        def visit_Name(self, n: ast.Name) -> ast.AST:
            if not isinstance(n.ctx, ast.Load) or depth <= 0:
                return n
            rs = info.reaching(n.id, at)
            if len(rs) == 1 and isinstance(rs[0], Def) and rs[0].kind == 'assign' and rs[0].value is not None:
                return inline_locals(info, rs[0].value, rs[0].node, depth - 1)
            return n

        def visit_ListComp(self, n: ast.AST) -> ast.AST:
            return n
        visit_SetComp = visit_GeneratorExp = visit_DictComp = visit_Lambda = visit_ListComp
    return Sub().visit(copy.deepcopy(e))


# ----------------------------------------------------------------------------
# pairing: a created object is registered (or handed to the caller) on every normal path
# ----------------------------------------------------------------------------
class Pairing(T.NamedTuple):
    status: str              # registered | returned | direct | violated
    detail: str
    var: T.Optional[str]


def split_ifexp_stmts(stmts: T.Sequence[ast.stmt]) -> T.List[ast.stmt]:
    """Normal form for decision tables: a simple statement whose value operand is a conditional expression
    (`yield a if c else b`, `return a if c else b`, `x = a if c else b`, `f(a if c else b)` as a statement with one argument)
    is read as the if/else statement of its two instances; compound statements are rebuilt around their normalised bodies.
    The input nodes are never modified (synthetic copies only), so node identities of the original body stay usable."""
    import copy

    def operand(st: ast.stmt) -> T.Optional[T.Tuple[ast.IfExp, T.Callable[[ast.expr], ast.stmt]]]:
        def put(path: T.List[T.Tuple[str, T.Optional[int]]]) -> T.Callable[[ast.expr], ast.stmt]:
            def make(v: ast.expr) -> ast.stmt:
                new = copy.copy(st)
                cur: ast.AST = new
                for i, (fld, idx) in enumerate(path):
                    last = i == len(path) - 1
                    val = getattr(cur, fld)
                    if idx is None:
                        nxt = v if last else copy.copy(val)
                        setattr(cur, fld, nxt)
                    else:
                        lst = list(val)
                        nxt = v if last else copy.copy(lst[idx])
                        lst[idx] = nxt
                        setattr(cur, fld, lst)
                    cur = nxt
                return new
            return make
        if isinstance(st, ast.Expr) and isinstance(st.value, (ast.Yield, ast.Await)) and isinstance(st.value.value, ast.IfExp):
            return st.value.value, put([('value', None), ('value', None)])
        if isinstance(st, (ast.Return, ast.Assign, ast.AnnAssign, ast.AugAssign)) and isinstance(st.value, ast.IfExp):
            return st.value, put([('value', None)])
        if isinstance(st, ast.Expr) and isinstance(st.value, ast.Call) and len(st.value.args) == 1 and not st.value.keywords \
                and isinstance(st.value.args[0], ast.IfExp) and not any(isinstance(x, (ast.Call, ast.NamedExpr, ast.Yield, ast.Await)) for x in ast.walk(st.value.func)):
            return st.value.args[0], put([('value', None), ('args', 0)])
        return None

    out: T.List[ast.stmt] = []
    for st in stmts:
        hit = operand(st)
        if hit is not None:
            ie, make = hit
            new_if = ast.If(test=ie.test, body=split_ifexp_stmts([make(ie.body)]), orelse=split_ifexp_stmts([make(ie.orelse)]))
            ast.copy_location(new_if, st)
            out.append(new_if)
            continue
        blocks = [f for f in ('body', 'orelse', 'finalbody') if isinstance(getattr(st, f, None), list) and getattr(st, f) and isinstance(getattr(st, f)[0], ast.stmt)]
        if blocks and not isinstance(st, (ast.FunctionDef, ast.AsyncFunctionDef, ast.ClassDef)):
            new_st = copy.copy(st)
            changed = False
            for f in blocks:
                nb = split_ifexp_stmts(getattr(st, f))
                if len(nb) != len(getattr(st, f)) or any(a is not b for a, b in zip(nb, getattr(st, f))):
                    setattr(new_st, f, nb)
                    changed = True
            if isinstance(st, ast.Try):
                nh = []
                for h in st.handlers:
                    hb = split_ifexp_stmts(h.body)
                    if any(a is not b for a, b in zip(hb, h.body)):
                        h2 = copy.copy(h)
                        h2.body = hb
                        nh.append(h2)
                        changed = True
                    else:
                        nh.append(h)
                new_st.handlers = nh  # type: ignore[attr-defined]
            out.append(new_st if changed else st)
            continue
        out.append(st)
    return out


def strip_cast(e: ast.AST) -> ast.AST:
    """`T.cast(X, e)` / `typing.cast(X, e)` -> e (casts do nothing at run time)."""
    while isinstance(e, ast.Call) and call_name(e) in ('T.cast', 'typing.cast', 'cast') and len(e.args) == 2 and not e.keywords:
        e = e.args[1]
    return e


def _arg_position(call: ast.Call, var: str, skip: int = 0) -> T.Optional[T.Union[int, str]]:
    for i, a in enumerate(call.args[skip:]):
        a = strip_cast(a)
        if isinstance(a, ast.Name) and a.id == var:
            return i
    for k in call.keywords:
        v = strip_cast(k.value)
        if k.arg and isinstance(v, ast.Name) and v.id == var:
            return k.arg
    return None


def self_call(call: ast.Call, cls: str) -> T.Optional[T.Tuple[str, int]]:
    """`self.m(...)` -> ('self.m', 0); `Cls.m(self, ...)` -> ('self.m', 1) (explicit receiver); else None."""
    cn = call_name(call)
    if not cn:
        return None
    if cn.startswith('self.'):
        return cn, 0
    if cn.startswith(cls + '.') and cn.count('.') == 1 and call.args and isinstance(call.args[0], ast.Name) and call.args[0].id == 'self':
        return 'self.' + cn.split('.')[1], 1
    return None


def bind_call(call: ast.Call, fn: T.Union[ast.FunctionDef, ast.AsyncFunctionDef], implicit_first: bool = True) -> T.Optional[T.Dict[str, ast.AST]]:
    """Arguments of `call` bound to the parameters of `fn` by signature (positional index or keyword name).
    `implicit_first`: the call does not pass the first parameter (self/cls).  Keys '*' / '**' mark star arguments: a parameter
    that is not bound explicitly may then be bound by them (callers treat that as unknown)."""
    a = fn.args
    names = [x.arg for x in a.posonlyargs + a.args]
    if implicit_first and names:
        names = names[1:]
    out: T.Dict[str, ast.AST] = {}
    for n, v in zip(names, call.args):
        if isinstance(v, ast.Starred):
            out['*'] = v          # positions from here on are unknown
            break
        out[n] = v
    for k in call.keywords:
        if k.arg is None:
            out['**'] = k.value   # may bind any parameter not bound explicitly
        else:
            out[k.arg] = k.value
    return out


class Registrar:
    """Decides whether a CFG node hands a variable to one of the registering methods, directly
    (`self.add_build(v)`) or through a helper of the same class that registers that parameter on all its paths."""

    def __init__(self, infos: Infos, cls: str, direct: T.Set[str]):
        self.infos = infos
        self.cls = cls
        self.direct = direct          # dotted callee names, e.g. {'self.add_build', 'self.ninja.add_build'}
        self._helper: T.Dict[T.Tuple[str, str], bool] = {}

    def registers(self, n: Node, var: str, depth: int = 0) -> bool:
        for c in node_calls(n):
            sc = self_call(c, self.cls)
            cn, skip = sc if sc is not None else (call_name(c), 0)
            if cn is None:
                continue
            pos = _arg_position(c, var, skip)
            if pos is None:
                continue
            if cn in self.direct:
                if pos == 0 or isinstance(pos, str):
                    return True
                continue
            parts = cn.split('.')
            if len(parts) == 2 and parts[0] == 'self' and depth < 2:
                q = f'{self.cls}.{parts[1]}'
                if self.infos.mod.has_func(q):
                    hi = self.infos.get(q)
                    pnames = [p for p in hi.params if p not in ('self', 'cls')]
                    pname = pos if isinstance(pos, str) else (pnames[pos] if pos < len(pnames) else None)
                    if pname and self.helper_registers(q, pname, depth + 1):
                        return True
        return False

    def helper_registers(self, q: str, param: str, depth: int) -> bool:
        key = (q, param)
        if key in self._helper:
            return self._helper[key]
        self._helper[key] = False
        hi = self.infos.get(q)
        cfg = hi.cfg
        regs = [n for n in cfg.nodes if self.registers(n, param, depth)]
        kills = [d.node for d in hi.defs().get(param, [])]
        ok = bool(regs) and not kills and cfg.exit_return.id not in hi.reach(cfg.entry, regs)
        self._helper[key] = ok
        return ok


def _uses_of(fn: ast.AST, var: str) -> T.List[ast.Name]:
    return [x for x in ast.walk(fn) if isinstance(x, ast.Name) and x.id == var and isinstance(x.ctx, ast.Load)]


def captures(infos: Infos, cls: str, q: str, param: str, depth: int = 0, seen: T.Optional[T.Set[T.Tuple[str, str]]] = None) -> bool:
    """May method `q` keep its parameter `param` beyond the call (store it, return it, hand it to code the analysis cannot see)?"""
    seen = seen if seen is not None else set()
    if (q, param) in seen:
        return False
    seen.add((q, param))
    if depth > 2 or not infos.mod.has_func(q):
        return True
    fn = infos.mod.func(q)
    pm = infos.mod.parent_map()
    for u in _uses_of(fn, param):
        if _use_escapes(infos, cls, u, pm, depth, seen, None):
            return True
    return False


def _use_escapes(infos: Infos, cls: str, u: ast.Name, pm: T.Dict[ast.AST, ast.AST], depth: int, seen: T.Set[T.Tuple[str, str]],
                 reg: T.Optional['Registrar']) -> bool:
    par = pm.get(u)
    if isinstance(par, ast.Attribute) and par.value is u:
        return False                      # u.attr / u.method(...)
    if isinstance(par, (ast.Compare, ast.BoolOp, ast.UnaryOp, ast.If, ast.While, ast.IfExp, ast.Assert, ast.FormattedValue, ast.JoinedStr)):
        return isinstance(par, ast.IfExp) and par.test is not u
    call = par if isinstance(par, ast.Call) and u in par.args else (pm.get(par) if isinstance(par, ast.keyword) else None)
    if isinstance(call, ast.Call) and call_name(call) in ('T.cast', 'typing.cast', 'cast'):
        # a cast is transparent: judge the use of the cast expression instead
        fake = call
        par2 = pm.get(fake)
        call = par2 if isinstance(par2, ast.Call) and fake in par2.args else (pm.get(par2) if isinstance(par2, ast.keyword) else None)
        if call is None:
            return True
        u = fake  # type: ignore[assignment]
    if isinstance(call, ast.Call):
        sc = self_call(call, cls)
        cn = sc[0] if sc is not None else (call_name(call) or '')
        if cn in ('isinstance', 'id', 'repr', 'str', 'len', 'bool', 'type', 'hasattr', 'getattr'):
            return False
        if reg is not None and cn in reg.direct:
            return False
        if cn.startswith('self.') and cn.count('.') == 1 and infos.mod.has_func(f'{cls}.{cn[5:]}'):
            q = f'{cls}.{cn[5:]}'
            if sc is not None and sc[1]:
                import copy
                call2 = copy.copy(call)
                call2.args = call.args[1:]
                b = bind_call(call2, infos.mod.func(q), True) or {}
            else:
                b = bind_call(call, infos.mod.func(q), True) or {}
            names = [k for k, v in b.items() if v is u]
            if len(names) == 1 and names[0] not in ('*', '**'):
                return captures(infos, cls, q, names[0], depth + 1, seen)
        return True
    return True        # alias, display, return, yield, store, closure ...


def escapes(info: FnInfo, infos: Infos, cls: str, var: str, reg: 'Registrar') -> T.Optional[str]:
    """A use of local `var` through which the object may be registered/kept by code the pairing check does not see (None: closed)."""
    pm = infos.mod.parent_map()
    for u in _uses_of(info.fn, var):
        par = pm.get(u)
        if isinstance(par, ast.Return) and par.value is u:
            continue                      # handled by the pairing itself
        if _use_escapes(infos, cls, u, pm, 0, set(), reg):
            return short(pm.get(par, par) if isinstance(par, (ast.keyword,)) else par, 80)
    return None


def pairing(info: FnInfo, call: ast.Call, reg: Registrar) -> Pairing:
    """Where does the object created by `call` go on the normal paths of its function?"""
    cfg = info.cfg
    nodes = info.nodes_of(call)
    if not nodes:
        raise Undecided(f'{info.qn}: `{short(call, 70)}` is not on the control-flow graph')
    results: T.List[Pairing] = []
    for c in nodes:
        st = c.ast
        if c.kind != 'stmt':
            raise Undecided(f'{info.qn}: `{short(call, 70)}` is created inside a branch/loop head')
        if isinstance(st, ast.Return) and st.value is call:
            results.append(Pairing('returned', 'returned to the caller directly', None))
            continue
        if isinstance(st, ast.Expr) and isinstance(st.value, ast.Call) and call_name(st.value) in reg.direct and \
                ((st.value.args and st.value.args[0] is call) or any(k.value is call for k in st.value.keywords)):
            results.append(Pairing('direct', 'constructed as the argument of the registering call', None))
            continue
        if isinstance(st, ast.Expr) and st.value is call:
            results.append(Pairing('violated', 'the created object is discarded (expression statement)', None))
            continue
        var = None
        if isinstance(st, ast.Assign) and len(st.targets) == 1 and isinstance(st.targets[0], ast.Name) and st.value is call:
            var = st.targets[0].id
        elif isinstance(st, ast.AnnAssign) and isinstance(st.target, ast.Name) and st.value is call:
            var = st.target.id
        if var is None:
            raise Undecided(f'{info.qn}: `{short(st, 90)}` does not bind the created object to a plain local')
        regs = [n for n in cfg.nodes if reg.registers(n, var)]
        rets: T.List[Node] = []
        for n in cfg.nodes:
            if n.kind == 'stmt' and isinstance(n.ast, ast.Return) and n.ast.value is not None:
                if isinstance(n.ast.value, ast.Name) and n.ast.value.id == var:
                    rets.append(n)
                elif any(isinstance(x, ast.Name) and x.id == var for x in ast.walk(n.ast.value)) and c.id in _back(info, n):
                    raise Undecided(f'{info.qn}: `{short(n.ast, 80)}` returns `{var}` inside a larger value')
        kills = [d.node for d in info.defs().get(var, [])]
        # a registering statement that is itself a (re)definition of var cannot be both
        reach = info.reach(c, [n for n in regs + rets if n.id != c.id])
        bad: T.Optional[str] = None
        if cfg.exit_return.id in reach:
            bad = f'a normal path from the creation reaches the end of the function without `{var}` being registered or returned'
        else:
            for k in kills:
                if k.id in reach and k not in regs and k not in rets:
                    bad = f'`{var}` is overwritten by `{short(k.ast if k.kind == "stmt" else node_roots(k)[0], 70)}` before it is registered'
                    break
        if bad:
            esc = escapes(info, reg.infos, reg.cls, var, reg)
            if esc is not None:
                raise Undecided(f'{info.qn}: `{var}` is not registered on every path here, but `{esc}` hands it to code that may register or keep it')
            results.append(Pairing('violated', bad, var))
            continue
        # registered twice without being re-created: the second registration always reports a duplicate
        first = [r for r in regs if r.id in info.reach(c, [n for n in regs + rets + kills if n.id != r.id and n.id != c.id])]
        dup = None
        kill_ids = {k.id for k in kills}
        for r in first:
            if r.id in kill_ids:
                continue
            again = info.reach(r, kills)
            for r2 in regs:
                if r2.id in again:
                    dup = (f'`{var}` is registered again by `{short(node_roots(r2)[0], 70)}` without being re-created '
                           '(the second registration always reports a duplicate output)')
                    break
            if dup:
                break
        if dup:
            results.append(Pairing('violated', dup, var))
            continue
        got_ret = any(r.id in info.reach(c, [n for n in regs if n.id != c.id]) for r in rets)
        got_reg = bool(first)
        if got_ret and not got_reg:
            results.append(Pairing('returned', f'`{var}` is returned to the caller on every normal path', var))
        elif got_ret:
            results.append(Pairing('returned', f'`{var}` is registered or returned to the caller on every normal path', var))
        else:
            results.append(Pairing('registered', f'`{var}` reaches a registering call on every normal path', var))
    for r in results:
        if r.status == 'violated':
            return r
    for r in results:
        if r.status == 'returned':
            return r
    return results[0]


def _back(info: FnInfo, n: Node) -> T.Set[int]:
    """ids of nodes from which n is reachable (cheap: forward search from every node is avoided by reversing)."""
    cfg = info.cfg
    seen: T.Set[int] = set()
    stack = [n.id]
    while stack:
        a = stack.pop()
        for b, _ in cfg.pred[a]:
            if b not in seen:
                seen.add(b)
                stack.append(b)
    return seen


# ----------------------------------------------------------------------------
# symbolic rule names
# ----------------------------------------------------------------------------
def template_parts(e: ast.AST) -> T.Optional[T.List[T.Union[str, ast.AST]]]:
    """One normal form for string building: f-string, `a + 'lit'`, `'..%s..' % x`, `'..{}..'.format(x)`, `''.join([a, 'lit'])`
    -> [literal | expression, ...].  None when the expression is not such a template (or uses specs/conversions)."""
    if isinstance(e, ast.Constant) and isinstance(e.value, str):
        return [e.value]
    if isinstance(e, ast.JoinedStr):
        out: T.List[T.Union[str, ast.AST]] = []
        for v in e.values:
            if isinstance(v, ast.Constant):
                out.append(str(v.value))
            elif isinstance(v, ast.FormattedValue):
                if v.conversion != -1 or v.format_spec is not None:
                    return None
                out.append(v.value)
        return out
    if isinstance(e, ast.BinOp) and isinstance(e.op, ast.Add):
        a, b = template_parts(e.left), template_parts(e.right)
        if a is None or b is None:
            return None
        return a + b
    if isinstance(e, ast.BinOp) and isinstance(e.op, ast.Mod) and isinstance(e.left, ast.Constant) and isinstance(e.left.value, str):
        args = list(e.right.elts) if isinstance(e.right, ast.Tuple) else [e.right]
        out = []
        pieces = e.left.value.split('%s')
        if '%' in ''.join(pieces).replace('%%', '') or len(pieces) - 1 != len(args):
            return None
        for i, lit in enumerate(pieces):
            if lit:
                out.append(lit.replace('%%', '%'))
            if i < len(args):
                out.append(args[i])
        return out
    if isinstance(e, ast.Call) and isinstance(e.func, ast.Attribute) and e.func.attr == 'format' and isinstance(e.func.value, ast.Constant) \
            and isinstance(e.func.value.value, str) and not e.keywords and not any(isinstance(a, ast.Starred) for a in e.args):
        out = []
        auto = 0
        try:
            fields = list(string.Formatter().parse(e.func.value.value))
        except ValueError:
            return None
        for lit, field, spec, conv in fields:
            if lit:
                out.append(lit)
            if field is None:
                continue
            if spec or conv:
                return None
            if field == '':
                i = auto
                auto += 1
            elif field.isdigit():
                i = int(field)
            else:
                return None
            if i >= len(e.args):
                return None
            out.append(e.args[i])
        return out
    if isinstance(e, ast.Call) and isinstance(e.func, ast.Attribute) and e.func.attr == 'join' and isinstance(e.func.value, ast.Constant) \
            and isinstance(e.func.value.value, str) and len(e.args) == 1 and not e.keywords and isinstance(e.args[0], (ast.List, ast.Tuple)) \
            and not any(isinstance(x, ast.Starred) for x in e.args[0].elts):
        sep = e.func.value.value
        out = []
        for i, x in enumerate(e.args[0].elts):
            if i and sep:
                out.append(sep)
            sub = template_parts(x)
            out.extend(sub if sub is not None else [x])
        return out
    return [e]


class Hole(T.NamedTuple):
    role: str

    def __repr__(self) -> str:
        return f'<{self.role}>'


Shape = T.Tuple[T.Union[str, Hole], ...]
LANG = '@.get_language()'


def cat(a: Shape, b: Shape) -> Shape:
    if a and b and isinstance(a[-1], str) and isinstance(b[0], str):
        return a[:-1] + (a[-1] + b[0],) + b[1:]
    return a + b


def show(s: Shape) -> str:
    return ''.join(p if isinstance(p, str) else repr(p) for p in s) or "''"


def _product(xs: T.List[T.Set[Shape]]) -> T.Set[Shape]:
    acc: T.Set[Shape] = {()}
    for alt in xs:
        acc = {cat(a, b) for a in acc for b in alt}
        if len(acc) > 256:
            raise Undecided('rule-name expression has more than 256 alternatives')
    return acc


class Frame:
    def __init__(self, info: FnInfo, bind: T.Optional[T.Dict[str, T.Tuple[T.Optional[ast.AST], T.Optional['Frame'], T.Optional[Node]]]]):
        self.info = info
        self.bind = bind     # None: top level -> parameters are resolved through the call sites of the function


def _role(e: ast.AST) -> T.Optional[str]:
    """`compiler.get_language()` -> '@.get_language()', `c.mode` -> '@.mode' (root local abstracted)."""
    import copy
    root = e
    while True:
        if isinstance(root, ast.Attribute):
            root = root.value
        elif isinstance(root, ast.Call) and isinstance(root.func, ast.Attribute) and not root.args and not root.keywords:
            root = root.func.value
        elif isinstance(root, ast.Subscript):
            root = root.value
        else:
            break
    if not isinstance(root, ast.Name) or root is e:
        return None

    class R(ast.NodeTransformer):
        def visit_Name(self, n: ast.Name) -> ast.AST:
            return ast.Name(id='@', ctx=n.ctx) if n.id == root.id else n  # type: ignore[union-attr]
    return norm(R().visit(copy.deepcopy(e)))


class SymEval:
    """Evaluates a str-valued expression of a method of `cls` to a set of shapes: literal text with
    holes for run-time parts (language, mode).  Finite choices (PerMachine(a, b)[m], if/else, several reaching
    definitions, several call sites of a helper) become alternatives."""

    def __init__(self, repo: Repo, infos: Infos, cls: str):
        self.repo = repo
        self.infos = infos
        self.mod = infos.mod
        self.cls = cls
        self._callers: T.Optional[T.Dict[str, T.List[T.Tuple[str, ast.Call]]]] = None
        self._methods: T.Dict[str, T.Any] = {}

    def callers(self, meth: str) -> T.List[T.Tuple[str, ast.Call]]:
        if self._callers is None:
            idx: T.Dict[str, T.List[T.Tuple[str, ast.Call]]] = {}
            p = self.cls + '.'
            for q, f in self.mod.funcs().items():
                if not q.startswith(p):
                    continue
                for c in walk_no_nested(f, include_root=False):
                    if isinstance(c, ast.Call):
                        cn = call_name(c)
                        if cn and cn.count('.') == 1 and cn.split('.')[0] in ('self', 'cls', self.cls):
                            idx.setdefault(cn.split('.')[1], []).append((q, c))
            self._callers = idx
        return self._callers.get(meth, [])

    def site(self, qn: str, e: ast.AST, anchor: T.Optional[ast.AST] = None) -> T.Set[Shape]:
        info = self.infos.get(qn)
        return self.shapes(e, Frame(info, None), info.node_of(anchor if anchor is not None else e), 0)

    # ------------------------------------------------------------------
    def shapes(self, e: ast.AST, fr: Frame, at: T.Optional[Node], depth: int, busy: T.FrozenSet[T.Tuple[str, str, int]] = frozenset()) -> T.Set[Shape]:
        if depth > 8:
            raise Undecided(f'rule-name expression `{short(e, 60)}`: evaluation too deep')
        if isinstance(e, ast.Constant):
            if isinstance(e.value, str):
                return {(e.value,) if e.value else ()}
            raise Undecided(f'rule-name expression `{short(e, 60)}` is not a string')
        if isinstance(e, ast.JoinedStr):
            parts: T.List[T.Set[Shape]] = []
            for v in e.values:
                if isinstance(v, ast.Constant):
                    parts.append({(str(v.value),)})
                elif isinstance(v, ast.FormattedValue):
                    if v.conversion != -1 or v.format_spec is not None:
                        raise Undecided(f'formatted value with conversion in rule name `{short(e, 60)}`')
                    parts.append(self.shapes(v.value, fr, at, depth, busy))
            return _product(parts)
        if isinstance(e, ast.BinOp) and isinstance(e.op, ast.Add):
            return _product([self.shapes(e.left, fr, at, depth, busy), self.shapes(e.right, fr, at, depth, busy)])
        parts_t = template_parts(e)
        if parts_t is not None and not (len(parts_t) == 1 and parts_t[0] is e):
            return _product([{(p,)} if isinstance(p, str) else self.shapes(p, fr, at, depth, busy) for p in parts_t if p != ''])
        if isinstance(e, ast.IfExp):
            return self.shapes(e.body, fr, at, depth, busy) | self.shapes(e.orelse, fr, at, depth, busy)
        if isinstance(e, ast.Subscript) and isinstance(e.value, ast.Call) and call_name(e.value) in ('PerMachine', 'mesonlib.PerMachine') \
                and len(e.value.args) == 2 and not e.value.keywords:
            return self.shapes(e.value.args[0], fr, at, depth, busy) | self.shapes(e.value.args[1], fr, at, depth, busy)
        if isinstance(e, ast.Call):
            f = e.func
            if isinstance(f, ast.Attribute) and f.attr == 'format' and isinstance(f.value, ast.Constant) and isinstance(f.value.value, str):
                return self._format(f.value.value, e, fr, at, depth, busy)
            # a constant lookup table read with .get(key[, default]): the values (and the default) are the alternatives
            if isinstance(f, ast.Attribute) and f.attr == 'get' and 1 <= len(e.args) <= 2 and not e.keywords:
                vals = self._table_values(f.value, fr, at)
                if vals is not None:
                    if len(e.args) < 2:
                        raise Undecided(f'rule-name expression `{short(e, 60)}`: table lookup without a default may give None')
                    return vals | self.shapes(e.args[1], fr, at, depth, busy)
            cn = call_name(e)
            if cn and cn.count('.') == 1 and cn.split('.')[0] in ('self', 'cls', self.cls) and \
                    (self.mod.has_func(f'{self.cls}.{cn.split(".")[1]}') or self.repo.find_method(self.mod, self.mod.cls(self.cls), cn.split('.')[1]) is not None):
                return self._method(cn.split('.')[1], e, fr, at, depth, busy)
            if isinstance(f, ast.Name) and self.mod.has_func(f.id) and '.' not in f.id:
                return self._method(f.id, e, fr, at, depth, busy, module_level=True)
            r = _role(e)
            if r is not None:
                return {(Hole(r),)}
            raise Undecided(f'rule-name expression `{short(e, 60)}`: unknown call')
        if isinstance(e, ast.Subscript):
            vals = self._table_values(e.value, fr, at)
            if vals is not None:
                return vals
        if isinstance(e, ast.Attribute):
            r = _role(e)
            if r is not None and not (isinstance(e.value, ast.Name) and e.value.id in ('self', 'cls')):
                return {(Hole(r),)}
            raise Undecided(f'rule-name expression `{short(e, 60)}`: attribute of unknown value')
        if isinstance(e, ast.Name):
            return self._name(e.id, fr, at, depth, busy)
        raise Undecided(f'rule-name expression `{short(e, 60)}` is outside the string subset')

    def _const_iter(self, d: Def, fr: Frame) -> T.Optional[T.Set[Shape]]:
        """Loop variable over a constant sequence (of strings, or of tuples when unpacked): the strings at that position."""
        from ..consteval import fold_expr
        assert d.value is not None
        e = inline_locals(fr.info, d.value, d.node)
        if isinstance(e, (ast.List, ast.Tuple)) and e.elts:
            # a display whose rows may hold non-constant members: only the position that is read has to be a string constant
            picked = []
            for el in e.elts:
                sub = el if d.index is None else (el.elts[d.index] if isinstance(el, (ast.Tuple, ast.List)) and d.index < len(el.elts) else None)
                if not (isinstance(sub, ast.Constant) and isinstance(sub.value, str)):
                    picked = []
                    break
                picked.append(sub.value)
            if picked:
                return {((x,) if x else ()) for x in picked}
        try:
            v = fold_expr(self.repo, self.mod, e)
        except Exception:
            return None
        if isinstance(v, dict):
            v = list(v.keys()) if d.index is None else None
        if not isinstance(v, (list, tuple)) or not v:
            return None
        items = []
        for x in v:
            if d.index is not None:
                if not isinstance(x, (list, tuple)) or d.index >= len(x):
                    return None
                x = x[d.index]
            if not isinstance(x, str):
                return None
            items.append(x)
        return {((x,) if x else ()) for x in items}

    def _table_values(self, recv: ast.AST, fr: Frame, at: T.Optional[Node]) -> T.Optional[T.Set[Shape]]:
        """If `recv` folds to a constant mapping/sequence of strings (module- or class-level table, or a local dict display): its values."""
        from ..consteval import fold_expr, fold_const
        e = recv
        if at is not None and isinstance(e, ast.Name) and (e.id in fr.info.params or fr.info.defs().get(e.id)):
            e = inline_locals(fr.info, e, at)
            if isinstance(e, ast.Name):
                return None          # a parameter / a local with several definitions: not a constant table
        try:
            c = attr_chain(e)
            if c and c.count('.') == 1 and c.split('.')[0] in ('self', 'cls', self.cls):
                v = fold_const(self.repo, self.mod, c.split('.')[1], self.cls)
            else:
                v = fold_expr(self.repo, self.mod, e)
        except Exception:
            return None
        if isinstance(v, dict):
            items = list(v.values())
        elif isinstance(v, (list, tuple)):
            items = list(v)
        else:
            return None
        if not items or not all(isinstance(x, str) for x in items):
            return None
        return {((x,) if x else ()) for x in items}

    def _format(self, tmpl: str, call: ast.Call, fr: Frame, at: T.Optional[Node], depth: int, busy: T.FrozenSet[T.Tuple[str, str, int]]) -> T.Set[Shape]:
        if call.keywords or any(isinstance(a, ast.Starred) for a in call.args):
            raise Undecided(f'`{short(call, 60)}`: format() with keywords')
        parts: T.List[T.Set[Shape]] = []
        auto = 0
        for lit, field, spec, conv in string.Formatter().parse(tmpl):
            if lit:
                parts.append({(lit,)})
            if field is None:
                continue
            if spec or conv:
                raise Undecided(f'`{short(call, 60)}`: format spec')
            if field == '':
                i = auto
                auto += 1
            elif field.isdigit():
                i = int(field)
            else:
                raise Undecided(f'`{short(call, 60)}`: named format field')
            if i >= len(call.args):
                raise Undecided(f'`{short(call, 60)}`: format field {i} has no argument')
            parts.append(self.shapes(call.args[i], fr, at, depth, busy))
        return _product(parts)

    def _method(self, meth: str, call: ast.Call, fr: Frame, at: T.Optional[Node], depth: int, busy: T.FrozenSet[T.Tuple[str, str, int]],
                module_level: bool = False) -> T.Set[Shape]:
        if module_level and meth not in self._methods:
            # a module-level function of the same module (a helper moved out of the class): no implicit first parameter
            class _M:       # stands in for the class in messages
                name = '<module>'
            self._methods[meth] = (self.mod, _M, self.mod.func(meth))
        if meth not in self._methods:
            if self.mod.has_func(f'{self.cls}.{meth}'):      # own method: no MRO walk needed
                self._methods[meth] = (self.mod, self.mod.cls(self.cls), self.mod.func(f'{self.cls}.{meth}'))
            else:
                self._methods[meth] = self.repo.find_method(self.mod, self.mod.cls(self.cls), meth)
        found = self._methods[meth]
        if found is None:
            raise Undecided(f'`{short(call, 60)}`: method {meth} not found in {self.cls} or its bases')
        m2, c2, fn = found
        if m2 is not self.mod:
            raise Undecided(f'`{short(call, 60)}`: rule-name producer {meth} lives in another module')
        # a producer may have several returns (if/elif chain, early returns): it yields the union of their shapes;
        # which return is taken depends on run-time conditions the closure check does not need
        rets = [x for x in walk_no_nested(fn, include_root=False) if isinstance(x, ast.Return)]
        if not rets or any(x.value is None for x in rets):
            raise Undecided(f'rule-name producer {c2.name}.{meth} has a path that returns no value')
        if any(isinstance(x, (ast.Yield, ast.YieldFrom)) for x in walk_no_nested(fn, include_root=False)):
            raise Undecided(f'rule-name producer {c2.name}.{meth} is a generator')
        info = self.infos.of(meth if module_level else f'{c2.name}.{meth}', fn)
        if info.cfg.exit_return.id in info.reach(info.cfg.entry, [n for r_ in rets for n in info.cfg.stmt_nodes(r_)]):
            raise Undecided(f'rule-name producer {c2.name}.{meth} can fall off its end (returns None)')
        a = fn.args
        names = [x.arg for x in a.posonlyargs + a.args]
        if 'staticmethod' not in decorator_names(fn) and not module_level:
            names = names[1:]
        defaults = dict(zip(reversed(names), reversed(a.defaults)))
        bind: T.Dict[str, T.Tuple[T.Optional[ast.AST], T.Optional[Frame], T.Optional[Node]]] = {}
        if any(isinstance(x, ast.Starred) for x in call.args) or any(k.arg is None for k in call.keywords):
            raise Undecided(f'`{short(call, 60)}`: star arguments')
        for n, v in zip(names, call.args):
            bind[n] = (v, fr, at)
        for k in call.keywords:
            bind[k.arg or ''] = (k.value, fr, at)
        for n in names:
            if n not in bind:
                if n not in defaults:
                    raise Undecided(f'`{short(call, 60)}`: parameter {n} of {meth} is not bound')
                bind[n] = (defaults[n], None, None)
        out: T.Set[Shape] = set()
        callee = Frame(info, bind)
        for r_ in rets:
            nodes = info.cfg.stmt_nodes(r_)
            if not nodes:
                continue      # unreachable return
            assert r_.value is not None
            out |= self.shapes(r_.value, callee, nodes[0], depth + 1, busy)
        if not out:
            raise Undecided(f'rule-name producer {c2.name}.{meth}: no reachable return')
        return out

    def _name(self, name: str, fr: Frame, at: T.Optional[Node], depth: int, busy: T.FrozenSet[T.Tuple[str, str, int]]) -> T.Set[Shape]:
        info = fr.info
        if at is None:
            raise Undecided(f'name `{name}` in a default value')
        key = (info.qn, name, at.id)
        if key in busy:
            raise Undecided(f'{info.qn}: `{name}` is defined in terms of itself around a loop')
        busy = busy | {key}
        rs = info.reaching(name, at)
        if not rs:
            raise Undecided(f'{info.qn}: no definition of `{name}` reaches its use')
        out: T.Set[Shape] = set()
        for d in rs:
            if d == ENTRY:
                if name in info.params:
                    out |= self._param(name, fr, depth, busy)
                else:
                    out |= self._global(name)
                continue
            assert isinstance(d, Def)
            if d.kind == 'assign' and d.value is not None:
                out |= self.shapes(d.value, fr, d.node, depth, busy)
            elif d.kind == 'aug' and d.value is not None and isinstance(d.node.ast, ast.AugAssign) and isinstance(d.node.ast.op, ast.Add):
                out |= _product([self._name(name, fr, d.node, depth, busy), self.shapes(d.value, fr, d.node, depth, busy)])
            elif d.kind == 'iter' and d.value is not None and self._const_iter(d, fr) is not None:
                out |= self._const_iter(d, fr) or set()
            elif d.kind == 'iter' and d.index == 0 and isinstance(d.value, ast.Call) and isinstance(d.value.func, ast.Attribute) \
                    and d.value.func.attr == 'items' and not d.value.args:
                org = Tracer(info).origins(d.value.func.value, d.node)
                if any(o.startswith('attr:') and o.endswith('coredata.compilers') for o in org):
                    out.add((Hole(LANG),))
                else:
                    raise Undecided(f'{info.qn}: `{name}` iterates the keys of `{short(d.value, 50)}`, not of coredata.compilers')
            else:
                raise Undecided(f'{info.qn}: `{name}` is bound by `{short(node_roots(d.node)[0] if node_roots(d.node) else None, 60)}` ({d.kind}), not a string expression')
        return out

    def _param(self, name: str, fr: Frame, depth: int, busy: T.FrozenSet[T.Tuple[str, str, int]]) -> T.Set[Shape]:
        if fr.bind is not None:
            if name not in fr.bind:
                raise Undecided(f'{fr.info.qn}: parameter `{name}` is not bound')
            e, fr2, at2 = fr.bind[name]
            assert e is not None
            if fr2 is None:
                return self.shapes(e, Frame(fr.info, {}), None, depth + 1, busy)
            return self.shapes(e, fr2, at2, depth + 1, busy)
        # top level: union over the call sites inside the class
        meth = fr.info.qn.split('.')[-1]
        fn = fr.info.fn
        a = fn.args
        names = [x.arg for x in a.posonlyargs + a.args]
        if 'staticmethod' not in decorator_names(fn):
            names = names[1:]
        defaults = dict(zip(reversed(names), reversed(a.defaults)))
        sites = self.callers(meth)
        if not sites:
            raise Undecided(f'{fr.info.qn}: parameter `{name}` names a rule but the method has no call site in {self.cls}')
        out: T.Set[Shape] = set()
        for q, c in sites:
            ci = self.infos.get(q)
            val: T.Optional[ast.AST] = None
            if name in names and names.index(name) < len(c.args):
                val = c.args[names.index(name)]
            for k in c.keywords:
                if k.arg == name:
                    val = k.value
            cfr = Frame(ci, None)
            if val is None:
                if name not in defaults:
                    raise Undecided(f'{q}: call `{short(c, 60)}` does not bind `{name}`')
                out |= self.shapes(defaults[name], Frame(fr.info, {}), None, depth + 1, busy)
            else:
                out |= self.shapes(val, cfr, ci.node_of(c), depth + 1, busy)
        return out

    def _global(self, name: str) -> T.Set[Shape]:
        from ..consteval import fold_const
        try:
            v = fold_const(self.repo, self.mod, name)
        except Exception as ex:
            raise Undecided(f'`{name}` is neither a local nor a foldable module constant ({ex.__class__.__name__})')
        if isinstance(v, str):
            return {(v,) if v else ()}
        raise Undecided(f'module constant `{name}` is not a string')
