"""C01.R4 (evaluation order / short-circuit) and C01.R5 (dispatch exhaustiveness and order), plus the
evaluator facts that C01.R2 chains through (DESIGN section 2 C01)."""
from __future__ import annotations

import ast
import typing as T

from ..core import Module, Repo, Undecided, norm, short, attr_chain, walk_no_nested
from ..report import RuleCtx
from ..cfg import CFG
from .c01_sym import SymPath, sym_paths, is_call, show, subterms, private_helpers, module_helpers
from . import c01_parser

IB = 'mesonbuild/interpreterbase/interpreterbase.py'
HELPERS = 'mesonbuild/interpreterbase/helpers.py'
INTERP = 'mesonbuild/interpreter/interpreter.py'
MPARSER = c01_parser.MPARSER
OPAQUE_METHODS = {'_holderify', '_unholder_args'}       # part of the rules' vocabulary: never spliced
EVAL_VOCABULARY = OPAQUE_METHODS | {'set_variable', 'get_variable', 'function_call', 'method_call', 'assignment', 'reduce_arguments', 'expand_default_kwargs',
                                    'unknown_function_called', 'run', 'parse_project', 'sanity_check_ast', 'load_root_meson_file', 'read_buildfile'}


def evaluator_helpers(mod: Module) -> T.Dict[str, ast.FunctionDef]:
    """Methods of InterpreterBase outside the evaluator vocabulary (evaluate_*, variable table, holderify): candidates for extracted blocks."""
    out = {s.name: s for s in mod.cls('InterpreterBase').body if isinstance(s, ast.FunctionDef) and not s.name.startswith('evaluate_') and not s.name.startswith('__')
           and s.name not in EVAL_VOCABULARY and all(norm(d) == 'staticmethod' for d in s.decorator_list)}
    out.update(module_helpers(mod, stop={'_unholder'}))      # a block moved out to a private module-level function (kind E2)
    return out


def rename(t: T.Any, param: str, to: str = 'NODE') -> T.Any:
    if isinstance(t, tuple):
        if len(t) == 2 and t[0] == 'name' and isinstance(t[1], str):
            if t[1] == param:
                return ('name', to)
            if t[1].startswith(param + '.'):
                return ('name', to + t[1][len(param):])
            return t
        return tuple(rename(x, param, to) for x in t)
    return t


class EvalFn:
    """Symbolic paths of one `InterpreterBase.evaluate_*` method, node parameter renamed to NODE."""

    def __init__(self, ctx: RuleCtx, name: str, unroll: int = 1, handlers: bool = False):
        self.mod = ctx.repo.module(IB)
        self.qn = f'InterpreterBase.{name}'
        self.fn = self.mod.func(self.qn)
        ps = [a.arg for a in self.fn.args.args[1:]]
        if not ps:
            raise Undecided(f'{self.qn}: no node parameter')
        self.param = ps[0]
        # statements extracted into private helpers of the class are spliced back (two levels) before the paths are enumerated
        self.paths = sym_paths(self.fn, unroll=unroll, handlers=handlers, helpers=evaluator_helpers(self.mod), mod=self.mod)

    def r(self, t: T.Any) -> T.Any:
        return rename(t, self.param)


def EV(field: str) -> T.Tuple[T.Any, ...]:
    return ('EV', field)


def abstract(t: T.Any) -> T.Any:
    """Replace call identities by meaning: evaluation of a node field, operator application, holderify, unholder."""
    if not isinstance(t, tuple):
        return t
    if is_call(t):
        fname, recv, args = t[2], t[3], t[4]
        if fname == 'self.evaluate_statement' and len(args) == 1 and args[0][0] == 'name' and args[0][1].startswith('NODE.'):
            return ('EV', args[0][1][5:])
        kw = dict(t[5])
        if fname == '.operator_call' and recv is not None and len(args) + len(kw) == 2 and set(kw) <= {'operator', 'other'}:
            bound = list(args) + [kw[k] for k in ('operator', 'other')[len(args):]] if set(kw) == set(('operator', 'other')[len(args):]) else None
            if bound is not None:
                return ('OP', abstract(bound[0]), abstract(recv), abstract(bound[1]))
        if fname == 'self._holderify' and len(args) + len(kw) == 1 and set(kw) <= {'res'}:
            return ('HOLD', abstract((list(args) + list(kw.values()))[0]))
        if fname == '_unholder' and len(args) + len(kw) == 1 and set(kw) <= {'obj'}:
            return ('UNHOLD', abstract((list(args) + list(kw.values()))[0]))
        return ('call', fname, abstract(recv) if recv is not None else None, tuple(abstract(a) for a in args), tuple((k, abstract(v)) for k, v in t[5]))
    if t and t[0] == 'name' and isinstance(t[1], str):
        parts = t[1].split('.')
        if len(parts) > 2 and parts[-2] == 'MesonOperator':
            return ('name', '.'.join(parts[-2:]))
        return t
    if t and t[0] in ('const', 'expr'):
        return t
    return tuple(abstract(x) if isinstance(x, tuple) else x for x in t)


def fmt(t: T.Any) -> str:
    if isinstance(t, tuple) and t:
        if t[0] == 'EV':
            return f'eval({t[1]})'
        if t[0] == 'OP':
            return f'{fmt(t[2])}.operator_call({fmt(t[1])}, {fmt(t[3])})'
        if t[0] == 'HOLD':
            return f'holderify({fmt(t[1])})'
        if t[0] == 'UNHOLD':
            return f'unholder({fmt(t[1])})'
        if t[0] == 'call':
            return f'{fmt(t[2]) if t[2] is not None else ""}{t[1]}(' + ', '.join(fmt(a) for a in t[3]) + ')'
        if t[0] == 'const':
            return repr(t[1])
        if t[0] in ('name', 'expr'):
            return str(t[1])
        if t[0] == 'op':
            return f'{t[1]}(' + ', '.join(fmt(x) for x in t[2]) + ')'
        if t[0] in ('tuple', 'list', 'set'):
            return '(' + ', '.join(fmt(x) for x in t[1]) + ')'
        if t[0] == 'sub':
            return f'{fmt(t[1])}[{fmt(t[2])}]'
    return show(t)


BOOL = ('name', 'MesonOperator.BOOL')
NONE = ('const', None)


class PathView:
    def __init__(self, ef: EvalFn, sp: SymPath):
        self.sp = sp
        self.ef = ef
        self.evals: T.List[str] = []           # node fields evaluated, in order
        self.ops: T.List[T.Any] = []           # abstract operator applications, in order
        for a in sp.actions:
            if a.kind == 'call':
                ab = abstract(ef.r(a.term))
                if isinstance(ab, tuple) and ab[0] == 'EV':
                    self.evals.append(ab[1])
                elif isinstance(ab, tuple) and ab[0] == 'OP':
                    self.ops.append(ab)
                elif isinstance(ab, tuple) and ab[0] == 'call' and ab[1] == 'self.evaluate_statement':
                    # a node computed at run time (conditional expression, local table ...): outside the idioms understood here
                    raise Undecided(f'{ef.qn}: evaluates a computed node {fmt(ab)}')
        self.conds = [(abstract(ef.r(t)), v) for t, v in sp.conds()]
        self.result = abstract(ef.r(sp.result)) if sp.result is not None else None
        self.outcome = sp.outcome

    def truth(self, term: T.Any) -> T.Optional[bool]:
        for t, v in self.conds:
            if t == term:
                return v
        # the value is tested only as part of a compound condition that was bound to a local: not judged
        for t, v in self.conds:
            if t != term and any(x == term for x in _subterms_abs(t)) and isinstance(t, tuple) and t[0] == 'op' and t[1] in ('And', 'Or'):
                raise Undecided(f'{self.ef.qn}: {fmt(term)} is tested inside the compound condition {fmt(t)}')
        return None


def _subterms_abs(t: T.Any) -> T.Iterator[T.Any]:
    if isinstance(t, tuple):
        yield t
        for x in t:
            if isinstance(x, tuple):
                yield from _subterms_abs(x)


def views(ef: EvalFn) -> T.List[PathView]:
    return [PathView(ef, sp) for sp in ef.paths]


# ---------------------------------------------------------------------------
# R4
# ---------------------------------------------------------------------------

def bool_evaluator(ctx: RuleCtx, name: str, left: str, right: str, check: bool) -> T.Optional[bool]:
    """Short-circuit analysis of a two-operand boolean evaluator.  Returns the truth value of the left operand
    under which the right operand is evaluated (True: `and`, False: `or`), None if inconsistent."""
    ef = EvalFn(ctx, name)
    mod, qn = ef.mod, ef.qn
    bl = ('OP', BOOL, EV(left), NONE)
    br = ('OP', BOOL, EV(right), NONE)
    pol: T.Set[T.Optional[bool]] = set()
    shorts = fulls = 0
    for v in views(ef):
        if right in v.evals:
            pol.add(v.truth(bl))
    if not pol:
        for v in views(ef):
            for a in v.sp.actions:
                if a.kind == 'call' and any(x == ('name', f'{ef.param}.{right}') for x in subterms(a.term[4])) and a.term[2] != 'self.evaluate_statement':
                    raise Undecided(f'{qn}: the right operand is handed to {a.term[2]}, which this rule cannot see into')
    if len(pol) != 1 or None in pol:
        if check:
            ctx.violation(mod, qn, f'{name}: right operand evaluation', f'the right operand is evaluated on paths where the truth of the left operand is {sorted(map(str, pol))}: '
                          'it must be evaluated exactly under one polarity of the left operand (short-circuit)', ef.fn)
        return None
    want = next(iter(pol))
    if not check:
        return want
    for v in views(ef):
        node = v.sp.last_node
        if v.evals[:1] != [left]:
            ctx.violation(mod, qn, f'{name}: first evaluation {v.evals[:1]}', f'the first operand evaluated is {v.evals[:1]}, not the left one', node)
            continue
        if v.evals.count(left) != 1 or v.evals.count(right) > 1:
            ctx.violation(mod, qn, f'{name}: operands evaluated {v.evals}', f'operands are evaluated {v.evals}: each at most once, left first', node)
            continue
        if v.outcome == 'raise':
            continue
        tl = v.truth(bl)
        if right not in v.evals:
            if v.result == EV(left) and v.truth(('call', 'isinstance', None, (EV(left), ('name', 'Disabler')), ())) is True:
                continue
            ok = v.result == ('HOLD', bl) and tl is (not want)
            shorts += ok
            ctx.require(ok, f'{name}: left {str(not want).lower()} -> result is the left truth value, right operand not evaluated', mod, qn,
                        f'{name}: short path -> {fmt(v.result)}', f'a path that does not evaluate the right operand returns {fmt(v.result)} with the left truth value {tl}; '
                        f'reference: holderify(left truth) exactly when the left operand is {str(not want).lower()}', node)
        else:
            if v.result == EV(right) and v.truth(('call', 'isinstance', None, (EV(right), ('name', 'Disabler')), ())) is True:
                continue
            ok = v.result == ('HOLD', br) and tl is want
            fulls += ok
            ctx.require(ok, f'{name}: left {str(want).lower()} -> result is the truth value of the right operand', mod, qn,
                        f'{name}: full path -> {fmt(v.result)}', f'a path that evaluates both operands returns {fmt(v.result)} (left truth {tl}); reference: holderify(bool of right)', node)
    ctx.floor(f'{name}: short-circuit and full paths', min(shorts, fulls), 1)
    return want


def r4(ctx: RuleCtx) -> None:
    mod = ctx.repo.module(IB)
    arms = dispatch_arms(ctx)
    # and / or
    for cls, want, word in (('AndNode', True, 'and'), ('OrNode', False, 'or')):
        target = arm_method(arms, cls)
        if target is None:
            raise Undecided(f'evaluate_statement: arm for {cls} is not a single evaluator call')
        pol = bool_evaluator(ctx, target, 'left', 'right', check=True)
        if pol is not None:
            ctx.require(pol is want, f'{cls} -> {target}: right operand evaluated only when the left one is {str(want).lower()} (`{word}`)', mod,
                        'InterpreterBase.evaluate_statement', f'{cls} short-circuit polarity',
                        f'{cls} is evaluated by {target}, which evaluates the right operand when the left one is {str(pol).lower()}; `{word}` requires {str(want).lower()}',
                        mod.func(f'InterpreterBase.{target}'))
    # ternary
    target = arm_method(arms, 'TernaryNode')
    if target is None:
        raise Undecided('evaluate_statement: arm for TernaryNode is not a single evaluator call')
    ef = EvalFn(ctx, target)
    bc = ('OP', BOOL, EV('condition'), NONE)
    seen = set()
    for v in views(ef):
        if v.outcome == 'raise':
            continue
        t = v.truth(bc)
        if v.evals == ['condition'] and v.result == EV('condition'):
            continue    # disabler
        want_arm = {True: 'trueblock', False: 'falseblock'}.get(t)      # type: ignore[arg-type]
        ok = want_arm is not None and v.evals == ['condition', want_arm] and v.result == EV(want_arm)
        seen.add(t)
        ctx.require(ok, f'{target}: condition {t} -> only {want_arm} is evaluated and returned', ef.mod, ef.qn, f'ternary: condition {t} evaluates {v.evals}',
                    f'with the condition {t} the ternary evaluates {v.evals} and returns {fmt(v.result)}; reference: condition, then only the {want_arm}', v.sp.last_node)
    ctx.require(seen == {True, False}, f'{target}: both polarities of the condition are handled', ef.mod, ef.qn, 'ternary arms', f'ternary handles condition values {seen}', ef.fn)
    # if / elif / else
    check_if(ctx, arm_method(arms, 'IfClauseNode') or 'evaluate_if')
    # operand order of the binary evaluators
    for cls, fa, fb in (('ComparisonNode', 'left', 'right'), ('ArithmeticNode', 'left', 'right'), ('IndexNode', 'iobject', 'index')):
        target = arm_method(arms, cls)
        if target is None:
            raise Undecided(f'evaluate_statement: arm for {cls} is not a single evaluator call')
        ef = EvalFn(ctx, target)
        n = 0
        bad = None
        for v in views(ef):
            if fb in v.evals:
                n += 1
                if v.evals != [fa, fb]:
                    bad = v
        ctx.floor(f'{target}: paths evaluating both operands', n, 1)
        ctx.require(bad is None, f'{target}: {fa} is evaluated before {fb}, each once', ef.mod, ef.qn, f'{target}: operand order',
                    f'{target} evaluates its operands in the order {bad.evals if bad else ""}; reference: {fa} then {fb}', bad.sp.last_node if bad else None)
    check_foreach(ctx, arm_method(arms, 'ForeachClauseNode') or 'evaluate_foreach')
    check_loop_control_transparent(ctx, arm_method(arms, 'ForeachClauseNode') or 'evaluate_foreach')


def check_if(ctx: RuleCtx, name: str) -> None:
    ef = EvalFn(ctx, name, unroll=2)
    mod, qn = ef.mod, ef.qn
    n_taken = n_else = 0
    seen_desc: T.Set[T.Tuple[str, bool]] = set()
    for sp in ef.paths:
        if sp.outcome == 'raise':
            continue
        seq: T.List[T.Tuple[str, T.Any]] = []
        conds: T.Dict[T.Any, bool] = {}
        for a in sp.actions:
            if a.kind == 'cond':
                conds[a.term] = a.val
        for a in sp.actions:
            if a.kind != 'call':
                continue
            t = a.term
            if t[2] == 'self.evaluate_statement' and len(t[4]) == 1 and t[4][0][0] == 'attr' and t[4][0][2] == 'condition' and t[4][0][1][0] == 'item':
                seq.append(('cond', t[4][0][1]))
                # truth of this clause: BOOL of the result must be tested
                bt = [b.term for b in sp.actions if b.kind == 'call' and b.term[2] == '.operator_call' and b.term[3] == t and b.term[4][:1] == (BOOL,)]
                val = conds.get(bt[0]) if bt else None
                seq[-1] = ('cond', t[4][0][1], val)      # type: ignore[assignment]
            elif t[2] == 'self.evaluate_codeblock' and len(t[4]) == 1:
                a0 = t[4][0]
                if a0[0] == 'attr' and a0[2] == 'block' and a0[1][0] == 'item':
                    seq.append(('block', a0[1]))
                elif a0 == ('name', f'{ef.param}.elseblock.block'):
                    seq.append(('else',))
                else:
                    raise Undecided(f'{qn}: evaluates unknown block {show(a0)}')
        # reference: (cond=False)* then either cond=True block | disabler return | all clauses false -> else (if present)
        ok = True
        why = ''
        for i, s in enumerate(seq):
            last = i == len(seq) - 1
            if s[0] == 'cond':
                nxt = seq[i + 1] if not last else None
                if s[2] is True:            # type: ignore[misc]
                    if not (nxt is not None and nxt[0] == 'block' and nxt[1] == s[1] and i + 1 == len(seq) - 1):
                        ok, why = False, 'a clause whose condition is true is not followed by exactly its own block and then the end of the statement'
                elif s[2] is False:         # type: ignore[misc]
                    if nxt is not None and nxt[0] == 'block':
                        ok, why = False, 'a block is evaluated although its condition is false'
                else:
                    if nxt is not None:     # untested: must be a disabler / early return
                        ok, why = False, 'evaluation continues after a clause whose truth value was not tested'
            elif s[0] == 'block':
                prev = seq[i - 1] if i else None
                if not (prev is not None and prev[0] == 'cond' and prev[1] == s[1] and prev[2] is True):   # type: ignore[misc]
                    ok, why = False, 'a block is evaluated without its own condition having been evaluated to true just before'
            elif s[0] == 'else':
                if not last or any(x[0] == 'block' for x in seq) or any(x[0] == 'cond' and x[2] is not False for x in seq):   # type: ignore[misc]
                    ok, why = False, 'the else block is evaluated although a clause was taken (or not last)'
                done = [a for a in sp.actions if a.kind == 'iterdone']
                if not done:
                    ok, why = False, 'the else block is evaluated before all clauses were tried'
        if any(s[0] == 'block' for s in seq):
            n_taken += 1
        if any(s[0] == 'else' for s in seq):
            n_else += 1
        desc = ' '.join(f'{s[0]}{"=" + str(s[2]) if s[0] == "cond" else ""}' for s in seq) or '<nothing>'
        if (desc, ok) in seen_desc:
            continue
        seen_desc.add((desc, ok))
        ctx.require(ok, f'{name}: [{desc}] follows first-true-clause-wins', mod, qn, f'if: sequence {desc}', f'evaluation sequence [{desc}]: {why}', sp.last_node)
    ctx.floor(f'{name}: paths taking a clause / the else block', min(n_taken, n_else), 1)


def check_foreach(ctx: RuleCtx, name: str) -> None:
    mod = ctx.repo.module(IB)
    qn = f'InterpreterBase.{name}'
    fn = mod.func(qn)
    cfg = CFG(fn)
    param = fn.args.args[1].arg
    body_calls = cfg.nodes_with_call(lambda c: norm(c.func) == 'self.evaluate_codeblock' and len(c.args) == 1 and norm(c.args[0]) == f'{param}.block')
    if len(body_calls) != 1:
        raise Undecided(f'{qn}: expected one evaluation of the loop body, found {len(body_calls)}')
    body = body_calls[0]
    loops = [n for n in cfg.nodes if n.kind == 'iter' and any(x is body.ast for x in ast.walk(n.ast))]
    if not loops:
        raise Undecided(f'{qn}: the body evaluation is not inside a loop')
    head = min(loops, key=lambda n: sum(1 for _ in ast.walk(n.ast)))       # innermost enclosing loop
    after = [n for n in cfg.nodes if n.kind == 'join' and n.ast is head.ast]
    if len(after) != 1:
        raise Undecided(f'{qn}: loop exit not found')
    join = after[0]
    # the iterable is produced by the object's iter_self()
    it = head.ast.iter       # type: ignore[union-attr]
    ctx.require(isinstance(it, ast.Call) and isinstance(it.func, ast.Attribute) and it.func.attr == 'iter_self', f'{name}: iterates items.iter_self()', mod, qn, it,
                'the loop does not iterate the iterable object protocol')
    for exc, want in (('ContinueRequest', 'continue'), ('BreakRequest', 'break')):
        hs = [n for n in cfg.nodes if n.kind == 'handler' and n.ast.type is not None and norm(n.ast.type).split('.')[-1] == exc]   # type: ignore[union-attr]
        if len(hs) != 1:
            mentions = [n for n in cfg.nodes if n.kind == 'handler' and n.ast.type is not None and exc in norm(n.ast.type)]      # type: ignore[union-attr]
            broad = [n for n in cfg.nodes if n.kind == 'handler' and (n.ast.type is None or norm(n.ast.type).split('.')[-1] in ('Exception', 'BaseException', 'InterpreterException', 'MesonException'))]   # type: ignore[union-attr]
            if mentions or broad or len(hs) > 1:
                raise Undecided(f'{qn}: {exc} is handled by a merged / broader / repeated handler this rule does not model')
            ctx.violation(mod, qn, f'foreach: handler for {exc}', f'no handler of {name} catches {exc}: `{want}` in a loop body would abort the whole foreach statement', fn)
            continue
        h = hs[0]
        srcs = [cfg.nodes[p] for p, lab in cfg.pred[h.id] if lab == 'exc']
        ok_src = bool(srcs) and all(s.id == body.id for s in srcs)
        ctx.require(ok_src, f'{name}: {exc} is caught around exactly the body evaluation', mod, qn, f'foreach: scope of {exc} handler',
                    f'the {exc} handler also covers {[short(s.expr(), 60) for s in srcs if s.id != body.id]}; it must cover only the evaluation of the loop body', h.ast)
        # continue: handler reaches the loop head without leaving the loop; break: reaches the loop exit without the head
        if want == 'continue':
            ok = cfg.can_reach(h, head, avoid=[join, body]) and not cfg.can_reach(h, join, avoid=[head])
        else:
            ok = cfg.can_reach(h, join, avoid=[head, body]) and not cfg.can_reach(h, head, avoid=[join])
        ctx.require(ok, f'{name}: {exc} -> {want}', mod, qn, f'foreach: {exc} handler does {want}', f'the handler of {exc} does not `{want}` the loop', h.ast)
    # the statement nodes raise the requests
    arms = dispatch_arms(ctx)
    for cls, exc in (('ContinueNode', 'ContinueRequest'), ('BreakNode', 'BreakRequest')):
        a = arms.get(cls)
        ok = a is not None and a['raises'] == [exc] and not a['calls']
        did = 'nothing' if a is None else f'calls {[c[0] for c in a["calls"]]}, raises {a["raises"]}'
        ctx.require(ok, f'{cls} raises {exc}', mod, 'InterpreterBase.evaluate_statement', f'{cls} arm', f'the arm of {cls}: {did}; reference: raise {exc}()', mod.func('InterpreterBase.evaluate_statement'))


EXCEPTIONS = 'mesonbuild/interpreterbase/exceptions.py'


def _self_calls(fn: ast.AST) -> T.Tuple[T.Set[str], T.Set[str]]:
    """(methods called as self.X(..) / super().X(..), methods referenced as a value self.X) inside a function."""
    called: T.Set[str] = set()
    called_nodes = set()
    for n in ast.walk(fn):
        if isinstance(n, ast.Call) and isinstance(n.func, ast.Attribute):
            r = n.func.value
            if (isinstance(r, ast.Name) and r.id == 'self') or (isinstance(r, ast.Call) and norm(r.func) == 'super'):
                called.add(n.func.attr)
                called_nodes.add(id(n.func))
    refs = {n.attr for n in ast.walk(fn) if isinstance(n, ast.Attribute) and isinstance(n.ctx, ast.Load) and isinstance(n.value, ast.Name) and n.value.id == 'self'
            and id(n) not in called_nodes}
    return called, refs


def _always_reraises(body: T.List[ast.stmt], bound: T.Optional[str]) -> bool:
    """Every way through the handler body ends by re-raising the caught exception itself (bare `raise` / `raise <bound name>`)."""
    if not body:
        return False
    last = body[-1]
    if isinstance(last, ast.Raise):
        return last.cause is None and (last.exc is None or (bound is not None and isinstance(last.exc, ast.Name) and last.exc.id == bound))
    if isinstance(last, ast.If):
        return _always_reraises(last.body, bound) and _always_reraises(last.orelse, bound)
    return False


def check_loop_control_transparent(ctx: RuleCtx, foreach: str) -> None:
    """break / continue reach the enclosing foreach from wherever the statement stands - also from a file entered by subdir(), which runs as if
    written in place: no evaluator function that can be on the stack between a loop body and the raising statement (closed world: the methods of
    InterpreterBase / Interpreter that are reachable from evaluate_codeblock and reach it again, dynamic dispatch through method references
    included) catches the loop-control requests without re-raising them.  The foreach evaluator itself is judged by check_foreach."""
    repo = ctx.repo
    ib, im, ex = repo.module(IB), repo.module(INTERP), repo.module(EXCEPTIONS)
    # what catches a loop-control request: its own class and the ancestors named in exceptions.py, BaseException, a bare except
    catching: T.Dict[str, T.Set[str]] = {}
    for exc in ('ContinueRequest', 'BreakRequest'):
        anc, work = {exc, 'BaseException'}, [exc]
        while work:
            c = work.pop()
            if ex.has_cls(c):
                for b in ex.cls(c).bases:
                    nm = norm(b).split('.')[-1]
                    if nm not in anc:
                        anc.add(nm)
                    work.append(nm) if ex.has_cls(nm) else None
        catching[exc] = anc
    known_other = set(ex.classes()) - (catching['ContinueRequest'] | catching['BreakRequest'])
    # methods by name, the subclass definition first (Interpreter overrides InterpreterBase)
    methods: T.Dict[str, T.List[T.Tuple[Module, str, ast.AST]]] = {}
    for m, cls in ((im, 'Interpreter'), (ib, 'InterpreterBase')):
        if not m.has_cls(cls):
            raise Undecided(f'{cls} not found')
        for st in m.cls(cls).body:
            if isinstance(st, (ast.FunctionDef, ast.AsyncFunctionDef)):
                methods.setdefault(st.name, []).append((m, f'{cls}.{st.name}', st))
    edges: T.Dict[str, T.Set[str]] = {}
    dynamic: T.Set[str] = set()
    for name, defs in methods.items():
        out: T.Set[str] = set()
        for _, _, fn in defs:
            called, refs = _self_calls(fn)
            out |= called & set(methods)
            dynamic |= refs & set(methods)
        edges[name] = out
    # a call through a table of method references: function_call / method_call style dispatch (any function that calls a non-method callable
    # obtained from self.<table>[..]) may reach every method that is referenced as a value
    for name, defs in methods.items():
        for _, _, fn in defs:
            if any(isinstance(n, ast.Subscript) and attr_chain(n.value) is not None and str(attr_chain(n.value)).startswith('self.') for n in ast.walk(fn)) \
                    and any(isinstance(n, ast.Call) and isinstance(n.func, (ast.Name, ast.Subscript)) for n in ast.walk(fn)):
                edges[name] |= dynamic

    def closure(start: str, g: T.Dict[str, T.Set[str]]) -> T.Set[str]:
        seen, work = set(), [start]
        while work:
            x = work.pop()
            for y in g.get(x, ()):
                if y not in seen:
                    seen.add(y)
                    work.append(y)
        return seen
    body_fn = 'evaluate_codeblock'
    if body_fn not in methods:
        raise Undecided('InterpreterBase.evaluate_codeblock not found')
    rev: T.Dict[str, T.Set[str]] = {}
    for a, bs in edges.items():
        for b in bs:
            rev.setdefault(b, set()).add(a)
    between = (closure(body_fn, edges) & closure(body_fn, rev)) | {body_fn}
    n = 0
    for name in sorted(between):
        if name == foreach:
            continue
        for m, qn, fn in methods[name]:
            for tr in [x for x in ast.walk(fn) if isinstance(x, ast.Try)]:
                inner = {c for st in tr.body for c in _self_calls(st)[0]} & between
                indirect = any(isinstance(c, ast.Call) and isinstance(c.func, ast.Name) and c.func.id not in ('isinstance', 'getattr', 'len', 'next', 'iter')
                               for st in tr.body for c in ast.walk(st)) and bool(edges[name] & dynamic)
                if not inner and not indirect:
                    continue
                n += 1
                for h in tr.handlers:
                    types = [None] if h.type is None else (list(h.type.elts) if isinstance(h.type, ast.Tuple) else [h.type])
                    caught: T.Set[str] = set()
                    for ty in types:
                        nm = 'BaseException' if ty is None else norm(ty).split('.')[-1]
                        if ty is not None and (attr_chain(ty) is None or not nm[:1].isupper() or nm.isupper()):
                            raise Undecided(f'{qn}: a handler around the evaluation of nested statements catches `{short(ty, 60)}`, which this rule cannot resolve to exception classes')
                        caught |= {e for e, anc in catching.items() if nm in anc}
                    if not caught:
                        continue
                    what = f'{qn}: handler for {"/".join(sorted(caught))} around {sorted(inner) or "a dispatched call"}'
                    if _always_reraises(h.body, h.name):
                        ctx.ok(what + ' re-raises the request')
                    elif any(isinstance(x, ast.Raise) and (x.exc is None or (h.name and isinstance(x.exc, ast.Name) and x.exc.id == h.name)) for st in h.body for x in ast.walk(st)):
                        raise Undecided(f'{qn}: a handler that catches {sorted(caught)} re-raises it only on some paths')
                    else:
                        ctx.violation(m, qn, f'loop control intercepted: {"/".join(sorted(caught))}',
                                      f'{qn} can be on the stack between a foreach body and a nested `break`/`continue` (e.g. in a file entered by subdir(), which runs as if written in place) '
                                      f'and its handler `except {short(h.type, 60) if h.type is not None else ""}` catches {sorted(caught)} without re-raising: the request never reaches the enclosing loop', h)
    ctx.floor('try statements around nested statement evaluation between a loop body and break/continue', n, 2)
    ctx.ok(f'loop-control requests pass through {len(between) - 1} evaluator functions between a foreach body and the raising statement ({n} try statements read)')
    ctx.floor('evaluator functions between a loop body and the raising statement (dispatch through method references included)', len(between), 12)
    if not any(m is im for name in between for m, _, _ in methods[name]):
        raise Undecided('no function of the concrete Interpreter is reachable from the loop body: the dispatch of build-file functions is written in a way this rule does not follow')


# ---------------------------------------------------------------------------
# dispatch (shared by R2, R4, R5)
# ---------------------------------------------------------------------------

def dispatch_arms(ctx: RuleCtx) -> T.Dict[str, T.Dict[str, T.Any]]:
    """{node class: {'order': i, 'calls': [self.<method> called with the node], 'raises': [...], 'paths': n}} of evaluate_statement."""
    cache = ctx.repo.__dict__.setdefault('_c01_cache', {})      # per Repo object (an overlay gets its own)
    key = 'dispatch'
    if key in cache:
        return cache[key]
    mod = ctx.repo.module(IB)
    fn = mod.func('InterpreterBase.evaluate_statement')
    param = fn.args.args[1].arg
    arms: T.Dict[str, T.Dict[str, T.Any]] = {}
    order: T.List[str] = []
    for sp in sym_paths(fn, unroll=1, helpers=evaluator_helpers(mod), mod=mod):
        tests: T.List[T.Tuple[str, bool]] = []
        for t, v in sp.conds():
            if is_call(t, 'isinstance') and len(t[4]) == 2 and t[4][0] == ('name', param):
                c = t[4][1]
                if c[0] != 'name':
                    raise Undecided(f'evaluate_statement: class test on {show(c)}')
                tests.append((c[1].split('.')[-1], v))
        trues = [c for c, v in tests if v]
        if len(trues) > 1:
            raise Undecided(f'evaluate_statement: a path passes several class tests: {trues}')
        if not trues:
            arm = arms.setdefault('<else>', {'order': len(tests), 'calls': [], 'raises': [], 'paths': 0, 'before': [c for c, _ in tests]})
        else:
            cls = trues[0]
            idx = tests.index((cls, True))
            if idx != len(tests) - 1:
                raise Undecided(f'evaluate_statement: class tests after the arm for {cls} was chosen')
            before = [c for c, v in tests[:idx]]
            arm = arms.setdefault(cls, {'order': len(before), 'calls': [], 'raises': [], 'paths': 0, 'before': before})
            if arm['before'] != before:
                raise Undecided(f'evaluate_statement: arm for {cls} reached after different class tests')
        arm['paths'] += 1
        for a in sp.actions:
            if a.kind == 'call' and a.term[2].startswith('self.') and a.term[3] is None:
                arm['calls'].append((a.term[2][5:], tuple(rename(x, param) for x in a.term[4])))
        if sp.outcome == 'raise':
            r = sp.result
            arm['raises'].append(r[2].split('.')[-1] if is_call(r) else show(r))
    if len([a for a in arms if a != '<else>']) < 8:
        raise Undecided(f'evaluate_statement: only {len(arms)} isinstance arms recognised - the dispatch idiom is not the class-test chain this pack understands')
    cache[key] = arms
    return arms


def arm_method(arms: T.Dict[str, T.Dict[str, T.Any]], cls: str) -> T.Optional[str]:
    a = arms.get(cls)
    if a is None:
        return None
    names = {n for n, args in a['calls'] if args == (('name', 'NODE'),)}
    if len(names) != 1 or a['raises']:
        return None
    return next(iter(names))


# ---------------------------------------------------------------------------
# R5
# ---------------------------------------------------------------------------

def constructible_nodes(ctx: RuleCtx) -> T.Dict[str, str]:
    """Node classes that a statement/expression position can hold: closure of what line()/statement() return."""
    mod = ctx.repo.module(MPARSER)
    repo = ctx.repo
    out: T.Dict[str, str] = {}
    seen: T.Set[str] = set()
    work = ['line']
    while work:
        meth = work.pop()
        if meth in seen:
            continue
        seen.add(meth)
        if not mod.has_func(f'Parser.{meth}'):
            raise Undecided(f'Parser.{meth} not found while closing over returned node classes')
        fn = mod.func(f'Parser.{meth}')
        for sp in sym_paths(fn, unroll=2, helpers=c01_parser.parser_helpers(mod), mod=mod):
            if sp.outcome != 'return':
                continue
            r = sp.result
            if not is_call(r):
                # a local that was assigned from one of the above on another path, a parameter...
                if r[0] == 'name' or r == ('const', None):
                    continue
                raise Undecided(f'Parser.{meth} returns {show(r)}')
            fname, args = r[2], r[4]
            paired = c01_parser.pairing_table_keys(mod, args[0]) if fname == 'self.create_node' and args else None
            if paired is not None:
                # create_node(TABLE[<accepted token>], ...): every node class the constant pairing table declares can be built here (closed world over its keys)
                for key in paired[1]:
                    c = c01_parser.resolve_with(repo, mod, args[0], lambda call, key=key: key)
                    if not (isinstance(c, tuple) and c[0] == 'name' and c01_parser.is_node_class(repo, mod, c[1])):
                        raise Undecided(f'Parser.{meth}: entry {key!r} of {paired[0]} does not name a node class')
                    out.setdefault(c[1], meth)
            elif fname == 'self.create_node' and args and args[0][0] == 'name':
                out.setdefault(args[0][1], meth)
            elif r[3] is None and c01_parser.is_node_class(repo, mod, fname):
                out.setdefault(fname, meth)
            elif r[3] is None and fname.startswith('self.') and mod.has_func(f'Parser.{fname[5:]}'):
                work.append(fname[5:])
            else:
                raise Undecided(f'Parser.{meth} returns the result of {fname}')
    return out


def _subclass_of(repo: Repo, mod: Module, a: str, b: str) -> bool:
    """a is a strict subclass of b (both in mparser)."""
    if a == b or not mod.has_cls(a) or not mod.has_cls(b):
        return False
    return any(c.name == b for _, c in c01_parser.mro_cached(repo, mod, a)[1:])


def bool_before_int(fn: ast.AST) -> T.List[T.Tuple[str, ast.AST]]:
    """isinstance(x, bool) tests that can only be reached after isinstance(x, int) was false: dead for every bool."""
    cfg = CFG(fn)          # type: ignore[arg-type]
    tests: T.List[T.Tuple[T.Any, str, T.Set[str], ast.Call]] = []
    for n in cfg.nodes:
        if n.kind != 'test':
            continue
        e = n.expr()
        neg = False
        while isinstance(e, ast.UnaryOp) and isinstance(e.op, ast.Not):
            e, neg = e.operand, not neg
        if isinstance(e, ast.Call) and norm(e.func) == 'isinstance' and len(e.args) == 2:
            ty = e.args[1]
            names = {norm(x) for x in (ty.elts if isinstance(ty, ast.Tuple) else [ty])}
            tests.append((n, norm(e.args[0]), names, e, neg))      # type: ignore[arg-type]
    out = []
    for n, subj, names, e, neg in tests:       # type: ignore[misc]
        if 'bool' not in names or 'int' in names:
            continue
        ints = [(m, ng) for m, s, nm, _, ng in tests if s == subj and 'int' in nm and 'bool' not in nm and m.id != n.id]     # type: ignore[misc]
        if not ints:
            continue
        # drop the out-edges a bool value cannot take: the "not an int" edge of every int test on the same subject
        dead = {(m.id, bool(ng)) for m, ng in ints}       # label of the not-int edge: False, or True when the test is negated
        reach = cfg.reachable([cfg.entry], edge_ok=lambda a, b, lab: not (a.kind == 'test' and lab in (True, False) and (a.id, lab) in dead))
        # a rebinding of the subject between the tests makes the relation unknown
        if n.id not in reach:
            assigned = any(isinstance(x, ast.Name) and isinstance(x.ctx, ast.Store) and x.id == subj for x in ast.walk(fn))
            if assigned:
                raise Undecided(f'{subj} is rebound between its int and bool tests')
            out.append((subj, e))
    return out


_POSITIVE = '''
def stringify(v):
    if isinstance(v, str):
        return v
    elif isinstance(v, int):
        return str(v)
    elif isinstance(v, bool):
        return 'true' if v else 'false'
    return None
'''


def r5(ctx: RuleCtx) -> None:
    repo = ctx.repo
    mod = repo.module(IB)
    mp = repo.module(MPARSER)
    arms = dispatch_arms(ctx)
    nodes = constructible_nodes(ctx)
    ctx.floor('node classes a statement position can hold', len(nodes), 24)
    qn = 'InterpreterBase.evaluate_statement'
    fn = mod.func(qn)
    for cls, meth in sorted(nodes.items()):
        if cls == 'EmptyNode':
            # absence marker: filtered by codeblock(); as an operand it must be an error
            e = arms.get('<else>')
            ok = cls not in arms and e is not None and e['raises'] and all(r in ('InvalidCode', 'InterpreterException', 'MesonException') for r in e['raises'])
            ctx.require(bool(ok), 'EmptyNode (missing operand) falls to the error arm', mod, qn, 'EmptyNode arm', 'an EmptyNode operand is not rejected by evaluate_statement', fn)
            continue
        covered = cls in arms or any(_subclass_of(repo, mp, cls, a) for a in arms)
        ctx.require(covered, f'{cls} (built by Parser.{meth}) has an arm in evaluate_statement', mod, qn, f'arm for {cls}',
                    f'the parser builds {cls} (in Parser.{meth}) but evaluate_statement has no arm for it: such a statement ends in "Unknown statement"', fn)
    # every arm leads somewhere: a call with the node, a raise, or a return of a holderified field
    for cls, a in arms.items():
        if cls == '<else>':
            continue
        ctx.require(bool(a['calls'] or a['raises']), f'arm {cls} acts on the node', mod, qn, f'arm {cls} is empty', f'the arm for {cls} neither evaluates nor raises', fn)
    # order: a base class must not be tested before its subclass
    n = 0
    for c1, a1 in arms.items():
        for c2, a2 in arms.items():
            if c1 == '<else>' or c2 == '<else>':
                continue
            if _subclass_of(repo, mp, c2, c1):
                n += 1
                ctx.require(a2['order'] < a1['order'], f'{c2} is tested before its base {c1}', mod, qn, f'order of {c2} / {c1}',
                            f'isinstance(.., {c1}) is tested before isinstance(.., {c2}); {c2} derives from {c1}, so its arm can never be taken', fn)
    ctx.floor('subclass/base arm pairs', n, 1)
    # bool before int in every isinstance chain of the anchored files
    pos = ast.parse(_POSITIVE).body[0]
    if len(bool_before_int(pos)) != 1:
        raise Undecided('built-in positive example for the bool/int order check was not recognised')
    scanned = hits = 0
    files = [HELPERS, IB, 'mesonbuild/interpreterbase/baseobjects.py', 'mesonbuild/interpreterbase/_unholder.py'] + \
        [f'mesonbuild/interpreter/primitives/{x}.py' for x in ('array', 'boolean', 'dict', 'integer', 'range', 'string')]
    for rel in files:
        m = repo.module(rel)
        for q, f in m.funcs().items():
            if not any(isinstance(x, ast.Call) and norm(x.func) == 'isinstance' and 'bool' in norm(x.args[1]) for x in ast.walk(f) if isinstance(x, ast.Call) and len(x.args) == 2):
                continue
            scanned += 1
            for subj, e in bool_before_int(f):
                hits += 1
                ctx.violation(m, q, e, f'isinstance({subj}, bool) is only reachable after isinstance({subj}, int) was false: a boolean is an int in Python, so booleans take the int arm', e)
    ctx.floor('functions with a bool class test in the anchored files', scanned, 1)
    if not hits:
        ctx.ok(f'bool is tested before int in all {scanned} functions of the anchored files that test for bool')
    # holder registration
    im = repo.module(INTERP)
    bfn = im.func('Interpreter.build_holder_map')
    reg: T.Dict[str, str] = {}
    for c in ast.walk(bfn):
        if isinstance(c, ast.Call) and norm(c.func) == 'self.holder_map.update' and len(c.args) == 1 and isinstance(c.args[0], ast.Dict):
            for k, v in zip(c.args[0].keys, c.args[0].values):
                if k is not None:
                    reg[norm(k)] = norm(v).split('.')[-1]
    opaque_writes = 0
    for c in ast.walk(bfn):
        if isinstance(c, ast.Assign) and len(c.targets) == 1 and isinstance(c.targets[0], ast.Subscript) and norm(c.targets[0].value) == 'self.holder_map':
            reg[norm(c.targets[0].slice)] = norm(c.value).split('.')[-1]
        elif isinstance(c, ast.Call) and norm(c.func) == 'self.holder_map.update' and not (len(c.args) == 1 and isinstance(c.args[0], ast.Dict)):
            opaque_writes += 1
        elif isinstance(c, ast.Assign) and any(norm(t) == 'self.holder_map' for t in c.targets):
            opaque_writes += 1
    if not reg:
        raise Undecided('Interpreter.build_holder_map: no `self.holder_map.update({...})` dict display found')
    if opaque_writes and any(k not in reg for k in ('int', 'bool', 'str', 'list', 'dict')):
        raise Undecided('Interpreter.build_holder_map: holder_map is also filled in a way this rule cannot fold')
    want = {'int': 'IntegerHolder', 'bool': 'BooleanHolder', 'str': 'StringHolder', 'list': 'ArrayHolder', 'dict': 'DictHolder'}
    for k, v in want.items():
        ctx.require(reg.get(k) == v, f'holder_map[{k}] = {v}', im, 'Interpreter.build_holder_map', f'holder for {k}', f'{k} values are held by {reg.get(k)}; reference {v}', bfn)
    others = {k for k in reg if k in ('object', 'tuple', 'float', 'set', 'bytes')}
    ctx.require(not others, 'no other builtin type is holdable', im, 'Interpreter.build_holder_map', 'builtin keys of holder_map', f'holder_map also registers {sorted(others)}', bfn)
    # exact-type lookup comes first in _holderify
    hf = mod.func('InterpreterBase._holderify')
    p = hf.args.args[1].arg
    first = None
    nlook = 0
    for sp in sym_paths(hf, unroll=1):
        calls = [a.term for a in sp.actions if a.kind == 'call' and (a.term[2].startswith('self.holder_map') or a.term[2].startswith('self.bound_holder_map'))]
        if calls:
            nlook += 1
            c0 = calls[0]
            ok = c0[2] == 'self.holder_map.get' and c0[4] and is_call(c0[4][0], 'type') and c0[4][0][4] == (('name', p),)
            if not ok and first is None:
                first = c0
    ctx.floor('_holderify paths consulting the holder maps', nlook, 1)
    ctx.require(first is None, '_holderify looks the exact type(value) up first (bool is not held as int)', mod, 'InterpreterBase._holderify', 'exact-type lookup',
                f'_holderify consults {show(first) if first else ""} first; the exact-type lookup holder_map.get(type(value)) must come first', hf)
