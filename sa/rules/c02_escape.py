"""C02.R4 - no internal error escapes from the lexer/parser entry points (K9 exception escape + K11).

Exception-escape closure over the call graph of mparser.py: every partial operation reachable from the entry points is a
*source* of builtin exception classes unless a local totality proof discharges it; sources propagate through call sites
(constructors, the node wrapper, generator resumption by next(), functions passed as callbacks) and stop at a `try` whose
handler catches the class without re-raising it.  Whatever reaches an entry point and is not a MesonException is a violation,
reported at its origin."""
from __future__ import annotations

import ast
import builtins
import typing as T

from ..core import Undecided, attr_chain, norm, short, walk_no_nested, names_in, call_method
from ..cfg import CFG
from ..paths import enumerate_paths, Path
from ..consteval import fold_expr, Regex
from .. import rx
from ..report import RuleCtx
from .c02_model import NodeModel, MPARSER, params_of

ENTRY = ['Lexer.__init__', 'Lexer.lex', 'Parser.__init__', 'Parser.parse']
ALLOWED_ROOT = 'MesonException'
INT_MAX_DIGITS = 4300


class Source(T.NamedTuple):
    cls: str
    fn: str          # function of origin
    node: T.Any      # origin site (ast) - position-free text is used as construct
    what: str
    certain: bool = True   # False: no totality proof was found, but the site is tested/guarded in a way not understood


def _exc_class(name: str) -> T.Optional[type]:
    c = getattr(builtins, name, None)
    return c if isinstance(c, type) and issubclass(c, BaseException) else None


class Escape:
    def __init__(self, ctx: RuleCtx, tokens: T.Any):
        self.ctx = ctx
        self.repo = ctx.repo
        self.mod = ctx.repo.module(MPARSER)
        self.model: NodeModel = tokens.model
        self.tokens = tokens
        self.funcs = {q: f for q, f in self.mod.funcs().items() if '#' not in q and q.count('.') <= 1}
        from .c02_model import inline_cm_with
        ff = lambda n: self.mod.func(n) if self.mod.has_func(n) and '.' not in n else None
        self.funcs = {q: (inline_cm_with(f, ff, lambda m, q=q: self.funcs.get(q.split('.')[0] + '.' + m) if '.' in q else None)) for q, f in self.funcs.items()}
        self.local_classes = {n: c for n, c in self.mod.classes().items() if '.' not in n and '#' not in n}
        self.meson_exc = self._meson_exceptions()
        self._paths: T.Dict[str, T.List[Path]] = {}
        self._named: T.Dict[str, T.Dict[str, ast.AST]] = {}
        self._cfg: T.Dict[str, CFG] = {}
        self._trys: T.Dict[str, T.Dict[int, T.List[ast.Try]]] = {}
        self.calls: T.Dict[str, T.List[T.Tuple[ast.AST, T.List[str]]]] = {}
        self.local_sources: T.Dict[str, T.List[Source]] = {}
        self.discharged: T.List[str] = []
        self.pending_index: T.List[T.Tuple[str, ast.Subscript]] = []
        self.weak: T.Set[T.Tuple[str, str]] = set()
        self.key_witness: T.Dict[int, str] = {}
        self.unknown_index: T.List[str] = []

    # -- module facts ---------------------------------------------------------------
    def _meson_exceptions(self) -> T.Set[str]:
        out = {ALLOWED_ROOT}
        changed = True
        while changed:
            changed = False
            for n, c in self.local_classes.items():
                if n not in out and any((attr_chain(b) or '').split('.')[-1] in out for b in c.bases):
                    out.add(n)
                    changed = True
        return out

    def cls_of(self, qn: str) -> T.Optional[str]:
        return qn.split('.')[0] if '.' in qn else None

    def find_method(self, cls: str, meth: str) -> T.Optional[str]:
        if cls in self.model.classes:
            r = self.model.find(cls, meth)
            return f'{r[0].name}.{meth}' if r else None
        seen = set()
        todo = [cls]
        while todo:
            c = todo.pop(0)
            if c in seen or c not in self.local_classes:
                continue
            seen.add(c)
            if f'{c}.{meth}' in self.funcs:
                return f'{c}.{meth}'
            todo += [attr_chain(b) or '' for b in self.local_classes[c].bases]
        return None

    def attr_type(self, cls: str, attr: str) -> T.Optional[str]:
        cands = self.model.mro(cls) if cls in self.model.classes else [self.local_classes[cls]]
        for c in cands:
            for st in c.body:
                if isinstance(st, ast.AnnAssign) and isinstance(st.target, ast.Name) and st.target.id == attr:
                    names = [n for n in names_in(st.annotation) if n in self.local_classes]
                    if len(names) == 1:
                        return names[0]
            init = self.funcs.get(f'{c.name}.__init__')
            if init is not None:
                for st in walk_no_nested(init):
                    if isinstance(st, (ast.Assign, ast.AnnAssign)) and st.value is not None:
                        tg = st.targets[0] if isinstance(st, ast.Assign) else st.target
                        if attr_chain(tg) == f'self.{attr}' and isinstance(st.value, ast.Call):
                            k = attr_chain(st.value.func)
                            if k in self.local_classes:
                                return k
                            # self.stream = self.lexer.lex(...): the attribute is a generator of that function
                            tgt = self.resolve_call(f'{c.name}.__init__', st.value)
                            if tgt:
                                return 'gen:' + tgt[0]
        return None

    def methods_named(self, meth: str) -> T.List[str]:
        return [q for q in self.funcs if q.endswith('.' + meth)]

    # -- call resolution -----------------------------------------------------------------
    def resolve_call(self, qn: str, c: ast.Call) -> T.List[str]:
        cls = self.cls_of(qn)
        f = c.func
        out: T.List[str] = []
        ch = attr_chain(f)
        if isinstance(f, ast.Name):
            if f.id in self.local_classes:
                m = self.find_method(f.id, '__init__')
                out += [m] if m else []
            elif f.id in self.funcs:
                out.append(f.id)
            elif self.mod.has_assign(f.id):
                # a module-level callable built from functions (functools.partial(REGEX.sub, callback)): its call runs them
                v = self.mod.assign_value(f.id)
                out += [x.id for x in ast.walk(v) if isinstance(x, ast.Name) and x.id in self.funcs]
            elif f.id == 'next' and c.args:
                a = attr_chain(c.args[0]) or ''
                if a.startswith('self.') and cls:
                    t = self.attr_type(cls, a[5:])
                    if t and t.startswith('gen:'):
                        out.append(t[4:])
        elif isinstance(f, ast.Attribute):
            if isinstance(f.value, ast.Call) and isinstance(f.value.func, ast.Name) and f.value.func.id == 'super' and cls:
                for b in self.local_classes[cls].bases:
                    bn = attr_chain(b.value if isinstance(b, ast.Subscript) else b) or ''
                    m = self.find_method(bn, f.attr) if bn in self.local_classes else None
                    if m:
                        out.append(m)
                        break
            elif ch and ch.startswith('self.') and ch.count('.') == 1 and cls:
                m = self.find_method(cls, f.attr)
                if m:
                    out.append(m)
                    if cls == 'Parser' and f.attr == self.tokens.ctor_wrapper and c.args and isinstance(c.args[0], ast.Name) \
                            and c.args[0].id in self.local_classes:
                        k = self.find_method(c.args[0].id, '__init__')
                        out += [k] if k else []
            elif ch and ch.startswith('self.') and ch.count('.') == 2 and cls:
                t = self.attr_type(cls, ch.split('.')[1])
                if t and not t.startswith('gen:'):
                    m = self.find_method(t, f.attr)
                    out += [m] if m else []
            elif isinstance(f.value, ast.Name) and f.value.id in self.local_classes:
                m = self.find_method(f.value.id, f.attr)
                out += [m] if m else []
            elif not (ch and ch.split('.')[0] in self.mod.imports()):
                # receiver of unknown type: every local method of that name may run (exceptions propagate), but such an edge is
                # not evidence of input-controlled recursion
                for m in self.methods_named(f.attr):
                    self.weak.add((qn, m))
                    out.append(m)
        for a in list(c.args) + [k.value for k in c.keywords]:
            if isinstance(a, ast.Name) and a.id in self.funcs:
                out.append(a.id)    # callback handed to a library function
        return [o for o in dict.fromkeys(out) if o in self.funcs]

    # -- per function helpers ----------------------------------------------------------
    def paths(self, qn: str) -> T.List[Path]:
        if qn not in self._paths:
            # unroll=2 is needed for `while True: ... break` bodies; large scanners fall back to one unrolling, then to no path evidence
            branches = sum(1 for x in walk_no_nested(self.funcs[qn]) if isinstance(x, (ast.If, ast.For, ast.While, ast.Try, ast.BoolOp, ast.IfExp)))
            for k in ((2, 1) if branches <= 16 else ()):
                try:
                    self._paths[qn] = enumerate_paths(self.funcs[qn].body, unroll=k, handlers=True, max_paths=1500)
                    break
                except Undecided:
                    self._paths[qn] = []
            self._paths.setdefault(qn, [])
            named = self.named_conds(qn)
            if named:
                for p in self._paths[qn]:
                    for e in p.events:
                        if e.kind == 'cond' and isinstance(e.node, ast.Name) and e.node.id in named:
                            v = named[e.node.id]
                            if isinstance(v, ast.UnaryOp) and isinstance(v.op, ast.Not):
                                e.node, e.val = v.operand, not e.val
                            elif not isinstance(v, ast.BoolOp):
                                e.node = v
        return self._paths[qn]

    def cfg(self, qn: str) -> CFG:
        if qn not in self._cfg:
            self._cfg[qn] = CFG(self.funcs[qn])
        return self._cfg[qn]

    def enclosing_trys(self, qn: str, node: ast.AST) -> T.List[ast.Try]:
        """Try statements whose *body* contains node, innermost first."""
        if qn not in self._trys:
            m: T.Dict[int, T.List[ast.Try]] = {}

            def rec(n: ast.AST, stack: T.List[ast.Try]) -> None:
                m[id(n)] = stack
                if isinstance(n, ast.Try):
                    for b in n.body:
                        rec(b, [n] + stack)
                    for part in n.handlers + n.orelse + n.finalbody:
                        rec(part, stack)
                    return
                if isinstance(n, (ast.FunctionDef, ast.Lambda, ast.ClassDef)) and n is not self.funcs[qn]:
                    return
                for ch in ast.iter_child_nodes(n):
                    rec(ch, stack)
            rec(self.funcs[qn], [])
            self._trys[qn] = m
        return self._trys[qn].get(id(node), [])

    def named_conds(self, qn: str) -> T.Dict[str, ast.AST]:
        """single-definition locals of `qn` (a condition bound to a name before it is tested)"""
        if qn not in self._named:
            cnt: T.Dict[str, int] = {}
            val: T.Dict[str, ast.AST] = {}
            for st in walk_no_nested(self.funcs[qn]):
                if isinstance(st, ast.Assign):
                    for t in st.targets:
                        for x in ast.walk(t):
                            if isinstance(x, ast.Name):
                                cnt[x.id] = cnt.get(x.id, 0) + 1
                                if isinstance(t, ast.Name):
                                    val[x.id] = st.value
                elif isinstance(st, (ast.AugAssign, ast.AnnAssign, ast.For, ast.NamedExpr)):
                    for x in ast.walk(st.target):
                        if isinstance(x, ast.Name):
                            cnt[x.id] = cnt.get(x.id, 0) + 2
            def testlike(v: ast.AST) -> bool:
                if isinstance(v, ast.UnaryOp) and isinstance(v.op, ast.Not):
                    return testlike(v.operand)
                return isinstance(v, ast.Compare) or (isinstance(v, ast.Call) and isinstance(v.func, ast.Name) and v.func.id in ('isinstance', 'hasattr', 'callable'))
            self._named[qn] = {k: v for k, v in val.items() if cnt[k] == 1 and testlike(v)}
        return self._named[qn]

    def conds_before(self, qn: str, node: ast.AST) -> T.List[T.Tuple[Path, int]]:
        """(path, index of the event containing node) for every enumerated path through node."""
        out = []
        for p in self.paths(qn):
            for i, ev in enumerate(p.events):
                if ev.node is not None and ev.kind in ('stmt', 'cond') and any(x is node for x in ast.walk(ev.node)):
                    out.append((p, i))
                    break
        return out

    def tested_everywhere(self, qn: str, node: ast.AST, subjects: T.Iterable[str], inclusive: bool = True) -> bool:
        """On every enumerated path to `node` some condition mentions one of `subjects` (so a guard of an unrecognised spelling may exist)."""
        subj = [x for x in subjects if x]
        pts = self.conds_before(qn, node)
        if not pts or not subj:
            return False
        return all(any(e.kind == 'cond' and any(x in norm(e.node) for x in subj) for e in p.events[:i + (1 if inclusive else 0)]) for p, i in pts)

    def caught(self, qn: str, node: ast.AST, cls: str) -> bool:
        ec = _exc_class(cls)
        for tr in self.enclosing_trys(qn, node):
            for h in tr.handlers:
                types = [h.type] if h.type is not None and not isinstance(h.type, ast.Tuple) else (h.type.elts if h.type is not None else [])
                hit = h.type is None
                for t in types:
                    hc = _exc_class(attr_chain(t) or '')
                    if hc is not None and ec is not None and issubclass(ec, hc):
                        hit = True
                if hit:
                    reraises = any(isinstance(s, ast.Raise) and s.exc is None for s in walk_no_nested(h))
                    if not reraises:
                        return True
                    break
        return False

    # -- partial operations ------------------------------------------------------------------
    def scan(self, qn: str) -> None:
        fn = self.funcs[qn]
        srcs: T.List[Source] = []
        calls: T.List[T.Tuple[ast.AST, T.List[str]]] = []
        skip: T.Set[int] = set()
        for n in walk_no_nested(fn):
            if isinstance(n, ast.AnnAssign):
                skip |= {id(x) for x in ast.walk(n.annotation)}
            if isinstance(n, ast.arg) and n.annotation is not None:
                skip |= {id(x) for x in ast.walk(n.annotation)}
        if fn.returns is not None:
            skip |= {id(x) for x in ast.walk(fn.returns)}
        for n in walk_no_nested(fn):
            if id(n) in skip or n is fn:
                continue
            if isinstance(n, ast.For) and (attr_chain(n.iter) or '').startswith('self.') and self.cls_of(qn):
                t_ = self.attr_type(self.cls_of(qn), (attr_chain(n.iter) or '')[5:])    # iterating a generator attribute resumes that function
                if t_ and t_.startswith('gen:') and t_[4:] in self.funcs:
                    calls.append((n.iter, [t_[4:]]))
            if isinstance(n, ast.Assign):
                for tgt_ in n.targets:
                    if isinstance(tgt_, (ast.Tuple, ast.List)):
                        self.unpack_site(qn, n, tgt_, n.value, False, srcs)
            elif isinstance(n, (ast.For, ast.comprehension)) and isinstance(n.target, (ast.Tuple, ast.List)):
                self.unpack_site(qn, n, n.target, n.iter, True, srcs)
            if isinstance(n, ast.Call):
                tg = self.resolve_call(qn, n)
                if tg:
                    calls.append((n, tg))
                name = attr_chain(n.func) or ''
                if name == 'int' and n.args:
                    why = self.int_total(qn, n)
                    if why is None:
                        srcs.append(Source('ValueError', qn, n, 'int() on text whose language contains strings int() rejects: ' + getattr(self, 'int_witness', 'argument language unknown')))
                    else:
                        self.discharged.append(f'{qn}: `{short(n)}` total: {why}')
                elif name == 'codecs.decode':
                    srcs.append(Source('UnicodeDecodeError', qn, n, 'codecs.decode() rejects escapes the escape regex admits (unknown \\N{name}, \\U above 10FFFF)'))
                elif name == 'next' and len(n.args) == 1 and not n.keywords:      # next(it, default) never raises StopIteration
                    srcs.append(Source('StopIteration', qn, n, 'next() on an exhausted iterator'))
                elif isinstance(n.func, ast.Attribute) and n.func.attr == 'index' and 1 <= len(n.args) <= 3 and not n.keywords \
                        and not self.is_mapping(qn, n.func.value):
                    # str/list .index(x[, start]) raises ValueError when x is absent (unlike .find)
                    recv, what = norm(n.func.value), norm(n.args[0])
                    hay = f'{recv}[{norm(n.args[1])}:]' if len(n.args) >= 2 else recv
                    pts = self.conds_before(qn, n)
                    if pts and all(any(e.kind == 'cond' and ((norm(e.node) == f'{what} in {hay}' and e.val) or (norm(e.node) == f'{what} not in {hay}' and not e.val))
                                       for e in p.events[:i + 1]) for p, i in pts):
                        self.discharged.append(f'{qn}: `{short(n)}` total: `{what} in {hay}` holds on every path')
                    else:
                        srcs.append(Source('ValueError', qn, n, f'`{short(n)}` raises when {what} does not occur in `{hay}` (it is `.index`, not `.find`)',
                                           not self.tested_everywhere(qn, n, [what + ' in', what + ' not in'])))
                elif isinstance(n.func, ast.Attribute) and n.func.attr == 'encode' and n.args and isinstance(n.args[0], ast.Constant) \
                        and str(n.args[0].value).lower().replace('-', '').replace('_', '') not in ('utf8', 'utf16', 'utf32'):
                    wit = self.callback_regex_admits(qn, '\u20ac')
                    srcs.append(Source('UnicodeEncodeError', qn, n, f'`{short(n)}` cannot encode every character'
                                       + (f'; the text comes from a match of a regex that admits {wit}' if wit else ''), bool(wit)))
            elif isinstance(n, ast.Subscript) and isinstance(n.ctx, ast.Load) and not isinstance(n.slice, ast.Slice):
                if (attr_chain(n.value) or '').split('.')[0] in ('T', 'typing'):
                    continue
                why = self.subscript_total(qn, n)
                if why is None:
                    cls = 'KeyError' if self.is_mapping(qn, n.value) else 'IndexError'
                    if cls == 'IndexError' and isinstance(n.slice, ast.Name):
                        self.pending_index.append((qn, n))
                    elif cls == 'IndexError' and id(n) not in self.key_witness:
                        if not self.caught(qn, n, cls):
                            self.unknown_index.append(f'{qn}: `{short(n)}`')
                            continue
                    certain = id(n) in self.key_witness or cls == 'IndexError' or not self.tested_everywhere(qn, n, [norm(n.slice)])
                    srcs.append(Source(cls, qn, n, self.key_witness.get(id(n), f'the key of `{short(n)}` is not shown to be in the table' if cls == 'KeyError' else f'`{short(n)}` may be out of range'), certain))
                else:
                    self.discharged.append(f'{qn}: `{short(n)}` total: {why}')
            elif isinstance(n, ast.Attribute) and isinstance(n.value, ast.Attribute) and isinstance(n.ctx, ast.Load):
                opt = self.optional_field(n.value.attr)
                if opt:
                    why = self.optional_guarded(qn, n)
                    if isinstance(why, tuple):
                        srcs.append(Source('AttributeError', qn, n, why[1]))
                    elif why is None:
                        base = n.value.value.id if isinstance(n.value.value, ast.Name) else ''
                        srcs.append(Source('AttributeError', qn, n, f'`{short(n.value)}` may be None',
                                           not (self.tested_everywhere(qn, n, [norm(n.value)]) or (bool(base) and self.filled_elsewhere(qn, n, base)))))
                    else:
                        self.discharged.append(f'{qn}: `{short(n)}` total: {why}')
            elif isinstance(n, ast.Assert):
                why = self.assert_total(qn, n)
                if why is None:
                    subj = [norm(x) for x in ast.walk(n.test) if isinstance(x, ast.Name) and x.id not in ('isinstance', 'str', 'int', 'bool', 'len', 'self')]
                    if 'self.previous' in norm(n.test):
                        subj.append('self.expect')
                    srcs.append(Source('AssertionError', qn, n, f'`{short(n)}` can fail',
                                       not self.tested_everywhere(qn, n.test, subj, inclusive=False) and not self._after_consumer(qn, n.test, subj)))
                else:
                    self.discharged.append(f'{qn}: `{short(n)}` total: {why}')
            elif isinstance(n, ast.Raise) and n.exc is not None:
                k = attr_chain(n.exc.func if isinstance(n.exc, ast.Call) else n.exc) or ''
                if k not in self.meson_exc and _exc_class(k) is None:
                    k = self.raised_class(qn, n.exc, 0) or k      # an exception object built by a helper / bound to a local first
                if k in self.meson_exc:
                    continue
                if _exc_class(k) is None:
                    raise Undecided(f'{qn}: raises `{short(n.exc)}`, class not resolved')
                srcs.append(Source(k, qn, n, f'explicit raise of {k}'))
        self.local_sources[qn] = srcs
        self.calls[qn] = calls

    def raised_class(self, qn: str, e: ast.AST, depth: int) -> T.Optional[str]:
        """Class of the exception object `e` evaluates to in `qn`: a constructor call; a local bound once to one; the call of a
        method of the same class all of whose returns yield objects of one class.  None when not read."""
        if depth > 3:
            return None
        fn = self.funcs[qn]
        if isinstance(e, ast.Name):
            stores = [x for x in ast.walk(fn) if isinstance(x, ast.Name) and x.id == e.id and not isinstance(x.ctx, ast.Load)]
            defs = [a for a in walk_no_nested(fn) if isinstance(a, ast.Assign) and len(a.targets) == 1 and isinstance(a.targets[0], ast.Name) and a.targets[0].id == e.id]
            if len(stores) != 1 or len(defs) != 1 or e.id in params_of(fn):
                return None
            return self.raised_class(qn, defs[0].value, depth + 1)
        if not isinstance(e, ast.Call):
            return None
        k = attr_chain(e.func) or ''
        if k in self.meson_exc or _exc_class(k) is not None:
            return k
        if k.startswith('self.') and k.count('.') == 1 and self.cls_of(qn):
            q2 = self.find_method(self.cls_of(qn), k[5:])    # type: ignore[arg-type]
            if q2 is None or q2 not in self.funcs:
                return None
            rets = [r for r in walk_no_nested(self.funcs[q2]) if isinstance(r, ast.Return)]
            got = {self.raised_class(q2, r.value, depth + 1) if r.value is not None else None for r in rets}
            if len(got) == 1 and None not in got and not any(isinstance(y, (ast.Yield, ast.YieldFrom)) for y in walk_no_nested(self.funcs[q2])):
                return got.pop()
        return None

    # int(): total iff every string of the argument language is accepted (K11)
    def int_total(self, qn: str, c: ast.Call) -> T.Optional[str]:
        a = c.args[0]
        cls = self.cls_of(qn)
        if not (isinstance(a, ast.Attribute) and a.attr == 'value' and isinstance(a.value, ast.Name) and cls in self.model.classes and qn.endswith('.__init__')):
            return None
        roles = dict(self.model.roles(cls))
        if roles.get(a.value.id) != 'tok':
            return None
        kinds = self.tokens.ctor_kinds.get(cls)
        if not kinds or not all(isinstance(k, str) for k in kinds):
            raise Undecided(f'{qn}: the token kinds a {cls} is built from are not known ({kinds})')
        base0 = any(k.arg == 'base' and isinstance(k.value, ast.Constant) and k.value.value == 0 for k in c.keywords)
        from .c02_lex import lexer_tables
        spec, _, _ = lexer_tables(self.ctx)
        for k in kinds:
            regs = [r for t, rs in spec if t == k for r in rs]
            if not regs:
                return None
            for r in regs:
                for alt in rx.branch_alternatives(r.pattern, r.flags):
                    v = _int_alt(alt, base0)
                    if v is not None:
                        self.int_witness = f'token `{k}` alternative {v}'
                        return None
        return f'every alternative of the `{"/".join(sorted(kinds))}` regex is a radix-prefixed (power-of-two base) or length-bounded literal'

    def callback_regex_admits(self, qn: str, ch: str) -> str:
        """If function `qn` is used as the callback of `<REGEX>.sub(qn, ...)` and that regex can match `ch`: a description, else ''."""
        for c in ast.walk(self.mod.tree):
            if isinstance(c, ast.Call) and isinstance(c.func, ast.Attribute) and c.func.attr in ('sub', 'subn') and c.args \
                    and isinstance(c.args[0], ast.Name) and c.args[0].id == qn:
                try:
                    r = fold_expr(self.repo, self.mod, c.func.value)
                except Undecided:
                    continue
                if isinstance(r, Regex) and rx.matches_char(r.pattern, ch, r.flags):
                    return f'U+{ord(ch):04X} (`{norm(c.func.value)}`)'
        return ''

    def is_mapping(self, qn: str, e: ast.AST) -> bool:
        ch = attr_chain(e) or ''
        if ch.startswith('self.') and self.cls_of(qn):
            init = self.funcs.get(f'{self.cls_of(qn)}.__init__')
            for st in walk_no_nested(init) if init else []:
                if isinstance(st, ast.Assign) and attr_chain(st.targets[0]) == ch and isinstance(st.value, (ast.Dict, ast.DictComp)):
                    return True
                if isinstance(st, (ast.Assign, ast.AnnAssign)) and st.value is not None \
                        and attr_chain(st.targets[0] if isinstance(st, ast.Assign) else st.target) == ch:
                    # any other spelling of a constant mapping: dict(CONST), CONST.copy(), {**CONST}, a value-only helper, a local
                    from .c02_lex import _fold_through, _Env
                    try:
                        if isinstance(_fold_through(self.ctx, self.mod, st.value, _Env(init)), dict):
                            return True
                    except Undecided:
                        pass
        if isinstance(e, ast.Name):
            return self.const_keys(e) is not None
        return False

    def const_keys(self, e: ast.AST) -> T.Optional[T.Set[T.Any]]:
        """Key set of a constant mapping: the folded value, or - when the row values do not fold (records, classes) - the constant
        keys of the module-level dict display bound once to the name."""
        try:
            v = fold_expr(self.repo, self.mod, e)
            return set(v) if isinstance(v, dict) else None
        except Undecided:
            pass
        if isinstance(e, ast.Name) and self.mod.has_assign(e.id):
            d = self.mod.assign_value(e.id)
            stores = [n for n in ast.walk(self.mod.tree) if isinstance(n, ast.Name) and n.id == e.id and not isinstance(n.ctx, ast.Load)]
            if isinstance(d, ast.Dict) and d.keys and len(stores) == 1 and all(isinstance(k, ast.Constant) for k in d.keys):
                return {k.value for k in d.keys}  # type: ignore[union-attr]
        return None

    def subscript_total(self, qn: str, n: ast.Subscript) -> T.Optional[str]:
        fn = self.funcs[qn]
        idx = n.slice
        # (a) constant index into a tuple-typed field
        if isinstance(idx, ast.Constant) and isinstance(idx.value, int) and isinstance(n.value, ast.Attribute):
            for c in self.local_classes.values():
                for st in c.body:
                    if isinstance(st, ast.AnnAssign) and isinstance(st.target, ast.Name) and st.target.id == n.value.attr \
                            and isinstance(st.annotation, ast.Subscript) and norm(st.annotation.value) in ('T.Tuple', 'Tuple', 'tuple'):
                        el = st.annotation.slice
                        arity = len(el.elts) if isinstance(el, ast.Tuple) and not any(isinstance(x, ast.Constant) and x.value is Ellipsis for x in el.elts) else 0
                        if -arity <= idx.value < arity:
                            return f'`{n.value.attr}` is a {arity}-tuple by annotation'
        # (b) first/last element of str.split(sep)
        if isinstance(idx, (ast.Constant, ast.UnaryOp)) and norm(idx) in ('0', '-1') and isinstance(n.value, ast.Name):
            defs = [s for s in walk_no_nested(fn) if isinstance(s, ast.Assign) and any(isinstance(t, ast.Name) and t.id == n.value.id for t in s.targets)]
            if defs and all(isinstance(d.value, ast.Call) and call_method(d.value) == 'split' and d.value.args for d in defs):
                return 'str.split(sep) never returns an empty list'
        # (b0) constant index into something whose length range is known (str.split(sep)[0], s.partition(x)[2], a display)
        if isinstance(idx, (ast.Constant, ast.UnaryOp)):
            try:
                iv = fold_expr(self.repo, self.mod, idx)
            except Undecided:
                iv = None
            rng = self.length_range(qn, n.value) if isinstance(iv, int) and not isinstance(iv, bool) else None
            if rng is not None and -rng[0] <= iv < rng[0]:
                return f'{rng[2]} has at least {rng[0]} element(s)'
            if rng is not None and (rng[1] is not None and not -rng[1] <= iv < rng[1]
                                    or not (self.tested_everywhere(qn, n, [f'len({norm(n.value)})'])
                                            or self._mentions(qn, [f'len({norm(n.value)})', ' in ' + (norm(rng[3].func.value) if isinstance(rng[3], ast.Call) and isinstance(rng[3].func, ast.Attribute) else '\0')]))):
                self.key_witness[id(n)] = f'`{short(n)}` is out of range when {rng[2]} yields only {rng[0]} element(s) (e.g. the separator does not occur in the text)'
        # (b') first/last element of a sequence tested non-empty on every path
        if isinstance(idx, (ast.Constant, ast.UnaryOp)) and norm(idx) in ('0', '-1'):
            pts = self.conds_before(qn, n)
            seq = norm(n.value)
            if pts and all(any(e.kind == 'cond' and ((norm(e.node) == seq and e.val) or (norm(e.node) == f'not {seq}' and not e.val)) for e in p.events[:i + 1])
                           for p, i in pts):
                return f'`{seq}` is tested non-empty on every path'
        # (b'') mapping lookup under a membership test of the same key
        if self.is_mapping(qn, n.value):
            # ... inside one expression: `m[k] if k in m else d`, `d if k not in m else m[k]`, `k in m and m[k]`
            pm = self.mod.parent_map()
            k, m = norm(idx), norm(n.value)
            child: ast.AST = n
            par = pm.get(child)
            while par is not None and isinstance(par, ast.expr):
                if isinstance(par, ast.IfExp) and ((child is par.body and norm(par.test) == f'{k} in {m}') or (child is par.orelse and norm(par.test) == f'{k} not in {m}')):
                    return f'selected by the conditional expression only when `{k} in {m}`'
                if isinstance(par, ast.BoolOp) and isinstance(par.op, ast.And) and any(norm(v) == f'{k} in {m}' for v in par.values[:par.values.index(child)] if child in par.values):
                    return f'evaluated only after `{k} in {m}` in the same conjunction'
                child, par = par, pm.get(par)
            pts = self.conds_before(qn, n)
            k, m = norm(idx), norm(n.value)
            if pts and all(any(e.kind == 'cond' and ((norm(e.node) == f'{k} in {m}' and e.val) or (norm(e.node) == f'{k} not in {m}' and not e.val))
                               for e in p.events[:i + 1]) for p, i in pts):
                return f'`{k} in {m}` holds on every path'
            if isinstance(idx, ast.Name) and self.cfg_member_guard(qn, n, k, m):
                return f'dominated by the test `{k} in {m}` with no assignment to `{k}` in between'
            if isinstance(idx, ast.Name) and isinstance(n.value, ast.Name):
                why_c = self.cfg_const_guard(qn, n, k)
                if why_c:
                    return why_c
        # (c) constant mapping indexed by the truthy result of accept_any(<the same mapping>)
        if isinstance(idx, ast.Name) and self.is_mapping(qn, n.value):
            defs = [s for s in walk_no_nested(fn) if isinstance(s, ast.Assign) and any(isinstance(t, ast.Name) and t.id == idx.id for t in s.targets)]
            if defs and all(isinstance(d.value, ast.Call) and attr_chain(d.value.func) == 'self.accept_any' and len(d.value.args) == 1 for d in defs) \
                    and self.accept_any_returns_member():
                have = self.const_keys(n.value) or set()
                missing: T.Set[str] = set()
                for d in defs:
                    try:
                        ak = self.const_keys(d.value.args[0])  # type: ignore[attr-defined]
                        missing |= (ak if ak is not None else set(fold_expr(self.repo, self.mod, d.value.args[0]))) - have  # type: ignore[attr-defined]
                    except Undecided:
                        return None
                pts = self.conds_before(qn, n)
                if missing:
                    self.key_witness[id(n)] = f'`{idx.id}` can be {sorted(missing)[0]!r}, which `{norm(n.value)}` does not contain'
                elif pts and all(any(e.kind == 'cond' and norm(e.node) == idx.id and e.val for e in p.events[:i]) for p, i in pts):
                    return f'`{idx.id}` is a truthy result of accept_any(...) over keys that `{norm(n.value)}` contains'
        return None

    # sequence unpacking: `a, b = <producer>` raises ValueError unless every length the producer can deliver fits the target
    def _single_def(self, qn: str, name: str) -> T.Optional[ast.AST]:
        fn = self.funcs[qn]
        if name in {a.arg for a in fn.args.posonlyargs + fn.args.args + fn.args.kwonlyargs}:
            return None
        defs: T.List[T.Optional[ast.AST]] = []
        for st in walk_no_nested(fn):
            if isinstance(st, ast.Assign):
                for t in st.targets:
                    if isinstance(t, ast.Name) and t.id == name:
                        defs.append(st.value)
                    elif any(isinstance(x, ast.Name) and x.id == name for x in ast.walk(t)):
                        defs.append(None)
            elif isinstance(st, ast.AnnAssign) and isinstance(st.target, ast.Name) and st.target.id == name:
                defs.append(st.value)
            elif isinstance(st, (ast.AugAssign, ast.For, ast.NamedExpr, ast.comprehension)) and any(isinstance(x, ast.Name) and x.id == name for x in ast.walk(st.target)):
                defs.extend([None, None])
            elif isinstance(st, ast.Call) and isinstance(st.func, ast.Attribute) and isinstance(st.func.value, ast.Name) and st.func.value.id == name \
                    and st.func.attr in ('append', 'extend', 'insert', 'pop', 'remove', 'clear'):
                defs.extend([None, None])
        return defs[0] if len(defs) == 1 else None

    def length_range(self, qn: str, e: ast.AST, depth: int = 0) -> T.Optional[T.Tuple[int, T.Optional[int], str, ast.AST]]:
        """(min length, max length or None, description, producer) for expressions whose number of elements is fixed by the
        language: displays, str.split/rsplit/partition/rpartition/splitlines, re.split/findall; read through copies and
        single-definition locals.  None: not such a producer (its arity is a typing contract, not decided here)."""
        if depth > 6:
            return None
        if isinstance(e, (ast.Tuple, ast.List)):
            plain = sum(1 for x in e.elts if not isinstance(x, ast.Starred))
            return plain, (plain if plain == len(e.elts) else None), f'the display `{short(e, 40)}`', e
        if isinstance(e, ast.Name):
            d = self._single_def(qn, e.id)
            return self.length_range(qn, d, depth + 1) if d is not None else None
        if not isinstance(e, ast.Call):
            return None
        name = attr_chain(e.func) or ''
        if name in ('list', 'tuple', 'T.cast', 'typing.cast') and e.args and not e.keywords:
            return self.length_range(qn, e.args[-1], depth + 1)
        meth = e.func.attr if isinstance(e.func, ast.Attribute) else ''
        desc = f'`{short(e, 50)}`'
        if meth in ('partition', 'rpartition') and len(e.args) == 1:
            return 3, 3, desc, e
        if meth == 'splitlines' or (meth == 'findall' and e.args):
            return 0, None, desc, e
        if meth in ('split', 'rsplit'):
            is_re = name == 're.split'
            args = list(e.args[1:]) if is_re else list(e.args)
            kw = {k.arg: k.value for k in e.keywords}
            if None in kw or (is_re and not e.args):
                return None
            first = args[0] if args else kw.get('sep', kw.get('string'))
            ms = args[1] if len(args) > 1 else kw.get('maxsplit')
            lo = 1 if first is not None and not (isinstance(first, ast.Constant) and first.value is None) else 0
            hi: T.Optional[int] = None
            if ms is not None:
                try:
                    mv = fold_expr(self.repo, self.mod, ms)
                except Undecided:
                    return None
                if not isinstance(mv, int) or isinstance(mv, bool) or mv == 0:
                    return None          # 0 means "no split" for str and "no limit" for a compiled regex: receiver type unknown
                hi = mv + 1 if mv > 0 else None
            return lo, hi, desc, e
        return None

    def _mentions(self, qn: str, subjects: T.List[str]) -> bool:
        """No path evidence for this function: does any test in it mention one of the subjects (a guard may exist)?"""
        for x in walk_no_nested(self.funcs[qn]):
            t = getattr(x, 'test', None)
            if isinstance(t, ast.AST) and any(sj in norm(t) for sj in subjects):
                return True
        return False

    def unpack_site(self, qn: str, stmt: ast.AST, target: ast.AST, value: ast.AST, elementwise: bool, srcs: T.List[Source]) -> None:
        elts = target.elts  # type: ignore[attr-defined]
        plain = sum(1 for x in elts if not isinstance(x, ast.Starred))
        star = plain != len(elts)
        if elementwise:
            # `for a, b in (x.split(..) for x in xs)`: the elements are what is unpacked
            if not (isinstance(value, (ast.ListComp, ast.GeneratorExp)) and len(value.generators) >= 1):
                return
            value = value.elt
        rng = self.length_range(qn, value)
        if rng is None:
            return
        lo, hi, desc, prod = rng
        anchor = stmt if not isinstance(stmt, ast.comprehension) else value
        # guards understood on every path to the site: `sep in s` for s.split(sep, ..); `len(x) == n` / `>= n` for a named result
        pts = self.conds_before(qn, anchor) if not isinstance(stmt, ast.For) else []
        subjects: T.List[str] = []
        if isinstance(prod, ast.Call) and isinstance(prod.func, ast.Attribute) and prod.func.attr in ('split', 'rsplit') and prod.args \
                and attr_chain(prod.func) != 're.split':
            recv, sep = norm(prod.func.value), norm(prod.args[0])
            subjects += [f'{sep} in {recv}', f'{sep} not in {recv}', f'{recv}.count(', f'{recv}.find(', f'{recv}.index(']
            if pts and all(any(e.kind == 'cond' and ((norm(e.node) == f'{sep} in {recv}' and e.val) or (norm(e.node) == f'{sep} not in {recv}' and not e.val))
                               for e in p.events[:i]) for p, i in pts) and (hi is None or hi >= 2):
                lo = max(lo, 2)
        if isinstance(value, ast.Name):
            subjects += [f'len({value.id})', f'not {value.id}']
            bounds: T.List[T.Tuple[int, T.Optional[int]]] = []
            for p, i in pts:
                b: T.Optional[T.Tuple[int, T.Optional[int]]] = None
                for e in p.events[:i]:
                    if e.kind == 'cond' and isinstance(e.node, ast.Compare) and len(e.node.ops) == 1 and norm(e.node.left) == f'len({value.id})' \
                            and isinstance(e.node.comparators[0], ast.Constant) and isinstance(e.node.comparators[0].value, int):
                        k, op = e.node.comparators[0].value, e.node.ops[0]
                        if (isinstance(op, ast.Eq) and e.val) or (isinstance(op, ast.NotEq) and not e.val):
                            b = (k, k)
                        elif (isinstance(op, ast.GtE) and e.val) or (isinstance(op, ast.Lt) and not e.val):
                            b = (k, None)
                        elif (isinstance(op, ast.Gt) and e.val) or (isinstance(op, ast.LtE) and not e.val):
                            b = (k + 1, None)
                if b is None:
                    bounds = []
                    break
                bounds.append(b)
            if bounds:
                lo = max(lo, min(b[0] for b in bounds))
                his = [b[1] for b in bounds]
                if all(h is not None for h in his):
                    hi = max(T.cast(int, h) for h in his) if hi is None else min(hi, max(T.cast(int, h) for h in his))
        fits = lo >= plain if star else (lo == plain and hi == plain)
        want = f'at least {plain}' if star else f'exactly {plain}'
        have = f'{lo}' if hi == lo else f'{lo}..{hi if hi is not None else "any number of"}'
        if fits:
            self.discharged.append(f'{qn}: unpacking `{short(anchor, 60)}` total: {desc} yields {have} element(s), the target takes {want}')
            return
        srcs.append(Source('ValueError', qn, anchor, f'the target of `{short(anchor, 70)}` takes {want} value(s) but {desc} yields {have} element(s) '
                           f'(e.g. when the separator does not occur in the text): "not enough/too many values to unpack"',
                           not (bool(subjects) and (self.tested_everywhere(qn, anchor, subjects, inclusive=False) or (not pts and self._mentions(qn, subjects))))))

    def accept_any_returns_member(self) -> bool:
        fn = self.funcs.get('Parser.accept_any')
        if fn is None:
            return False
        coll = params_of(fn)[1]
        for p in enumerate_paths(fn.body, unroll=1):
            if p.outcome != 'return' or p.value is None:
                continue
            if isinstance(p.value, ast.Constant) and not p.value.value:
                continue
            if not isinstance(p.value, ast.Name):
                return False
            if not any(isinstance(e.node, ast.Compare) and e.kind == 'cond' and ((e.val and norm(e.node) == f'{p.value.id} in {coll}')
                                                                                 or (not e.val and norm(e.node) == f'{p.value.id} not in {coll}')) for e in p.events):
                return False
        return True

    def optional_field(self, attr: str) -> bool:
        for c in self.local_classes.values():
            for st in c.body:
                if isinstance(st, ast.AnnAssign) and isinstance(st.target, ast.Name) and st.target.id == attr and 'Optional[' in norm(st.annotation):
                    return True
        return False

    def optional_guarded(self, qn: str, n: ast.Attribute) -> T.Optional[str]:
        base = norm(n.value)
        pts = self.conds_before(qn, n)
        if not pts:
            return None

        def guarded(p: Path, i: int) -> bool:
            for e in p.events[:i + 1]:
                if e.kind == 'cond':
                    t = norm(e.node)
                    if (t == base and e.val) or (t == f'{base} is None' and not e.val) or (t == f'{base} is not None' and e.val):
                        return True
            return False
        if all(guarded(p, i) for p, i in pts):
            return f'guarded by a test of `{base}` on every path'
        return self.filled_by_loop(qn, n, pts)

    def _after_consumer(self, qn: str, node: ast.AST, subj: T.List[str]) -> bool:
        pts = self.conds_before(qn, node)
        return bool(pts) and 'self.expect' in subj and all(any(e.kind == 'stmt' and ('self.expect(' in norm(e.node) or 'self.accept(' in norm(e.node))
                                                               for e in p.events[:i]) for p, i in pts)

    def filled_elsewhere(self, qn: str, n: ast.AST, base: str) -> bool:
        """`base` is handed to something (a call, a loop) before the access on every path: it may have been filled there."""
        pts = self.conds_before(qn, n)

        def hands(e: T.Any) -> bool:
            if e.node is None or e.kind not in ('stmt', 'iter'):
                return False
            return any(isinstance(c, ast.Call) and (any(isinstance(a, ast.Name) and a.id == base for a in list(c.args) + [k.value for k in c.keywords])
                                                      or (isinstance(c.func, ast.Attribute) and norm(c.func.value) == base)) for c in ast.walk(e.node))
        return bool(pts) and all(any(hands(e) for e in p.events[:i]) for p, i in pts)

    def _consumes(self, node: ast.AST) -> bool:
        for c in ast.walk(node):
            if isinstance(c, ast.Call) and (attr_chain(c.func) or '').startswith('self.') and (attr_chain(c.func) or '').count('.') == 1:
                m = (attr_chain(c.func) or '')[5:]
                if m == self.tokens.primitive or (m in self.tokens.kindof and any(o.consumed for o in self.tokens.summ.get(m, ()))):
                    return True
        return False

    def entry_keywords(self, qn: str) -> T.Optional[T.Set[str]]:
        """The constant token ids accepted immediately before every call of method `qn` (no consumption in between); None if unknown."""
        name = qn.split('.')[-1]
        out: T.Set[str] = set()
        for q2, f2 in self.funcs.items():
            if self.cls_of(q2) != self.cls_of(qn):
                continue
            for c in walk_no_nested(f2):
                if isinstance(c, ast.Call) and attr_chain(c.func) == f'self.{name}':
                    pts = self.conds_before(q2, c)
                    if not pts:
                        return None
                    for p, i in pts:
                        found = None
                        kw = dict(self.keyword_events(p.events[:i]))
                        for j in range(i - 1, -1, -1):
                            e = p.events[j]
                            if e.node is None or e.kind not in ('stmt', 'cond') or not self._consumes(e.node):
                                continue
                            if e.kind == 'cond' and not e.val and isinstance(e.node, ast.Call) and attr_chain(e.node.func) == 'self.accept':
                                continue        # a failed accept() takes nothing
                            found = kw.get(j)
                            break
                        if found is None:
                            return None
                        out.add(found)
        return out or None

    def demanders(self) -> T.Set[str]:
        """Parser methods m(kind, ...) that return only after `self.accept(kind)` succeeded for their first parameter (every other
        path raises): `expect`, `block_expect` and whatever helper is written the same way."""
        got = getattr(self, '_demanders', None)
        if got is not None:
            return got
        out: T.Set[str] = set()
        for q, f in self.funcs.items():
            if self.cls_of(q) != 'Parser' or len(f.args.args) < 2:
                continue
            p0 = f.args.args[1].arg
            ps = enumerate_paths(f.body, unroll=1)
            live = [p for p in ps if p.outcome != 'raise']
            if live and all(any(e.kind == 'cond' and e.val and isinstance(e.node, ast.Call) and attr_chain(e.node.func) == 'self.accept'
                                and len(e.node.args) == 1 and isinstance(e.node.args[0], ast.Name) and e.node.args[0].id == p0 for e in p.events)
                            for p in live) and not any(isinstance(t, ast.Name) and t.id == p0 and isinstance(t.ctx, ast.Store) for t in ast.walk(f)):
                out.add(q.split('.')[-1])
        self._demanders = out
        return out

    def keyword_events(self, evs: T.List[T.Any]) -> T.List[T.Tuple[int, str]]:
        """(event index, token kind) for every point of a path at which a constant token kind is known to have been taken from
        the stream: a successful `self.accept('k')` test, or any statement/test that gets past `self.<demander>('k', ...)`."""
        out: T.List[T.Tuple[int, str]] = []
        dem = self.demanders()
        for j, e in enumerate(evs):
            if e.node is None or e.kind not in ('stmt', 'cond'):
                continue
            if e.kind == 'cond' and isinstance(e.node, ast.Call) and attr_chain(e.node.func) == 'self.accept':
                if e.val and e.node.args and isinstance(e.node.args[0], ast.Constant):
                    out.append((j, e.node.args[0].value))
                continue
            for c in ast.walk(e.node):
                if isinstance(c, ast.Call) and (attr_chain(c.func) or '').startswith('self.') and (attr_chain(c.func) or '')[5:] in dem:
                    a0 = c.args[0] if c.args else next((k.value for k in c.keywords if k.arg), None)
                    if isinstance(a0, ast.Constant) and isinstance(a0.value, str):
                        out.append((j, a0.value))
        return out

    def filled_by_loop(self, qn: str, n: ast.Attribute, pts: T.List[T.Tuple[Path, int]]) -> T.Optional[str]:
        """`X.whitespaces.value` where X was filled by `for w in L: X.append_whitespaces(w)` and L cannot be empty:
        L is a snapshot of the pending whitespace taken between the consumption of two keyword tokens, and the lexer cannot
        emit two keywords back to back (their concatenation is one identifier: maximal munch)."""
        if not (isinstance(n.value.value, ast.Name) and n.value.attr == 'whitespaces'):  # type: ignore[attr-defined]
            return None
        x = n.value.value.id  # type: ignore[attr-defined]
        from .c02_lex import lexer_tables
        spec, _, kws = lexer_tables(self.ctx)
        idre = [r for t, rs in spec if t == 'id' for r in rs]
        # every path of append_whitespaces leaves self.whitespaces set
        aw = self.funcs.get(f'{self.model.root}.append_whitespaces')
        if aw is None:
            return None
        for p in enumerate_paths(aw.body, unroll=1):
            sets = any(isinstance(s, ast.Assign) and attr_chain(s.targets[0]) == 'self.whitespaces' for s in p.stmts())
            cm = p.cond_map()
            nonnull = cm.get('self.whitespaces is None') is False or cm.get('self.whitespaces is not None') is True or cm.get('self.whitespaces') is True
            if not (sets or nonnull):
                return None
        k1 = k2 = ''
        for p, i in pts:
            evs = p.events[:i]
            loop = [j for j, e in enumerate(evs) if e.kind == 'iter' and isinstance(e.node, ast.For) and isinstance(e.node.iter, ast.Name)
                    and any(isinstance(c, ast.Call) and call_method(c) == 'append_whitespaces' and norm(c.func.value) == x for c in ast.walk(e.node))]  # type: ignore[attr-defined]
            if not loop:
                return None
            lname = evs[loop[0]].node.iter.id  # type: ignore[union-attr]
            snap = [j for j, e in enumerate(evs) if e.kind == 'stmt' and isinstance(e.node, ast.Assign) and norm(e.node.targets[0]) == lname]
            if len(snap) != 1 or norm(evs[snap[0]].node.value) not in ('self.current_ws.copy()', 'list(self.current_ws)'):  # type: ignore[union-attr]
                return None
            acc = self.keyword_events(evs)
            before = [a for a in acc if a[0] < snap[0]]
            after = [a for a in acc if a[0] > snap[0]]
            known_at = {a[0] for a in acc}
            if any(e.node is not None and e.kind in ('stmt', 'cond') and j not in known_at and self._consumes(e.node)
                   and not (e.kind == 'cond' and not e.val and isinstance(e.node, ast.Call) and attr_chain(e.node.func) == 'self.accept')
                   for j, e in enumerate(evs) if j > snap[0]):
                return None     # something consumes tokens after the snapshot in a way that is not read as "token kind K was taken"
            if not before and after and not any(self._consumes(e.node) for e in evs[:snap[0]] if e.node is not None):
                # the first keyword was accepted by the caller just before this helper was entered
                ks = self.entry_keywords(qn)
                if not ks:
                    return None
                before = [(-1, None)]
                k1s = ks
            else:
                k1s = None
            if before and not after:
                return ('violation', f'`{x}` is filled from the snapshot `{lname}`, which is taken after both keyword tokens were consumed: '  # type: ignore[return-value]
                                     f'it need not contain the whitespace between them, so `{short(n.value)}` can be None')
            if not before or not after:
                return None
            k2 = after[0][1]
            k1 = before[-1][1] if k1s is None else sorted(k1s)[0]
            if k1s is not None and not (idre and all(k in kws and all(rx.full_matches(r.pattern, k + k2, r.flags) for r in idre) for k in k1s)):
                return None
            # no other consumption between the two accepts
            for e in evs[max(before[-1][0] + 1, 0):after[0][0]]:
                if e.node is not None and any(isinstance(c, ast.Call) and (attr_chain(c.func) or '').startswith('self.') and (attr_chain(c.func) or '')[5:] in self.tokens.kindof
                                              and self.tokens.summ.get((attr_chain(c.func) or '')[5:]) and any(o.consumed for o in self.tokens.summ[(attr_chain(c.func) or '')[5:]])
                                              for c in ast.walk(e.node)):
                    return None
            if not (k1 in kws and k2 in kws and idre and all(rx.full_matches(r.pattern, k1 + k2, r.flags) for r in idre)):
                return None
        return (f'`{x}` is filled from a non-empty snapshot: `{k1}` and `{k2}` are keyword tokens and `{k1}{k2}` is one identifier for the id regex, '
                f'so at least one whitespace/comment token separates them')

    def assert_total(self, qn: str, n: ast.Assert) -> T.Optional[str]:
        t = n.test
        if not (isinstance(t, ast.Call) and norm(t.func) == 'isinstance' and len(t.args) == 2 and norm(t.args[1]) == 'str'
                and isinstance(t.args[0], ast.Attribute) and t.args[0].attr == 'value'):
            return None
        obj = t.args[0].value
        pts = self.conds_before(qn, t)
        if not pts:
            return None
        str_classes = {c for c in self.model.classes if any(isinstance(b, ast.Subscript) and norm(b.slice) == 'str' for k in self.model.mro(c) for b in k.bases)}
        if isinstance(obj, ast.Name):
            def known(p: Path, i: int) -> bool:
                return any(e.kind == 'cond' and e.val and isinstance(e.node, ast.Call) and norm(e.node.func) == 'isinstance' and norm(e.node.args[0]) == obj.id
                           and norm(e.node.args[1]) in str_classes for e in p.events[:i])
            if all(known(p, i) for p, i in pts):
                return f'`{obj.id}` is an instance of a node class whose value is typed str'
        if norm(obj) == 'self.previous':
            from .c02_lex import lexer_tables
            spec, _, _ = lexer_tables(self.ctx)

            def after_expect(p: Path, i: int) -> bool:
                prev = [e for e in p.events[:i] if e.kind == 'stmt']
                if not prev:
                    return False
                s = prev[-1].node
                return isinstance(s, ast.Expr) and isinstance(s.value, ast.Call) and attr_chain(s.value.func) == 'self.expect' and s.value.args \
                    and isinstance(s.value.args[0], ast.Constant) and s.value.args[0].value in [t for t, _ in spec]
            if all(after_expect(p, i) for p, i in pts):
                return 'self.previous is the regex-matched token just demanded by expect(); its value is the matched text'
        return None

    # -- closure ------------------------------------------------------------------------------
    def run(self) -> T.Tuple[T.Dict[str, T.Set[Source]], T.Set[str]]:
        reach: T.List[str] = []
        todo = [e for e in ENTRY]
        for e in ENTRY:
            if e not in self.funcs:
                raise Undecided(f'entry point {e} not found')
        while todo:
            q = todo.pop()
            if q in reach:
                continue
            reach.append(q)
            self.scan(q)
            for _, tg in self.calls[q]:
                todo += [t for t in tg if t not in reach]
        # recursion: strongly connected components of the reachable call graph
        graph = {q: sorted({t for _, tg in self.calls[q] for t in tg if (q, t) not in self.weak}) for q in reach}
        sccs = _sccs(graph)
        self.scc_of = {q: i for i, comp in enumerate(sccs) for q in comp}
        self.cyclic = {i for i, comp in enumerate(sccs) if len(comp) > 1 or comp[0] in graph[comp[0]]}
        self.sccs = sccs
        guarded = {i for i in self.cyclic if any(self.depth_guard(q) for q in sccs[i])}
        for q in reach:
            for call, tg in self.calls[q]:
                for t in tg:
                    i = self.scc_of[t]
                    if i in self.cyclic and self.scc_of[q] == i and i not in guarded:
                        self.local_sources[q].append(Source('RecursionError', 'scc', i, 'input-controlled recursion without depth guard'))
        # fixpoint
        esc: T.Dict[str, T.Set[Source]] = {q: set() for q in reach}
        changed = True
        rec_nodes: T.Dict[T.Tuple[str, int], ast.AST] = {}
        while changed:
            changed = False
            for q in reach:
                new: T.Set[Source] = set()
                for s in self.local_sources[q]:
                    site = s.node if isinstance(s.node, ast.AST) else None
                    if s.fn == 'scc':
                        # attach to every intra-component call of q
                        for call, tg in self.calls[q]:
                            if any(self.scc_of[t] == s.node for t in tg) and not self.caught(q, call, s.cls):
                                new.add(s)
                        continue
                    if not self.caught(q, site, s.cls):  # type: ignore[arg-type]
                        new.add(s)
                for call, tg in self.calls[q]:
                    for t in tg:
                        for s in esc[t]:
                            if not self.caught(q, call, s.cls):
                                new.add(s)
                if new != esc[q]:
                    esc[q] = new
                    changed = True
        self.esc = esc
        return esc, set(reach)

    def depth_guard(self, qn: str) -> bool:
        fn = self.funcs[qn]
        incs = {attr_chain(s.target) for s in walk_no_nested(fn) if isinstance(s, ast.AugAssign) and isinstance(s.op, ast.Add)}
        for s in walk_no_nested(fn):
            if isinstance(s, ast.If) and isinstance(s.test, ast.Compare) and len(s.test.ops) == 1 and isinstance(s.test.ops[0], (ast.Gt, ast.GtE)) \
                    and attr_chain(s.test.left) in incs and any(isinstance(b, ast.Raise) for b in s.body):
                return True
        return False

    def cfg_member_guard(self, qn: str, n: ast.Subscript, k: str, m: str) -> bool:
        """The lookup `m[k]` is only reachable through the true edge of a test `k in m`, and `k` is not reassigned in between."""
        cfg = self.cfg(qn)
        tests = [t for t in cfg.nodes if t.kind == 'test' and norm(t.expr()) == f'{k} in {m}']
        sites = cfg.node_containing(n)
        if not tests or not sites:
            return False
        t = tests[0]
        assigns = [a for a in cfg.nodes if a.kind in ('stmt', 'iter') and any(isinstance(x, ast.Name) and x.id == k and not isinstance(x.ctx, ast.Load)
                                                                             for x in ast.walk(a.ast if a.kind == 'stmt' else a.ast.target))]
        for site in sites:
            if site.id in cfg.reachable([cfg.entry], avoid=[t]):
                return False
            false_succ = [cfg.nodes[b] for b, lab in cfg.succ[t.id] if lab is False]
            if site.id in cfg.reachable(false_succ, avoid=[t], include_start=True):
                return False
            if any(a.id != site.id and site.id in cfg.reachable([a], avoid=[t]) for a in assigns):
                return False
        return True

    def cfg_const_guard(self, qn: str, n: ast.Subscript, k: str) -> T.Optional[str]:
        """The lookup `M[k]` in a constant mapping M is only reachable through the true edge of a test `k in <constant collection>` /
        `k == <constant>` whose constants are all keys of M, and `k` is not rebound in between (closed world: the folded key set)."""
        keys = self.const_keys(n.value)
        if keys is None:
            return None
        cfg = self.cfg(qn)
        sites = cfg.node_containing(n)
        if not sites:
            return None
        assigns = [a for a in cfg.nodes if a.kind in ('stmt', 'iter') and any(isinstance(x, ast.Name) and x.id == k and not isinstance(x.ctx, ast.Load)
                                                                             for x in ast.walk(a.ast if a.kind == 'stmt' else a.ast.target))]
        from_entry: T.Dict[int, T.Any] = {}
        for t in cfg.nodes:
            if t.kind != 'test':
                continue
            e = t.expr()
            if not (isinstance(e, ast.Compare) and len(e.ops) == 1 and isinstance(e.left, ast.Name) and e.left.id == k and isinstance(e.ops[0], (ast.In, ast.Eq))):
                continue
            try:
                c = fold_expr(self.repo, self.mod, e.comparators[0])
            except Undecided:
                continue
            if isinstance(e.ops[0], ast.Eq):
                dom = {c} if isinstance(c, str) else None
            else:
                dom = set(c) if isinstance(c, (set, frozenset, tuple, list)) and all(isinstance(x, str) for x in c) else None
            if dom is None or not dom <= keys:
                continue
            false_succ = [cfg.nodes[b] for b, lab in cfg.succ[t.id] if lab is False]
            good = True
            for site in sites:
                if site.id in cfg.reachable([cfg.entry], avoid=[t]) or site.id in cfg.reachable(false_succ, avoid=[t], include_start=True) \
                        or any(a.id != site.id and site.id in cfg.reachable([a], avoid=[t]) for a in assigns):
                    good = False
                    break
            if good:
                return f'dominated by the test `{norm(e)}` (all of {sorted(dom)} are keys of `{norm(n.value)}`) with no assignment to `{k}` in between'
        return None

    def has_guard(self, qn: str, n: ast.Subscript) -> bool:
        i, s = n.slice.id, norm(n.value)  # type: ignore[attr-defined]
        return any(t.kind == 'test' and norm(t.expr()) in (f'{i} < len({s})', f'len({s}) > {i}') for t in self.cfg(qn).nodes)

    # -- guarded index (str[i] under `while i < len(str)`) -----------------------------------------
    def index_guarded(self, qn: str, n: ast.Subscript) -> T.Optional[str]:
        cfg = self.cfg(qn)
        i, s = n.slice.id, norm(n.value)  # type: ignore[attr-defined]
        tests = [t for t in cfg.nodes if t.kind == 'test' and norm(t.expr()) in (f'{i} < len({s})', f'len({s}) > {i}')]
        sites = cfg.node_containing(n)
        if not tests or not sites:
            return None

        def raisers(node: T.Any) -> T.Set[str]:
            e = node.expr()
            out: T.Set[str] = set()
            if e is None:
                return out
            ids = {id(x) for x in walk_no_nested(e)}
            for src in self.local_sources[qn]:
                if isinstance(src.node, ast.AST) and id(src.node) in ids and src.node is not n:
                    out.add(src.cls)
            for call, tg in self.calls[qn]:
                if id(call) in ids:
                    for t in tg:
                        out |= {x.cls for x in self.esc.get(t, set())}
            return out

        def edge_ok(a: T.Any, b: T.Any, lab: T.Any) -> bool:
            if lab != 'exc':
                return True
            if b.kind != 'handler':
                return True
            ht = b.ast.type
            names = [attr_chain(x) or '' for x in (ht.elts if isinstance(ht, ast.Tuple) else [ht])] if ht is not None else ['BaseException']
            for r in raisers(a):
                rc = _exc_class(r)
                if any(_exc_class(h) is not None and rc is not None and issubclass(rc, _exc_class(h)) for h in names):  # type: ignore[arg-type]
                    return True
            return False
        assigns = [a for a in cfg.nodes if a.kind == 'stmt' and isinstance(a.ast, (ast.Assign, ast.AugAssign)) and
                   any(isinstance(t, ast.Name) and t.id == i for t in (a.ast.targets if isinstance(a.ast, ast.Assign) else [a.ast.target]))]
        for site in sites:
            t = tests[0]
            if site.id not in cfg.reachable([cfg.entry], edge_ok=edge_ok):
                continue
            if site.id in cfg.reachable([cfg.entry], avoid=[t], edge_ok=edge_ok):
                return None
            false_succ = [cfg.nodes[b] for b, lab in cfg.succ[t.id] if lab is False]
            if site.id in cfg.reachable(false_succ, avoid=[t], edge_ok=edge_ok, include_start=True):
                return None
            for a in assigns:
                if a.id == site.id:
                    continue
                if site.id in cfg.reachable([a], avoid=[t], edge_ok=edge_ok):
                    return None
        return f'dominated by the loop guard `{norm(tests[0].expr())}` with no assignment to `{i}` in between (exception edges limited to statements that can raise the handled class)'


def _int_alt(items: T.List[T.Any], base0: bool) -> T.Optional[str]:
    """None if int(text, base=0) accepts every string of this regex alternative, else a description of the rejected strings."""
    import re._constants as sc
    if not items:
        return 'empty literal'
    op, av = items[0]
    if op is sc.LITERAL and chr(av) == '0':
        if len(items) == 1:
            return None
        o2, a2 = items[1]
        if o2 is sc.IN and base0 and rx.class_chars(a2, 'bBoOxX0123456789_') and rx.class_chars(a2, 'bBoOxX0123456789_') <= set('bBoOxX'):
            return None    # 0b / 0o / 0x: power-of-two bases have no digit limit
        return 'a literal with a leading zero'
    length = 0
    for op, av in items:
        if op in (sc.MAX_REPEAT, sc.MIN_REPEAT):
            lo, hi, _ = av
            if hi is sc.MAXREPEAT:
                return f'an unbounded run of decimal digits (CPython rejects more than {INT_MAX_DIGITS})'
            length += hi
        else:
            length += 1
    return None if length <= INT_MAX_DIGITS else f'up to {length} decimal digits'


def _sccs(graph: T.Dict[str, T.List[str]]) -> T.List[T.List[str]]:
    index: T.Dict[str, int] = {}
    low: T.Dict[str, int] = {}
    stack: T.List[str] = []
    on: T.Set[str] = set()
    out: T.List[T.List[str]] = []
    counter = [0]
    import sys
    sys.setrecursionlimit(max(sys.getrecursionlimit(), 5000))

    def visit(v: str) -> None:
        index[v] = low[v] = counter[0]
        counter[0] += 1
        stack.append(v)
        on.add(v)
        for w in graph.get(v, []):
            if w not in index:
                visit(w)
                low[v] = min(low[v], low[w])
            elif w in on:
                low[v] = min(low[v], index[w])
        if low[v] == index[v]:
            comp = []
            while True:
                w = stack.pop()
                on.discard(w)
                comp.append(w)
                if w == v:
                    break
            out.append(sorted(comp))
    for v in graph:
        if v not in index:
            visit(v)
    return out


def check(ctx: RuleCtx, tokens: T.Any) -> None:
    es = Escape(ctx, tokens)
    esc, reach = es.run()
    mod = es.mod
    ctx.floor('functions reachable from the entry points', len(reach), 60)
    for d in es.discharged:
        ctx.ok(d)
    # post-pass: guarded string indexing
    proven: T.Set[int] = set()
    for qn, n in es.pending_index:
        why = es.index_guarded(qn, n)
        if why:
            proven.add(id(n))
            ctx.ok(f'{qn}: `{short(n)}` total: {why}')
        elif why is None and not es.has_guard(qn, n) and not es.caught(qn, n, 'IndexError'):
            es.unknown_index.append(f'{qn}: `{short(n)}`')
    if es.unknown_index:
        raise Undecided('subscripts that are neither caught nor covered by a totality idiom: ' + '; '.join(es.unknown_index))
    for _ in ():
        pass
    seen: T.Set[T.Tuple[str, str]] = set()
    caught_n = 0
    escaping: T.Dict[T.Tuple[str, T.Any], T.Tuple[Source, T.List[str]]] = {}
    for e in ENTRY:
        for s in esc[e]:
            if isinstance(s.node, ast.AST) and id(s.node) in proven:
                continue
            key = (s.cls, id(s.node) if isinstance(s.node, ast.AST) else s.node)
            escaping.setdefault(key, (s, []))[1].append(e)
    for qn in reach:
        for s in es.local_sources[qn]:
            if s.fn == 'scc':
                continue
            key = (s.cls, id(s.node))
            if key in escaping or id(s.node) in proven:
                continue
            caught_n += 1
            ctx.ok(f'{qn}: {s.cls} from `{short(s.node, 70)}` is caught and converted before it can leave an entry point')
    cycles: T.List[T.List[str]] = []
    unsure: T.List[str] = []
    rec_entries: T.Set[str] = set()
    for (cls, _), (s, entries) in escaping.items():
        if s.fn == 'scc':
            cycles.append(es.sccs[s.node])
            rec_entries |= set(entries)
        elif not s.certain:
            unsure.append(f'{s.fn}: `{short(s.node, 70)}` ({cls}): no totality proof found, but the site is guarded in a way that is not understood')
        else:
            ctx.violation(mod, s.fn, s.node, f'{cls} can escape from {", ".join(entries)}: {s.what}; no handler on any call chain converts it into a MesonException', s.node)
    n_cyc = len(es.cyclic)
    if cycles:
        desc = '; '.join('{' + ', '.join(q.split('.')[-1] for q in c) + '}' for c in sorted(cycles))
        ctx.violation(mod, 'Parser.parse', 'RecursionError is not converted',
                      f'recursive descent without depth guard: the call-graph cycles {desc} recurse once per nesting level of the input and no handler '
                      f'on the way to {", ".join(sorted(rec_entries))} converts RecursionError into a MesonException', es.funcs['Parser.parse'])
    elif n_cyc:
        ctx.ok(f'{n_cyc} call-graph cycle(s) reachable from the entry points are depth-guarded or RecursionError is converted at the entry')
    ctx.floor('recursive cycles in the parser', n_cyc, 2)
    if unsure:
        raise Undecided('; '.join(unsure))
    ctx.note(f'{len(reach)} functions, {sum(len(v) for v in es.calls.values())} resolved call sites, '
             f'{sum(len(v) for v in es.local_sources.values())} exception sources, {len(es.discharged) + len(proven)} proven total, {caught_n} caught')
