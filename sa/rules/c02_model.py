"""C02 helper: model of the mparser node classes (constructor parameter roles,
node-typed fields, fixed spellings) derived from source, shared by the C02 rules."""
from __future__ import annotations

import ast
import typing as T

from ..core import Undecided, attr_chain, walk_no_nested, names_in, norm

MPARSER = 'mesonbuild/mparser.py'
VISITOR = 'mesonbuild/ast/visitor.py'
PRINTER = 'mesonbuild/ast/printer.py'


def params_of(fn: ast.AST) -> T.List[str]:
    a = fn.args  # type: ignore[attr-defined]
    return [x.arg for x in a.posonlyargs + a.args]


class NodeModel:
    """Classes of mparser deriving from BaseNode and what their constructors do with each parameter:
    'tok'   - the parameter is a Token whose .value is copied into the node (the token is materialised),
    'store' - the parameter is stored as a field (a child node / list of children is attached),
    'pos'   - only positions or nothing are read from it."""

    def __init__(self, repo: T.Any, root: str = 'BaseNode'):
        self.repo = repo
        self.mod = repo.module(MPARSER)
        self.root = root
        self.classes: T.Dict[str, ast.ClassDef] = {}
        self._mro: T.Dict[str, T.List[ast.ClassDef]] = {}
        self._local = {n: c for n, c in self.mod.classes().items() if '.' not in n and '#' not in n}
        for name, c in self._local.items():
            if any(k.name == root for k in self._lin(name)):
                self.classes[name] = c
        if root not in self.classes:
            raise Undecided(f'{MPARSER}: no class hierarchy under {root}')
        self._roles: T.Dict[str, T.List[T.Tuple[str, str]]] = {}
        self._memo: T.Dict[T.Tuple[int, str], str] = {}

    def _lin(self, name: str) -> T.List[ast.ClassDef]:
        """Linearisation over the classes of this module (DFS, left to right; external bases are opaque).
        (kept local: only classes of this module matter here; sa.core.Repo.mro would do as well since its import table is cached.)"""
        if name not in self._mro:
            out: T.List[ast.ClassDef] = []

            def rec(n: str, depth: int) -> None:
                c = self._local.get(n)
                if c is None or depth > 12 or any(c is x for x in out):
                    return
                out.append(c)
                for b in c.bases:
                    bn = attr_chain(b.value if isinstance(b, ast.Subscript) else b)
                    if bn:
                        rec(bn, depth + 1)
            rec(name, 0)
            self._mro[name] = out
        return self._mro[name]

    # -- hierarchy -----------------------------------------------------
    def mro(self, name: str) -> T.List[ast.ClassDef]:
        return self._lin(name)

    def is_sub(self, name: str, base: str) -> bool:
        return name in self.classes and any(c.name == base for c in self.mro(name))

    def subclasses(self, base: str) -> T.List[str]:
        return [n for n in self.classes if n != base and self.is_sub(n, base)]

    def find(self, name: str, meth: str) -> T.Optional[T.Tuple[ast.ClassDef, ast.FunctionDef]]:
        for c in self.mro(name):
            for st in c.body:
                if isinstance(st, ast.FunctionDef) and st.name == meth:
                    return c, st
        return None

    def _next_init(self, owner: ast.ClassDef, of: str) -> T.Optional[T.Tuple[ast.ClassDef, ast.FunctionDef]]:
        seen = False
        for c in self.mro(of):
            if seen:
                for st in c.body:
                    if isinstance(st, ast.FunctionDef) and st.name == '__init__':
                        return c, st
            if c is owner:
                seen = True
        return None

    # -- parameter roles -----------------------------------------------
    def roles(self, name: str) -> T.List[T.Tuple[str, str]]:
        if name not in self._roles:
            r = self.find(name, '__init__')
            if r is None:
                raise Undecided(f'{name}: no __init__ in the repository hierarchy')
            owner, fn = r
            if fn.args.vararg or fn.args.kwarg:
                raise Undecided(f'{owner.name}.__init__ takes *args/**kwargs')
            self._roles[name] = [(p, self._role(name, owner, fn, p, 0)) for p in params_of(fn)[1:]]
        return self._roles[name]

    def _role(self, of: str, owner: ast.ClassDef, fn: ast.FunctionDef, pname: str, depth: int) -> str:
        key = (id(fn), pname + '@' + of)
        if key in self._memo:
            return self._memo[key]
        if depth > 6:
            raise Undecided(f'{owner.name}.{fn.name}: delegation chain too deep')
        found: T.Set[str] = set()
        for n in walk_no_nested(fn):
            if isinstance(n, (ast.Assign, ast.AugAssign, ast.AnnAssign)) and getattr(n, 'value', None) is not None:
                tgts = n.targets if isinstance(n, ast.Assign) else [n.target]
                for t in tgts:
                    base = t.value if isinstance(t, ast.Subscript) else t
                    ch = attr_chain(base) or ''
                    if not ch.startswith('self.'):
                        continue
                    v = n.value
                    if isinstance(v, ast.Name) and v.id == pname and isinstance(n, (ast.Assign, ast.AnnAssign)):
                        found.add('store')
                    elif any(isinstance(x, ast.Attribute) and x.attr == 'value' and isinstance(x.value, ast.Name) and x.value.id == pname
                             for x in ast.walk(v)):
                        found.add('tok')
                    elif fn.name != '__init__' and pname in names_in(v):
                        found.add('store')
                    if isinstance(t, ast.Subscript) and fn.name != '__init__' and pname in names_in(t.slice):
                        found.add('store')
            elif isinstance(n, ast.Call):
                tgt = self._delegate(of, owner, n)
                if tgt is None:
                    continue
                c2, f2, args = tgt
                ps = params_of(f2)[1:]
                for i, a in enumerate(args):
                    if isinstance(a, ast.Name) and a.id == pname and i < len(ps):
                        found.add(self._role(of, c2, f2, ps[i], depth + 1))
        role = 'tok' if 'tok' in found else 'store' if 'store' in found else 'pos'
        if role == 'store':
            # a stored parameter is a child only when it is typed as a node (or untyped); ints/strings are positions/labels
            ann = next((a.annotation for a in fn.args.posonlyargs + fn.args.args if a.arg == pname), None)
            if ann is not None and self._field_kind(ann) is None:
                role = 'pos'
        self._memo[key] = role
        return role

    def _delegate(self, of: str, owner: ast.ClassDef, call: ast.Call) -> T.Optional[T.Tuple[ast.ClassDef, ast.FunctionDef, T.List[ast.expr]]]:
        f = call.func
        if not isinstance(f, ast.Attribute):
            return None
        if isinstance(f.value, ast.Call) and isinstance(f.value.func, ast.Name) and f.value.func.id == 'super' and f.attr == '__init__':
            nx = self._next_init(owner, of)
            return (nx[0], nx[1], list(call.args)) if nx else None
        if isinstance(f.value, ast.Name) and f.value.id in self.classes and f.attr == '__init__' and call.args:
            r = self.find(f.value.id, '__init__')
            return (r[0], r[1], list(call.args[1:])) if r else None
        if isinstance(f.value, ast.Name) and f.value.id == 'self':
            r = self.find(of, f.attr)
            return (r[0], r[1], list(call.args)) if r else None
        return None

    def method_stores(self, meth: str, idx: int) -> T.Optional[bool]:
        """Does node-class method `meth` keep its idx-th argument in a field?  None: no node class defines it."""
        res: T.List[bool] = []
        for name, c in self.classes.items():
            for st in c.body:
                if isinstance(st, ast.FunctionDef) and st.name == meth:
                    ps = params_of(st)[1:]
                    if idx >= len(ps):
                        res.append(False)
                    else:
                        res.append(self._role(name, c, st, ps[idx], 0) in ('store', 'tok'))
        if not res:
            return None
        return all(res)

    def carrier_free(self) -> T.Set[str]:
        """Leaf classes whose constructor keeps no token and no child (EmptyNode)."""
        out = set()
        for n in self.classes:
            if n == self.root or self.subclasses(n):
                continue
            if all(r == 'pos' for _, r in self.roles(n)) and not self.node_fields(n):
                out.add(n)
        return out

    # -- fields ----------------------------------------------------------
    def node_fields(self, name: str) -> T.List[T.Tuple[str, str]]:
        """(field, 'one'|'list'|'dict'|'opt') for annotated fields whose type is a node class, in declaration order
        (base classes first), without the bookkeeping field `whitespaces`."""
        out: T.List[T.Tuple[str, str]] = []
        for c in reversed(self.mro(name)):
            if c.name == self.root:
                continue
            for st in c.body:
                if isinstance(st, ast.AnnAssign) and isinstance(st.target, ast.Name):
                    k = self._field_kind(st.annotation)
                    if k and all(f != st.target.id for f, _ in out):
                        out.append((st.target.id, k))
        return out

    def _field_kind(self, ann: ast.AST) -> T.Optional[str]:
        if isinstance(ann, ast.Constant) and isinstance(ann.value, str):
            try:
                ann = ast.parse(ann.value, mode='eval').body
            except SyntaxError:
                return None
        names = {n for n in names_in(ann)} | {x.attr for x in ast.walk(ann) if isinstance(x, ast.Attribute)}
        if not (names & set(self.classes)):
            return None
        txt = norm(ann)
        if txt.startswith('T.List[') or txt.startswith('List['):
            return 'list'
        if txt.startswith('T.Dict[') or txt.startswith('Dict['):
            return 'dict'
        if txt.startswith('T.Optional['):
            return 'opt'
        return 'one'


def fixed_spellings(repo: T.Any, model: NodeModel) -> T.Dict[str, str]:
    """Node classes that the full-fidelity printer replays as a constant text, whatever token they were built from:
    `RawPrinter.visit_<K>` appends one string constant and reads no field of the node."""
    pm = repo.module(PRINTER)
    out: T.Dict[str, str] = {}
    for name, fn in pm.methods('RawPrinter').items():
        if not name.startswith('visit_') or name[6:] not in model.classes:
            continue
        node = params_of(fn)[1] if len(params_of(fn)) > 1 else None
        adds = [n for n in walk_no_nested(fn) if isinstance(n, ast.AugAssign) and attr_chain(n.target) == 'self.result']
        reads = [n for n in walk_no_nested(fn) if isinstance(n, ast.Attribute) and isinstance(n.value, ast.Name) and n.value.id == node]
        if len(adds) == 1 and isinstance(adds[0].value, ast.Constant) and isinstance(adds[0].value.value, str) and not reads:
            out[name[6:]] = adds[0].value.value
    return out
