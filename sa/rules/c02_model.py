"""C02 helper: model of the mparser node classes (constructor parameter roles,
node-typed fields, fixed spellings) derived from source, shared by the C02 rules."""
from __future__ import annotations

import ast
import typing as T

from ..core import Undecided, attr_chain, walk_no_nested, names_in, norm

MPARSER = 'mesonbuild/mparser.py'
VISITOR = 'mesonbuild/ast/visitor.py'
PRINTER = 'mesonbuild/ast/printer.py'


def params_of(fn: ast.AST) -> T.List[str]:
    a = fn.args  # type: ignore[attr-defined]
    return [x.arg for x in a.posonlyargs + a.args]


MUTATORS = ('append', 'extend', 'insert', 'add', 'update', 'setdefault', 'appendleft', 'prepend')


def whole_uses(v: ast.AST, pname: str) -> bool:
    """Is the object named `pname` itself used in `v` (not merely one of its attributes read)?"""
    attr_bases = {id(x.value) for x in ast.walk(v) if isinstance(x, ast.Attribute)}
    return any(isinstance(x, ast.Name) and x.id == pname and id(x) not in attr_bases for x in ast.walk(v))


def bind_call(call: ast.Call, params: T.List[str], skip: int = 0) -> T.Optional[T.List[T.Optional[ast.AST]]]:
    """Arguments of `call` (after `skip` leading positionals) aligned to `params` by position or keyword name; None if it cannot be done."""
    pos = list(call.args[skip:])
    if any(isinstance(a, ast.Starred) for a in pos) or any(k.arg is None for k in call.keywords) or len(pos) > len(params):
        return None
    out: T.List[T.Optional[ast.AST]] = [None] * len(params)
    for i, a in enumerate(pos):
        out[i] = a
    for k in call.keywords:
        if k.arg not in params or out[params.index(k.arg)] is not None:
            return None
        out[params.index(k.arg)] = k.value
    return out


class NodeModel:
    """Classes of mparser deriving from BaseNode and what their constructors do with each parameter:
    'tok'   - the parameter is a Token whose .value is copied into the node (the token is materialised),
    'store' - the parameter is stored as a field (a child node / list of children is attached),
    'pos'   - only positions or nothing are read from it."""

    def __init__(self, repo: T.Any, root: str = 'BaseNode'):
        self.repo = repo
        self.mod = repo.module(MPARSER)
        self.root = root
        self.classes: T.Dict[str, ast.ClassDef] = {}
        self._mro: T.Dict[str, T.List[ast.ClassDef]] = {}
        self._local = {n: c for n, c in self.mod.classes().items() if '.' not in n and '#' not in n}
        for name, c in self._local.items():
            if any(k.name == root for k in self._lin(name)):
                self.classes[name] = c
        if root not in self.classes:
            raise Undecided(f'{MPARSER}: no class hierarchy under {root}')
        self._roles: T.Dict[str, T.List[T.Tuple[str, str]]] = {}
        self._memo: T.Dict[T.Tuple[int, str], str] = {}

    def _lin(self, name: str) -> T.List[ast.ClassDef]:
        """Linearisation over the classes of this module (DFS, left to right; external bases are opaque).
        (kept local: only classes of this module matter here; sa.core.Repo.mro would do as well since its import table is cached.)"""
        if name not in self._mro:
            out: T.List[ast.ClassDef] = []

            def rec(n: str, depth: int) -> None:
                c = self._local.get(n)
                if c is None or depth > 12 or any(c is x for x in out):
                    return
                out.append(c)
                for b in c.bases:
                    bn = attr_chain(b.value if isinstance(b, ast.Subscript) else b)
                    if bn:
                        rec(bn, depth + 1)
            rec(name, 0)
            self._mro[name] = out
        return self._mro[name]

    # -- hierarchy -----------------------------------------------------
    def mro(self, name: str) -> T.List[ast.ClassDef]:
        return self._lin(name)

    def is_sub(self, name: str, base: str) -> bool:
        return name in self.classes and any(c.name == base for c in self.mro(name))

    def subclasses(self, base: str) -> T.List[str]:
        return [n for n in self.classes if n != base and self.is_sub(n, base)]

    def find(self, name: str, meth: str) -> T.Optional[T.Tuple[ast.ClassDef, ast.FunctionDef]]:
        for c in self.mro(name):
            for st in c.body:
                if isinstance(st, ast.FunctionDef) and st.name == meth:
                    return c, st
        return None

    def _next_init(self, owner: ast.ClassDef, of: str) -> T.Optional[T.Tuple[ast.ClassDef, ast.FunctionDef]]:
        seen = False
        for c in self.mro(of):
            if seen:
                for st in c.body:
                    if isinstance(st, ast.FunctionDef) and st.name == '__init__':
                        return c, st
            if c is owner:
                seen = True
        return None

    # -- parameter roles -----------------------------------------------
    def roles(self, name: str) -> T.List[T.Tuple[str, str]]:
        if name not in self._roles:
            r = self.find(name, '__init__')
            if r is None:
                raise Undecided(f'{name}: no __init__ in the repository hierarchy')
            owner, fn = r
            if fn.args.vararg or fn.args.kwarg:
                raise Undecided(f'{owner.name}.__init__ takes *args/**kwargs')
            self._roles[name] = [(p, self._role(name, owner, fn, p, 0)) for p in params_of(fn)[1:]]
        return self._roles[name]

    def _role(self, of: str, owner: ast.ClassDef, fn: ast.FunctionDef, pname: str, depth: int) -> str:
        key = (id(fn), pname + '@' + of)
        if key in self._memo:
            return self._memo[key]
        if depth > 6:
            raise Undecided(f'{owner.name}.{fn.name}: delegation chain too deep')
        found: T.Set[str] = set()
        explained: T.Set[int] = set()     # ids of Name nodes of pname whose use is understood
        for n in walk_no_nested(fn):
            if isinstance(n, (ast.Assign, ast.AugAssign, ast.AnnAssign)) and getattr(n, 'value', None) is not None:
                tgts = n.targets if isinstance(n, ast.Assign) else [n.target]
                for t in tgts:
                    base = t.value if isinstance(t, ast.Subscript) else t
                    ch = attr_chain(base) or ''
                    if not ch.startswith('self.'):
                        continue
                    v = n.value
                    if any(isinstance(x, ast.Attribute) and x.attr == 'value' and isinstance(x.value, ast.Name) and x.value.id == pname
                           for x in ast.walk(v)):
                        found.add('tok')
                    if whole_uses(v, pname):
                        found.add('store')
                        explained |= {id(x) for x in ast.walk(v) if isinstance(x, ast.Name) and x.id == pname}
                    if isinstance(t, ast.Subscript) and whole_uses(t.slice, pname):
                        found.add('store')
                        explained |= {id(x) for x in ast.walk(t.slice) if isinstance(x, ast.Name) and x.id == pname}
            elif isinstance(n, ast.Call):
                f = n.func
                if isinstance(f, ast.Attribute) and f.attr in MUTATORS and (attr_chain(f.value) or '').startswith('self.'):
                    for a in list(n.args) + [k.value for k in n.keywords]:
                        if whole_uses(a, pname):
                            found.add('store')
                            explained |= {id(x) for x in ast.walk(a) if isinstance(x, ast.Name) and x.id == pname}
                tgt = self._delegate(of, owner, n)
                if tgt is None:
                    if isinstance(f, ast.Name) and f.id in ('isinstance', 'len', 'type', 'id', 'repr', 'str', 'hasattr'):
                        explained |= {id(x) for a in n.args for x in ast.walk(a) if isinstance(x, ast.Name) and x.id == pname}
                    continue
                c2, f2, args = tgt
                ps = params_of(f2)[1:]
                bound = bind_call(ast.Call(func=n.func, args=args, keywords=n.keywords), ps)
                if bound is None:
                    continue
                for i, a in enumerate(bound):
                    if isinstance(a, ast.Name) and a.id == pname:
                        found.add(self._role(of, c2, f2, ps[i], depth + 1))
                        explained.add(id(a))
        attr_bases = {id(x.value) for x in walk_no_nested(fn) if isinstance(x, ast.Attribute)}
        for x in walk_no_nested(fn):
            if isinstance(x, ast.Name) and x.id == pname and isinstance(x.ctx, ast.Load) and id(x) not in attr_bases and id(x) not in explained:
                par = None
                found.add('unknown')    # the object is handed on in a way this model does not follow
        found.discard('pos')
        role = 'tok' if 'tok' in found else 'store' if 'store' in found else 'unknown' if 'unknown' in found else 'pos'
        if role in ('store', 'unknown'):
            # a stored parameter is a child only when it is typed as a node (or untyped); ints/strings are positions/labels
            ann = next((a.annotation for a in fn.args.posonlyargs + fn.args.args if a.arg == pname), None)
            scalars = {'int', 'str', 'bool', 'float', 'bytes', 'T', 'typing', 'Optional', 'None'}
            if ann is not None and self._field_kind(ann) is None and (names_in(ann) | {'T'}) <= scalars:
                role = 'pos'
        self._memo[key] = role
        return role

    def _delegate(self, of: str, owner: ast.ClassDef, call: ast.Call) -> T.Optional[T.Tuple[ast.ClassDef, ast.FunctionDef, T.List[ast.expr]]]:
        f = call.func
        if not isinstance(f, ast.Attribute):
            return None
        if isinstance(f.value, ast.Call) and isinstance(f.value.func, ast.Name) and f.value.func.id == 'super' and f.attr == '__init__':
            nx = self._next_init(owner, of)
            return (nx[0], nx[1], list(call.args)) if nx else None
        if isinstance(f.value, ast.Name) and f.value.id in self.classes and f.attr == '__init__' and call.args:
            r = self.find(f.value.id, '__init__')
            return (r[0], r[1], list(call.args[1:])) if r else None
        if isinstance(f.value, ast.Name) and f.value.id == 'self':
            r = self.find(of, f.attr)
            return (r[0], r[1], list(call.args)) if r else None
        return None

    def method_stores(self, meth: str, idx: T.Union[int, str], cls: T.Optional[str] = None) -> T.Optional[str]:
        """Does node-class method `meth` keep its argument (given by position or keyword name) in a field?
        'yes' / 'no' / 'unknown' (the method hands it on in a way not followed); None: no node class defines the method."""
        res: T.List[str] = []
        if cls is not None and cls in self.classes:
            r0 = self.find(cls, meth)
            scope = [(cls, r0[0])] if r0 else []
        else:
            scope = list(self.classes.items())
        for name, c in scope:
            for st in c.body:
                if isinstance(st, ast.FunctionDef) and st.name == meth:
                    ps = params_of(st)[1:]
                    pn = idx if isinstance(idx, str) else (ps[idx] if idx < len(ps) else None)
                    if pn is None or pn not in ps:
                        res.append('no')
                    else:
                        r = self._role(name, c, st, pn, 0)
                        res.append('yes' if r in ('store', 'tok') else 'unknown' if r == 'unknown' else 'no')
        if not res:
            return None
        return 'yes' if all(r == 'yes' for r in res) else 'unknown' if 'unknown' in res or 'yes' in res else 'no'

    def carrier_free(self) -> T.Set[str]:
        """Leaf classes whose constructor keeps no token and no child (EmptyNode)."""
        out = set()
        for n in self.classes:
            if n == self.root or self.subclasses(n):
                continue
            if all(r == 'pos' for _, r in self.roles(n)) and not self.node_fields(n):
                out.add(n)
        return out

    # -- fields ----------------------------------------------------------
    def node_fields(self, name: str) -> T.List[T.Tuple[str, str]]:
        """(field, 'one'|'list'|'dict'|'opt') for annotated fields whose type is a node class, in declaration order
        (base classes first), without the bookkeeping field `whitespaces`."""
        out: T.List[T.Tuple[str, str]] = []
        for c in reversed(self.mro(name)):
            if c.name == self.root:
                continue
            for st in c.body:
                if isinstance(st, ast.AnnAssign) and isinstance(st.target, ast.Name):
                    k = self._field_kind(st.annotation)
                    if k and all(f != st.target.id for f, _ in out):
                        out.append((st.target.id, k))
        return out

    def _field_kind(self, ann: ast.AST) -> T.Optional[str]:
        if isinstance(ann, ast.Constant) and isinstance(ann.value, str):
            try:
                ann = ast.parse(ann.value, mode='eval').body
            except SyntaxError:
                return None
        names = {n for n in names_in(ann)} | {x.attr for x in ast.walk(ann) if isinstance(x, ast.Attribute)}
        if not (names & set(self.classes)):
            return None
        txt = norm(ann)
        if txt.startswith('T.List[') or txt.startswith('List['):
            return 'list'
        if txt.startswith('T.Dict[') or txt.startswith('Dict['):
            return 'dict'
        if txt.startswith('T.Optional['):
            return 'opt'
        return 'one'


def inline_self_calls(fn: ast.FunctionDef, lookup: T.Callable[[str], T.Optional[ast.FunctionDef]], keep: T.Callable[[str], bool], depth: int = 0) -> ast.FunctionDef:
    """Copy of `fn` in which every statement `self.h(args)` (h found by `lookup`, not kept by `keep`, without a valued return,
    arguments bindable by signature) is replaced by h's body with the parameters substituted - the "trivial helper inlined"
    normal form, two levels deep."""
    import copy

    class Subst(ast.NodeTransformer):
        def __init__(self, m: T.Dict[str, ast.AST]):
            self.m = m

        def visit_Name(self, n: ast.Name) -> ast.AST:
            if n.id in self.m and isinstance(n.ctx, ast.Load):
                return ast.copy_location(copy.deepcopy(self.m[n.id]), n)
            return n

    def expand(stmts: T.List[ast.stmt], d: int) -> T.List[ast.stmt]:
        out: T.List[ast.stmt] = []
        for st in stmts:
            for field in ('body', 'orelse', 'finalbody'):
                if isinstance(getattr(st, field, None), list) and not isinstance(st, (ast.FunctionDef, ast.ClassDef)):
                    setattr(st, field, expand(getattr(st, field), d))
            c = st.value if isinstance(st, ast.Expr) and isinstance(st.value, ast.Call) else None
            name = (attr_chain(c.func) or '')[5:] if c is not None and (attr_chain(c.func) or '').startswith('self.') and (attr_chain(c.func) or '').count('.') == 1 else ''
            h = lookup(name) if name and not keep(name) and d < 2 else None
            if h is not None and h is not fn:
                ps = params_of(h)[1:]
                b = bind_call(c, ps)  # type: ignore[arg-type]
                defaults = dict(zip(reversed(ps), reversed(h.args.defaults)))
                rets = [r for r in walk_no_nested(h) if isinstance(r, ast.Return)]
                stores = [x for x in walk_no_nested(h) if isinstance(x, ast.Name) and x.id in ps and not isinstance(x.ctx, ast.Load)]
                if b is not None and not rets and not stores and all(a is not None or p_ in defaults for a, p_ in zip(b, ps)):
                    m = {p_: (a if a is not None else defaults[p_]) for a, p_ in zip(b, ps)}
                    body = [Subst(m).visit(copy.deepcopy(x)) for x in h.body
                            if not (isinstance(x, ast.Expr) and isinstance(x.value, ast.Constant))]
                    out += expand(body, d + 1)
                    continue
            out.append(st)
        return out
    new = copy.deepcopy(fn)
    new.body = expand(new.body, depth)
    ast.fix_missing_locations(new)
    return new


def desugar_with(fn: ast.FunctionDef, method: T.Callable[[str], T.Optional[ast.FunctionDef]], klass: T.Callable[[str], T.Optional[ast.ClassDef]]) -> ast.FunctionDef:
    """Copy of `fn` in which `with self.m(args): body` is replaced by <enter statements>; body; <normal-exit statements>, when
    m is (a) a generator-style context manager method (`...; yield; ...`, also inside try/finally) or (b) returns `K(...)` of a
    scope class K whose __init__ only stores its parameters and whose __enter__/__exit__ are plain statements (the branch of
    __exit__ for "no exception" is taken).  Anything else is left alone."""
    import copy

    class Subst(ast.NodeTransformer):
        def __init__(self, names: T.Dict[str, ast.AST], attrs: T.Dict[str, ast.AST]):
            self.names, self.attrs = names, attrs

        def visit_Attribute(self, n: ast.Attribute) -> ast.AST:
            ch = attr_chain(n)
            if ch in self.attrs:
                return ast.copy_location(copy.deepcopy(self.attrs[ch]), n)
            return self.generic_visit(n)

        def visit_Name(self, n: ast.Name) -> ast.AST:
            if n.id in self.names and isinstance(n.ctx, ast.Load):
                return ast.copy_location(copy.deepcopy(self.names[n.id]), n)
            return n

    def plain(stmts: T.List[ast.stmt]) -> T.List[ast.stmt]:
        return [x for x in stmts if not (isinstance(x, ast.Expr) and isinstance(x.value, ast.Constant))]

    def expand_cm(c: ast.Call) -> T.Optional[T.Tuple[T.List[ast.stmt], T.List[ast.stmt]]]:
        name = (attr_chain(c.func) or '')[5:] if (attr_chain(c.func) or '').startswith('self.') and (attr_chain(c.func) or '').count('.') == 1 else ''
        m = method(name) if name else None
        if m is None:
            return None
        ps = params_of(m)[1:]
        b = bind_call(c, ps)
        if b is None or any(a is None for a in b):
            return None
        names = dict(zip(ps, b))  # type: ignore[arg-type]
        body = plain(m.body)
        # (a) generator: statements before / after the single top-level (or try-body) yield
        ys = [x for x in ast.walk(m) if isinstance(x, (ast.Yield, ast.YieldFrom))]
        if len(ys) == 1 and isinstance(ys[0], ast.Yield):
            seq = body
            tail: T.List[ast.stmt] = []
            if len(body) >= 1 and isinstance(body[-1], ast.Try) and not body[-1].handlers and any(isinstance(x, ast.Expr) and x.value is ys[0] for x in body[-1].body):
                seq, tail = body[:-1] + body[-1].body, body[-1].finalbody
            idx = [i for i, x in enumerate(seq) if isinstance(x, ast.Expr) and x.value is ys[0]]
            if len(idx) != 1:
                return None
            pre, post = seq[:idx[0]], seq[idx[0] + 1:] + tail
            sub = Subst(names, {})
            return [sub.visit(copy.deepcopy(x)) for x in pre], [sub.visit(copy.deepcopy(x)) for x in post]
        # (b) scope class
        if len(body) == 1 and isinstance(body[0], ast.Return) and isinstance(body[0].value, ast.Call) and isinstance(body[0].value.func, ast.Name):
            k = klass(body[0].value.func.id)
            if k is None:
                return None
            meths = {x.name: x for x in k.body if isinstance(x, ast.FunctionDef)}
            if not {'__init__', '__enter__', '__exit__'} <= set(meths):
                return None
            ips = params_of(meths['__init__'])[1:]
            ib = bind_call(body[0].value, ips)
            if ib is None or any(a is None for a in ib):
                return None
            attrs: T.Dict[str, ast.AST] = {}
            for st in plain(meths['__init__'].body):
                if isinstance(st, (ast.Assign, ast.AnnAssign)) and isinstance(st.value, ast.Name) and st.value.id in ips \
                        and (attr_chain(st.targets[0] if isinstance(st, ast.Assign) else st.target) or '').startswith('self.'):
                    a = ib[ips.index(st.value.id)]
                    attrs[attr_chain(st.targets[0] if isinstance(st, ast.Assign) else st.target) or ''] = Subst(names, {}).visit(copy.deepcopy(a))  # type: ignore[arg-type]
                else:
                    return None
            ex = meths['__exit__']
            exc = params_of(ex)[1] if len(params_of(ex)) > 1 else ''
            post_src = plain(ex.body)
            if len(post_src) == 1 and isinstance(post_src[0], ast.If) and norm(post_src[0].test) in (f'{exc} is None', f'not {exc}') and not post_src[0].orelse:
                post_src = post_src[0].body
            elif any(exc and exc in names_in(x) for x in post_src):
                return None
            if any(isinstance(x, (ast.Return, ast.Yield)) for st in post_src + plain(meths['__enter__'].body) for x in ast.walk(st)):
                return None
            sub = Subst({}, attrs)
            return [sub.visit(copy.deepcopy(x)) for x in plain(meths['__enter__'].body)], [sub.visit(copy.deepcopy(x)) for x in post_src]
        return None

    def expand(stmts: T.List[ast.stmt]) -> T.List[ast.stmt]:
        out: T.List[ast.stmt] = []
        for st in stmts:
            for field in ('body', 'orelse', 'finalbody'):
                if isinstance(getattr(st, field, None), list) and not isinstance(st, (ast.FunctionDef, ast.ClassDef)):
                    setattr(st, field, expand(getattr(st, field)))
            if isinstance(st, ast.With) and len(st.items) == 1 and st.items[0].optional_vars is None and isinstance(st.items[0].context_expr, ast.Call):
                r = expand_cm(st.items[0].context_expr)
                if r is not None:
                    out += r[0] + st.body + r[1]
                    continue
            out.append(st)
        return out
    if not any(isinstance(x, ast.With) for x in ast.walk(fn)):
        return fn
    new = copy.deepcopy(fn)
    new.body = expand(new.body)
    ast.fix_missing_locations(new)
    return new


def inline_cm_with(fn: ast.FunctionDef, find_func: T.Callable[[str], T.Optional[ast.FunctionDef]],
                   find_method: T.Callable[[str], T.Optional[ast.FunctionDef]]) -> ast.FunctionDef:
    """Copy of `fn` in which `with cm(args): BODY` over a `@contextmanager` generator (module-level function or method of the same
    class) with exactly one `yield` is replaced by what the decorator makes of it, exceptional exits included:
        PRE; try: BODY except ...: H finally: F; POST      (when the generator is `PRE; try: yield; except ...: H; finally: F; POST`)
        PRE; BODY; POST                                     (when the yield is a plain statement)
    Arguments must be side-effect free (names, attributes, constants) and are substituted for the parameters.  POST is only allowed
    when BODY cannot leave by return/break/continue.  Any other shape is left alone (the same object is returned when nothing changed)."""
    import copy

    def is_cm(g: ast.FunctionDef) -> bool:
        return any((attr_chain(d) or '').split('.')[-1] == 'contextmanager' for d in g.decorator_list)

    def target(c: ast.Call) -> T.Optional[T.Tuple[ast.FunctionDef, int]]:
        ch = attr_chain(c.func) or ''
        if isinstance(c.func, ast.Name):
            g = find_func(c.func.id)
            return (g, 0) if g is not None else None
        if ch.startswith('self.') and ch.count('.') == 1:
            g = find_method(ch[5:])
            if g is not None:
                return (g, 0 if any((attr_chain(d) or '') == 'staticmethod' for d in g.decorator_list) else 1)
        return None

    def plain(stmts: T.List[ast.stmt]) -> T.List[ast.stmt]:
        return [x for x in stmts if not (isinstance(x, ast.Expr) and isinstance(x.value, ast.Constant))]
    local_stores = {n.id for n in ast.walk(fn) if isinstance(n, ast.Name) and not isinstance(n.ctx, ast.Load)} | set(params_of(fn))

    def expand_one(w: ast.With) -> T.Optional[T.List[ast.stmt]]:
        if len(w.items) != 1 or w.items[0].optional_vars is not None or not isinstance(w.items[0].context_expr, ast.Call):
            return None
        c = w.items[0].context_expr
        tg = target(c)
        if tg is None or not is_cm(tg[0]):
            return None
        g, skip = tg
        ps = params_of(g)[skip:]
        b = bind_call(c, ps)
        if b is None or any(a is None or not (isinstance(a, ast.Constant) or attr_chain(a)) for a in b) or g.args.vararg or g.args.kwarg or g.args.kwonlyargs:
            return None
        ys = [x for x in walk_no_nested(g) if isinstance(x, (ast.Yield, ast.YieldFrom))]
        if len(ys) != 1 or not isinstance(ys[0], ast.Yield) or ys[0].value is not None:
            return None
        body = plain(g.body)

        def is_yield(st: ast.stmt) -> bool:
            return isinstance(st, ast.Expr) and st.value is ys[0]
        at = [i for i, st in enumerate(body) if is_yield(st) or (isinstance(st, ast.Try) and len(plain(st.body)) == 1 and is_yield(plain(st.body)[0]))]
        if len(at) != 1:
            return None
        pre, mid, post = body[:at[0]], body[at[0]], body[at[0] + 1:]
        if any(isinstance(x, (ast.Return, ast.Yield, ast.YieldFrom)) for st in pre + post for x in ast.walk(st)):
            return None
        if post and any(isinstance(x, (ast.Return, ast.Break, ast.Continue)) for st in w.body for x in walk_no_nested(st)):
            return None
        g_locals = {n.id for n in ast.walk(g) if isinstance(n, ast.Name) and not isinstance(n.ctx, ast.Load)} | \
                   {h.name for h in ast.walk(g) if isinstance(h, ast.ExceptHandler) and h.name}
        if g_locals & (local_stores | set(ps)):
            return None      # a local of the generator would capture a local of the caller

        class Sub(ast.NodeTransformer):
            def visit_Name(self, n: ast.Name) -> ast.AST:
                if n.id in ps and isinstance(n.ctx, ast.Load):
                    return ast.copy_location(copy.deepcopy(b[ps.index(n.id)]), n)  # type: ignore[index,arg-type]
                return n
        cp = lambda xs: [Sub().visit(copy.deepcopy(x)) for x in xs]
        if isinstance(mid, ast.Try):
            if any(isinstance(x, ast.Return) for part in (mid.handlers, mid.orelse, mid.finalbody) for st in part for x in ast.walk(st)):
                return None
            t = ast.Try(body=list(w.body), handlers=cp(mid.handlers), orelse=cp(mid.orelse), finalbody=cp(mid.finalbody))
            return cp(pre) + [ast.copy_location(t, w)] + cp(post)
        return cp(pre) + list(w.body) + cp(post)

    class Tr(ast.NodeTransformer):
        changed = False

        def visit_With(self, w: ast.With) -> T.Any:
            self.generic_visit(w)
            r = expand_one(w)
            if r is None:
                return w
            Tr.changed = True
            return r

        def visit_FunctionDef(self, n: ast.FunctionDef) -> T.Any:
            if n is not new:
                return n
            self.generic_visit(n)
            return n

        def visit_Lambda(self, n: ast.Lambda) -> T.Any:
            return n
    if not any(isinstance(x, ast.With) for x in ast.walk(fn)):
        return fn
    new = copy.deepcopy(fn)
    Tr.changed = False
    Tr().visit(new)
    if not Tr.changed:
        return fn
    ast.fix_missing_locations(new)
    return new


def normal_methods(mod: T.Any, cls: str) -> T.Dict[str, ast.FunctionDef]:
    """Methods of `cls` with context-manager helpers inlined (inline_cm_with)."""
    meths = mod.methods(cls)
    ff = lambda n: mod.func(n) if mod.has_func(n) else None
    return {n: inline_cm_with(f, ff, meths.get) for n, f in meths.items()}


def emission(st: ast.AST, buffers: T.Set[str]) -> T.Optional[T.List[ast.AST]]:
    """The text expressions a printer statement emits: `self.result += X`, `self.result = self.result + X`, or - when `result`
    is a property joining a list of chunks - `self.<chunks>.append(X)` / `.extend([X, Y])` / `+= [X]`."""
    if isinstance(st, ast.AugAssign) and isinstance(st.op, ast.Add):
        t = attr_chain(st.target)
        if t == 'self.result':
            return [st.value]
        if t and t[5:] in buffers and isinstance(st.value, (ast.List, ast.Tuple)):
            return list(st.value.elts)
    if isinstance(st, ast.Assign) and attr_chain(st.targets[0]) == 'self.result' and isinstance(st.value, ast.BinOp) and isinstance(st.value.op, ast.Add) \
            and norm(st.value.left) == 'self.result':
        return [st.value.right]
    if isinstance(st, ast.Expr) and isinstance(st.value, ast.Call) and isinstance(st.value.func, ast.Attribute):
        base = attr_chain(st.value.func.value) or ''
        if base.startswith('self.') and base[5:] in buffers and not st.value.keywords:
            if st.value.func.attr == 'append' and len(st.value.args) == 1:
                return [st.value.args[0]]
            if st.value.func.attr == 'extend' and len(st.value.args) == 1 and isinstance(st.value.args[0], (ast.List, ast.Tuple)):
                return list(st.value.args[0].elts)
    return None


def chunk_buffers(cls: ast.ClassDef) -> T.Set[str]:
    """Attributes B of a printer class such that its `result` property returns ''.join(self.B)."""
    out: T.Set[str] = set()
    for m in cls.body:
        if isinstance(m, ast.FunctionDef) and m.name == 'result' and any((attr_chain(d) or '') == 'property' for d in m.decorator_list):
            for r in ast.walk(m):
                if isinstance(r, ast.Return) and isinstance(r.value, ast.Call) and isinstance(r.value.func, ast.Attribute) and r.value.func.attr == 'join' \
                        and isinstance(r.value.func.value, ast.Constant) and r.value.func.value.value == '' and len(r.value.args) == 1 \
                        and (attr_chain(r.value.args[0]) or '').startswith('self.'):
                    out.add((attr_chain(r.value.args[0]) or '')[5:])
    return out


class Callables(dict):   # type: ignore[type-arg]
    """name -> FunctionDef; `.unread` = class-level bindings of a callable-looking value whose shape was not understood."""
    unread: T.Set[str]


def closure_instance(f: ast.FunctionDef, call: ast.Call, name: str) -> T.Optional[ast.FunctionDef]:
    """`name = f(<constants>)` where the module-level `f` does nothing but define one inner function and return it (a closure
    factory): the inner function with the factory's parameters replaced by the constants of the call (`*rest` becomes the tuple of
    the remaining constants).  Folding of constants only; None when the factory or the call has any other shape."""
    import copy
    body = [s for s in f.body if not (isinstance(s, ast.Expr) and isinstance(s.value, ast.Constant))]
    if len(body) != 2 or not isinstance(body[0], ast.FunctionDef) or not isinstance(body[1], ast.Return) \
            or not (isinstance(body[1].value, ast.Name) and body[1].value.id == body[0].name) or body[0].decorator_list or f.decorator_list:
        return None
    inner = body[0]
    a = f.args
    if a.kwonlyargs or a.kwarg or a.defaults or a.posonlyargs or any(isinstance(x, ast.Starred) for x in call.args):
        return None
    ps = [x.arg for x in a.args]

    def const(x: ast.AST) -> bool:
        return isinstance(x, ast.Constant) or (isinstance(x, (ast.Tuple, ast.List)) and all(const(y) for y in x.elts))
    if not all(const(x) for x in call.args) or not all(k.arg and const(k.value) for k in call.keywords):
        return None
    bound: T.Dict[str, ast.AST] = dict(zip(ps, call.args))
    rest = list(call.args[len(ps):])
    if rest and not a.vararg:
        return None
    for k in call.keywords:
        if k.arg not in ps or k.arg in bound:
            return None
        bound[k.arg] = k.value      # type: ignore[index]
    if set(bound) != set(ps):
        return None
    if a.vararg:
        bound[a.vararg.arg] = ast.Tuple(elts=rest, ctx=ast.Load())
    # the inner function must only read the captured names (no rebinding, no shadowing parameter, no nonlocal)
    for n in ast.walk(inner):
        if isinstance(n, ast.Name) and n.id in bound and not isinstance(n.ctx, ast.Load):
            return None
        if isinstance(n, ast.arg) and n.arg in bound:
            return None
        if isinstance(n, (ast.Nonlocal, ast.Global)):
            return None
    g = copy.deepcopy(inner)
    g.name = name

    class Sub(ast.NodeTransformer):
        def visit_Name(self, n: ast.Name) -> ast.AST:
            if n.id in bound and isinstance(n.ctx, ast.Load):
                return ast.copy_location(copy.deepcopy(bound[n.id]), n)
            return n
    g.body = [Sub().visit(x) for x in g.body]
    ast.fix_missing_locations(g)
    return g


def class_callables(cls: ast.ClassDef, find_class: T.Callable[[str], T.Optional[ast.ClassDef]], depth: int = 0,
                    find_func: T.Optional[T.Callable[[str], T.Optional[ast.FunctionDef]]] = None) -> 'Callables':
    """Methods of a class body by name, including class-level aliases (`visit_A = visit_B`, `visit_A = Other.method`),
    `functools.partialmethod(f, <constants>)` bindings (read as f with its leading parameters replaced by the constants) and
    instances of a module-level closure factory called with constants (`visit_A = _make('x', 'y')`, see closure_instance).
    A class-level binding to a call/lambda/attribute that is none of these is recorded in `.unread`."""
    import copy
    out = Callables()
    out.unread = set()
    for st in cls.body:
        if isinstance(st, ast.FunctionDef):
            out[st.name] = st
            out.unread.discard(st.name)
        elif isinstance(st, ast.Assign) and len(st.targets) == 1 and isinstance(st.targets[0], ast.Name) and depth < 3:
            name, v = st.targets[0].id, st.value
            if isinstance(v, (ast.Call, ast.Lambda, ast.Attribute, ast.Name, ast.Subscript, ast.IfExp)):
                out.unread.add(name)
                out.pop(name, None)
            if isinstance(v, ast.Call) and isinstance(v.func, ast.Name) and find_func is not None and find_func(v.func.id) is not None:
                g0 = closure_instance(find_func(v.func.id), v, name)      # type: ignore[arg-type]
                if g0 is not None:
                    out[name] = g0
            elif isinstance(v, ast.Name) and v.id in out:
                out[name] = out[v.id]
            elif isinstance(v, ast.Attribute) and isinstance(v.value, ast.Name):
                k = find_class(v.value.id)
                if k is not None:
                    m = class_callables(k, find_class, depth + 1, find_func).get(v.attr)
                    if m is not None:
                        out[name] = m
            elif isinstance(v, ast.Call) and (attr_chain(v.func) or '').split('.')[-1] == 'partialmethod' and v.args and isinstance(v.args[0], ast.Name) \
                    and v.args[0].id in out and all(isinstance(a, ast.Constant) for a in v.args[1:]) and all(k.arg and isinstance(k.value, ast.Constant) for k in v.keywords):
                f = out[v.args[0].id]
                ps = params_of(f)[1:]
                bound = dict(zip(ps, v.args[1:]))
                bound.update({k.arg: k.value for k in v.keywords if k.arg in ps})
                if len(v.args) - 1 > len(ps) or any(k.arg not in ps for k in v.keywords):
                    continue
                g = copy.deepcopy(f)
                g.name = name
                g.args.args = [a for a in g.args.args if a.arg not in bound]

                class Sub(ast.NodeTransformer):
                    def visit_Name(self, n: ast.Name) -> ast.AST:
                        if n.id in bound and isinstance(n.ctx, ast.Load):
                            return ast.copy_location(copy.deepcopy(bound[n.id]), n)
                        return n
                g.body = [Sub().visit(x) for x in g.body]
                ast.fix_missing_locations(g)
                out[name] = g
            if name in out:
                out.unread.discard(name)
    return out


def fixed_spellings(repo: T.Any, model: NodeModel) -> T.Dict[str, str]:
    """Node classes that the full-fidelity printer replays as a constant text, whatever token they were built from:
    `RawPrinter.visit_<K>` appends one string constant and reads no field of the node."""
    pm = repo.module(PRINTER)
    vm = repo.module(VISITOR)
    out: T.Dict[str, str] = {}

    def find_class(n: str) -> T.Optional[ast.ClassDef]:
        return pm.cls(n) if pm.has_cls(n) else vm.cls(n) if vm.has_cls(n) else None
    def find_func(n: str) -> T.Optional[ast.FunctionDef]:
        for m in (pm, vm):
            if m.has_func(n):
                return m.func(n)      # type: ignore[return-value]
        return None
    meths = class_callables(pm.cls('RawPrinter'), find_class, 0, find_func)
    for name, fn in meths.items():
        if not name.startswith('visit_') or name[6:] not in model.classes:
            continue
        fn = inline_self_calls(fn, meths.get, lambda n: n in ('enter_node', 'exit_node') or n.startswith('visit_'))
        node = params_of(fn)[1] if len(params_of(fn)) > 1 else None
        bufs = chunk_buffers(pm.cls('RawPrinter'))
        emitted = [(st, emission(st, bufs)) for st in walk_no_nested(fn) if isinstance(st, ast.stmt)]
        em_calls = {id(st.value) for st, e_ in emitted if e_ is not None and isinstance(st, ast.Expr)}
        opaque = [c for c in walk_no_nested(fn) if isinstance(c, ast.Call) and (attr_chain(c.func) or '').startswith('self.') and id(c) not in em_calls
                  and (attr_chain(c.func) or '')[5:] not in ('enter_node', 'exit_node')]
        if opaque:
            out[name[6:]] = '?'     # what is printed for this class is decided in a helper that is not followed
            continue
        adds = [x for _, e_ in emitted if e_ is not None for x in e_]
        reads = [n for n in walk_no_nested(fn) if isinstance(n, ast.Attribute) and isinstance(n.value, ast.Name) and n.value.id == node]
        if len(adds) == 1 and isinstance(adds[0], ast.Constant) and isinstance(adds[0].value, str) and not reads:
            out[name[6:]] = adds[0].value
    return out


def unroll_tables(fn: ast.AST, mod: T.Any, limit: int = 16) -> ast.AST:
    """Copy of `fn` in which every `for a, b in CONST_TABLE:` over a constant display (a module-level tuple/list/dict of
    constants and names, or a literal display) is replaced by one copy of its body per row with the loop variables substituted.
    This enumerates a finite domain the source declares; loops with break/continue/else or that rebind their variables stay."""
    import copy

    def rows_of(it: ast.AST) -> T.Optional[T.List[ast.AST]]:
        items = False
        if isinstance(it, ast.Call) and isinstance(it.func, ast.Attribute) and it.func.attr == 'items' and not it.args:
            it, items = it.func.value, True
        if isinstance(it, ast.Name) and mod.has_assign(it.id):
            it = mod.assign_value(it.id)
        if isinstance(it, (ast.Tuple, ast.List)) and not items:
            rows: T.List[ast.AST] = list(it.elts)
        elif isinstance(it, ast.Dict) and all(k is not None for k in it.keys):
            rows = [ast.Tuple(elts=[k, v], ctx=ast.Load()) for k, v in zip(it.keys, it.values)] if items else list(it.keys)  # type: ignore[list-item]
        else:
            return None

        def simple(x: ast.AST) -> bool:
            return isinstance(x, (ast.Constant, ast.Name)) or (isinstance(x, (ast.Tuple, ast.List)) and all(simple(y) for y in x.elts)) \
                or (isinstance(x, ast.Attribute) and attr_chain(x) is not None)
        return rows if 0 < len(rows) <= limit and all(simple(r) for r in rows) else None

    class Subst(ast.NodeTransformer):
        def __init__(self, m: T.Dict[str, ast.AST]):
            self.m = m

        def visit_Name(self, n: ast.Name) -> ast.AST:
            if n.id in self.m and isinstance(n.ctx, ast.Load):
                return ast.copy_location(copy.deepcopy(self.m[n.id]), n)
            return n

    class Unroll(ast.NodeTransformer):
        def visit_For(self, node: ast.For) -> T.Any:
            self.generic_visit(node)
            rows = rows_of(node.iter)
            tg = node.target
            names = [tg.id] if isinstance(tg, ast.Name) else [e.id for e in tg.elts if isinstance(e, ast.Name)] if isinstance(tg, (ast.Tuple, ast.List)) else []
            if rows is None or node.orelse or not names or (isinstance(tg, (ast.Tuple, ast.List)) and len(names) != len(tg.elts)):
                return node
            inner = [x for st in node.body for x in ast.walk(st)]
            if any(isinstance(x, (ast.Break, ast.Continue)) for x in inner) or \
                    any(isinstance(x, ast.Name) and x.id in names and not isinstance(x.ctx, ast.Load) for x in inner):
                return node
            out: T.List[ast.stmt] = []
            for r in rows:
                if isinstance(tg, ast.Name):
                    m = {tg.id: r}
                elif isinstance(r, (ast.Tuple, ast.List)) and len(r.elts) == len(names):
                    m = dict(zip(names, r.elts))
                else:
                    return node
                out += [Subst(m).visit(copy.deepcopy(st)) for st in node.body]
            return out
    if not any(isinstance(x, ast.For) and rows_of(x.iter) is not None for x in ast.walk(fn)):
        return fn
    new = Unroll().visit(copy.deepcopy(fn))
    ast.fix_missing_locations(new)
    return new


def split_parallel(fn: ast.AST) -> ast.AST:
    """Copy of `fn` in which `a, b = x, y` (displays of equal length) becomes `a = x; b = y` when that is the same thing:
    no later right-hand side reads a target assigned earlier in the same statement.  (`pending, self.buf = self.buf, []`)"""
    import copy

    def reads(e: ast.AST) -> T.Set[str]:
        out = {n.id for n in ast.walk(e) if isinstance(n, ast.Name)}
        out |= {attr_chain(n) or '' for n in ast.walk(e) if isinstance(n, ast.Attribute)}
        return out

    def ok(st: ast.stmt) -> bool:
        if not (isinstance(st, ast.Assign) and len(st.targets) == 1 and isinstance(st.targets[0], (ast.Tuple, ast.List))
                and isinstance(st.value, (ast.Tuple, ast.List)) and len(st.targets[0].elts) == len(st.value.elts)):
            return False
        done: T.Set[str] = set()
        for t, v in zip(st.targets[0].elts, st.value.elts):
            if isinstance(t, ast.Starred) or isinstance(v, ast.Starred) or not (isinstance(t, ast.Name) or attr_chain(t)):
                return False
            if any(r == d or r.startswith(d + '.') for r in reads(v) for d in done):
                return False
            done.add(t.id if isinstance(t, ast.Name) else attr_chain(t) or '')
        return True
    if not any(ok(st) for st in ast.walk(fn) if isinstance(st, ast.stmt)):
        return fn

    class Split(ast.NodeTransformer):
        def visit_Assign(self, st: ast.Assign) -> T.Any:
            if not ok(st):
                return st
            return [ast.copy_location(ast.Assign(targets=[t], value=v), st) for t, v in zip(st.targets[0].elts, st.value.elts)]  # type: ignore[attr-defined]
    new = Split().visit(copy.deepcopy(fn))
    ast.fix_missing_locations(new)
    return new


_MODELS: T.Dict[int, NodeModel] = {}


def model_for(repo: T.Any) -> NodeModel:
    """One NodeModel per repository object (rules of the pack share it)."""
    m = _MODELS.get(id(repo))
    if m is None or m.repo is not repo:
        if len(_MODELS) > 8:
            _MODELS.clear()
        m = _MODELS[id(repo)] = NodeModel(repo)
    return m
