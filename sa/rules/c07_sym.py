"""Helpers of the C07 rule pack: copy propagation (reaching-definition substitution) along enumerated paths.

Family policy: this is form (d) + (b) of sa/README.md.  No statement is executed and no value is computed, neither
for sample nor for symbolic inputs.  For every *syntactic* path of `sa.paths.Enumerator` (loops 0/1 times, never run)
the helper keeps a def-use map {local name -> the expression that reaches it, written over the function's
parameters}: parameters are renamed ARG1, ARG2 ... (`self` stays), a loop target is the opaque name ELEM<k>
(k = ordinal of the `for` statement), an assignment `x = e` makes later reads of `x` print as `e` (copy
propagation), `x op= e` prints as `x op e`.  Nothing is simplified or folded except `T.cast(t, e)` -> `e`.
What comes out is *shape*:
  * every branch predicate becomes a canonical atom (`sa.tables.canon`) of the substituted expression, so atoms
    are versioned by their reaching definitions by construction; the rules then enumerate the consistent worlds
    of these atoms (`Table.worlds`) and compare the row that fires with a reference denotation;
  * every store / delete / expression statement becomes an ordered *effect* whose normalised text and operand
    roles are compared with the reference (`self.augments[ARG1] := self.resolve_option(ARG1).validate_value(RAW)`).
The only truth values decided here are constant facts: `None is None`, `e is e` for identical expressions, and the
falsity of a local whose reaching definition is an empty container display that no statement has mentioned since
(a two-state typestate fresh/touched); contradictory polarities of one atom on a path prune the path.

Why not `sa.tables.extract`: it inlines *single-definition* locals only and assumes the definition precedes every
use, which is wrong for loop targets re-bound in the loop body (`key = key.evolve(...)`) and loses the rows of
functions that re-bind a parameter (`value = self.toint(value)`).

Two expressions with the same canonical text on one path are taken to denote the same value (the analysed functions
do not re-evaluate an impure expression between two tests of it).  The repository AST is never mutated (statements
are deep-copied before preparation, substitution builds new nodes and shares the rest).
"""
from __future__ import annotations

import ast
import copy
import typing as T

from ..core import Undecided, norm, short, walk_no_nested
from ..paths import Enumerator, Path, PURE_CALLS
from .. import tables
from ..tables import Atom, canon

EMPTY_CTORS = {'dict', 'list', 'set', 'OrderedDict', 'OrderedSet'}


# ---------------------------------------------------------------------------
# preparation: asserts are no-ops (python -O); a conditional expression inside a simple statement turns the
# statement into an if-statement with one copy per arm, so that the path enumerator decomposes the condition.
class _Pick(ast.NodeTransformer):
    """replace the first conditional expression (pre-order; not inside lambdas, comprehensions, f-strings) by one arm"""

    def __init__(self, arm: bool):
        self.arm = arm
        self.test: T.Optional[ast.expr] = None

    def visit(self, node: ast.AST) -> T.Any:
        if self.test is not None or isinstance(node, (ast.Lambda, ast.ListComp, ast.SetComp, ast.DictComp, ast.GeneratorExp, ast.JoinedStr)):
            return node
        if isinstance(node, ast.IfExp):
            self.test = node.test
            return node.body if self.arm else node.orelse
        return self.generic_visit(node)


def _norm_test(e: ast.expr) -> ast.expr:
    """spelling variants of one predicate: `a < b < c` -> `a < b and b < c`; `x in (c1, c2)` -> `x == c1 or x == c2`
    (constants only); `len(x) > 0` / `len(x) != 0` / `len(x) >= 1` -> `x`; `len(x) == 0` / `len(x) < 1` -> `not x`"""
    if isinstance(e, ast.BoolOp):
        return ast.copy_location(ast.BoolOp(op=e.op, values=[_norm_test(v) for v in e.values]), e)
    if isinstance(e, ast.UnaryOp) and isinstance(e.op, ast.Not):
        return ast.copy_location(ast.UnaryOp(op=e.op, operand=_norm_test(e.operand)), e)
    if isinstance(e, ast.IfExp):
        return ast.copy_location(ast.IfExp(test=_norm_test(e.test), body=_norm_test(e.body), orelse=_norm_test(e.orelse)), e)
    if not isinstance(e, ast.Compare):
        return e
    if len(e.ops) > 1:
        parts = []
        left = e.left
        for op, right in zip(e.ops, e.comparators):
            parts.append(_norm_test(ast.copy_location(ast.Compare(left=left, ops=[op], comparators=[right]), e)))
            left = right
        return ast.copy_location(ast.BoolOp(op=ast.And(), values=parts), e)
    op, l, r = e.ops[0], e.left, e.comparators[0]
    if isinstance(op, (ast.In, ast.NotIn)) and isinstance(r, (ast.Tuple, ast.List, ast.Set)) and 1 <= len(r.elts) <= 4 and all(isinstance(x, ast.Constant) for x in r.elts):
        eqs = [ast.copy_location(ast.Compare(left=l, ops=[ast.Eq()], comparators=[x]), e) for x in r.elts]
        out: ast.expr = eqs[0] if len(eqs) == 1 else ast.copy_location(ast.BoolOp(op=ast.Or(), values=eqs), e)
        return out if isinstance(op, ast.In) else ast.copy_location(ast.UnaryOp(op=ast.Not(), operand=out), e)
    def is_len(x: ast.expr) -> T.Optional[ast.expr]:
        if isinstance(x, ast.Call) and isinstance(x.func, ast.Name) and x.func.id == 'len' and len(x.args) == 1 and not x.keywords:
            return x.args[0]
        return None
    subj = is_len(l)
    if subj is not None and isinstance(r, ast.Constant) and type(r.value) is int:
        c = r.value
        truthy = (isinstance(op, ast.Gt) and c == 0) or (isinstance(op, ast.NotEq) and c == 0) or (isinstance(op, ast.GtE) and c == 1)
        falsy = (isinstance(op, ast.Eq) and c == 0) or (isinstance(op, ast.Lt) and c == 1) or (isinstance(op, ast.LtE) and c == 0)
        if truthy:
            return subj
        if falsy:
            return ast.copy_location(ast.UnaryOp(op=ast.Not(), operand=subj), e)
    return e


class _Prep(ast.NodeTransformer):
    def visit_FunctionDef(self, n: ast.FunctionDef) -> ast.AST:
        return n

    def visit_If(self, n: ast.If) -> ast.AST:
        n.test = _norm_test(n.test)
        return self.generic_visit(n)

    def visit_While(self, n: ast.While) -> ast.AST:
        n.test = _norm_test(n.test)
        return self.generic_visit(n)

    visit_AsyncFunctionDef = visit_FunctionDef  # type: ignore[assignment]
    visit_Lambda = visit_FunctionDef  # type: ignore[assignment]

    def visit_Assert(self, n: ast.Assert) -> ast.AST:
        return ast.copy_location(ast.Pass(), n)

    def _simple(self, n: ast.stmt) -> ast.AST:
        """`stmt[c ? a : b]` -> `if c: stmt[a] else: stmt[b]` (the condition of a conditional expression is
        evaluated a little earlier than in the original statement: harmless for the pure tests meson uses)"""
        pa, pb = _Pick(True), _Pick(False)
        a = pa.visit(copy.deepcopy(n))
        if pa.test is None:
            return n
        b = pb.visit(copy.deepcopy(n))
        node = ast.copy_location(ast.If(test=_norm_test(pa.test), body=[a], orelse=[b]), n)
        ast.fix_missing_locations(node)
        return self.generic_visit(node)

    visit_Assign = _simple       # type: ignore[assignment]
    visit_AnnAssign = _simple    # type: ignore[assignment]
    visit_AugAssign = _simple    # type: ignore[assignment]
    visit_Return = _simple       # type: ignore[assignment]
    visit_Expr = _simple         # type: ignore[assignment]


def _mentions(node: ast.AST, name: str) -> bool:
    return any(isinstance(n, ast.Name) and n.id == name for n in ast.walk(node))


def _as_comprehension(init: ast.stmt, loop: ast.stmt) -> T.Optional[ast.stmt]:
    """`acc = []` + `for x in C: [if t:] acc.append(e)`  ->  `acc = [e for x in C if t]` (same elements, same order)"""
    if isinstance(init, ast.Assign) and len(init.targets) == 1 and isinstance(init.targets[0], ast.Name):
        name, val = init.targets[0].id, init.value
    elif isinstance(init, ast.AnnAssign) and isinstance(init.target, ast.Name) and init.value is not None:
        name, val = init.target.id, init.value
    else:
        return None
    if not ((isinstance(val, ast.List) and not val.elts) or (isinstance(val, ast.Call) and isinstance(val.func, ast.Name) and val.func.id == 'list' and not val.args and not val.keywords)):
        return None
    if not isinstance(loop, ast.For) or loop.orelse or len(loop.body) != 1 or _mentions(loop.iter, name) or _mentions(loop.target, name):
        return None
    inner = loop.body[0]
    ifs: T.List[ast.expr] = []
    if isinstance(inner, ast.If) and not inner.orelse and len(inner.body) == 1:
        ifs = [inner.test]
        inner = inner.body[0]
    if not (isinstance(inner, ast.Expr) and isinstance(inner.value, ast.Call) and isinstance(inner.value.func, ast.Attribute) and inner.value.func.attr == 'append'
            and isinstance(inner.value.func.value, ast.Name) and inner.value.func.value.id == name and len(inner.value.args) == 1 and not inner.value.keywords):
        return None
    elt = inner.value.args[0]
    if _mentions(elt, name) or any(_mentions(t, name) for t in ifs):
        return None
    comp = ast.ListComp(elt=elt, generators=[ast.comprehension(target=loop.target, iter=loop.iter, ifs=ifs, is_async=0)])
    new = ast.Assign(targets=[ast.Name(id=name, ctx=ast.Store())], value=comp, type_comment=None)
    ast.copy_location(new, init)
    ast.fix_missing_locations(new)
    return new


# ---------------------------------------------------------------------------
# desugaring of search / accumulate idioms (catalogue D2, D3): the loop form is the normal form
def _terminal(body: T.List[ast.stmt]) -> bool:
    return bool(body) and isinstance(body[-1], (ast.Raise, ast.Return, ast.Continue, ast.Break))


def _genexp(e: ast.AST) -> T.Optional[T.Any]:
    if isinstance(e, (ast.GeneratorExp, ast.ListComp, ast.SetComp)) and len(e.generators) == 1 and not e.generators[0].is_async:
        return e
    return None


def _loop_of(gen: ast.comprehension, inner: T.List[ast.stmt], at: ast.AST) -> ast.stmt:
    body = inner
    for c in reversed(gen.ifs):
        body = [ast.If(test=c, body=body, orelse=[])]
    loop = ast.For(target=copy.deepcopy(gen.target), iter=gen.iter, body=body, orelse=[], type_comment=None)
    for n in ast.walk(loop.target):
        if isinstance(n, (ast.Name, ast.Tuple, ast.List, ast.Starred)):
            n.ctx = ast.Store()
    ast.copy_location(loop, at)
    ast.fix_missing_locations(loop)
    return loop


def _has_loop_exit(body: T.List[ast.stmt]) -> bool:
    for b in body:
        for n in walk_no_nested(b):
            if isinstance(n, (ast.Break, ast.Continue)):
                return True
    return False


def _leading_walrus(t: ast.expr) -> T.Optional[ast.NamedExpr]:
    while True:
        if isinstance(t, ast.NamedExpr) and isinstance(t.target, ast.Name):
            return t
        if isinstance(t, ast.UnaryOp) and isinstance(t.op, ast.Not):
            t = t.operand
        elif isinstance(t, ast.Compare):
            t = t.left
        elif isinstance(t, ast.BoolOp):
            t = t.values[0]
        else:
            return None


def _desugar_stmt(st: ast.stmt, nxt: T.Optional[ast.stmt]) -> T.Optional[T.Tuple[T.List[ast.stmt], bool]]:
    """(replacement statements, whether `nxt` was consumed) or None"""
    # v = TABLE.get(k[, d]) with TABLE a small constant table of the module  ->  if k == c1: v = x1 elif ...: else: v = d   (catalogue B5)
    if isinstance(st, (ast.Assign, ast.AnnAssign)) and st.value is not None and isinstance(st.value, ast.Call) and isinstance(st.value.func, ast.Attribute) \
            and st.value.func.attr == 'get' and isinstance(st.value.func.value, ast.Name) and st.value.func.value.id in _TABLES \
            and 1 <= len(st.value.args) <= 2 and not st.value.keywords:
        tgt = st.targets[0] if isinstance(st, ast.Assign) and len(st.targets) == 1 else (st.target if isinstance(st, ast.AnnAssign) else None)
        if isinstance(tgt, ast.Name):
            tab = _TABLES[st.value.func.value.id]
            k = st.value.args[0]
            dflt = st.value.args[1] if len(st.value.args) == 2 else ast.Constant(value=None)

            def asg(v: ast.expr) -> ast.stmt:
                return ast.Assign(targets=[ast.Name(id=tgt.id, ctx=ast.Store())], value=v, type_comment=None)
            chain: T.List[ast.stmt] = [asg(dflt)]
            for ck, cv in reversed(list(zip(tab.keys, tab.values))):
                chain = [ast.If(test=ast.Compare(left=copy.deepcopy(k), ops=[ast.Eq()], comparators=[ck]), body=[asg(cv)], orelse=chain)]
            for x in chain:
                ast.copy_location(x, st)
                ast.fix_missing_locations(x)
            return chain, False
    # for a, b in zip((x1, x2), (y1, y2))   ->   for a, b in ((x1, y1), (x2, y2))
    if isinstance(st, ast.For) and isinstance(st.iter, ast.Call) and isinstance(st.iter.func, ast.Name) and st.iter.func.id == 'zip' and not st.iter.keywords \
            and len(st.iter.args) >= 2 and all(isinstance(a, (ast.Tuple, ast.List)) and not any(isinstance(x, ast.Starred) for x in a.elts) for a in st.iter.args) \
            and len({len(a.elts) for a in st.iter.args}) == 1:
        st.iter = ast.copy_location(ast.Tuple(elts=[ast.Tuple(elts=[a.elts[i] for a in st.iter.args], ctx=ast.Load()) for i in range(len(st.iter.args[0].elts))], ctx=ast.Load()), st.iter)
        ast.fix_missing_locations(st)
    # v = next((E for x in (c1, c2, c3) if P), D)   ->   if P[c1]: v = E[c1] elif P[c2]: v = E[c2] ... else: v = D
    if isinstance(st, ast.Assign) and len(st.targets) == 1 and isinstance(st.targets[0], ast.Name) and isinstance(st.value, ast.Call) and isinstance(st.value.func, ast.Name) \
            and st.value.func.id == 'next' and len(st.value.args) == 2 and not st.value.keywords and isinstance(st.value.args[0], ast.GeneratorExp) \
            and len(st.value.args[0].generators) == 1:
        g = st.value.args[0]
        gen = g.generators[0]
        if isinstance(gen.iter, (ast.Tuple, ast.List)) and isinstance(gen.target, ast.Name) and 1 <= len(gen.iter.elts) <= 6 and not any(isinstance(x, ast.Starred) for x in gen.iter.elts):
            var = gen.target.id

            def inst(e: ast.expr, val: ast.expr) -> ast.expr:
                class R(ast.NodeTransformer):
                    def visit_Name(self, n: ast.Name) -> ast.AST:
                        return copy.deepcopy(val) if n.id == var and isinstance(n.ctx, ast.Load) else n
                return R().visit(copy.deepcopy(e))
            tname = st.targets[0].id
            chain2: T.List[ast.stmt] = [ast.Assign(targets=[ast.Name(id=tname, ctx=ast.Store())], value=st.value.args[1], type_comment=None)]
            for c in reversed(gen.iter.elts):
                test: ast.expr = ast.BoolOp(op=ast.And(), values=[inst(t, c) for t in gen.ifs]) if len(gen.ifs) > 1 else (inst(gen.ifs[0], c) if gen.ifs else ast.Constant(value=True))
                chain2 = [ast.If(test=test, body=[ast.Assign(targets=[ast.Name(id=tname, ctx=ast.Store())], value=inst(g.elt, c), type_comment=None)], orelse=chain2)]
            for x in chain2:
                ast.copy_location(x, st)
                ast.fix_missing_locations(x)
            return chain2, False
    # try: x = M[k] except KeyError: H   ->   if k in M: x = M[k] else: H        (catalogue A7, EAFP -> LBYL)
    if isinstance(st, ast.Try) and not st.orelse and not st.finalbody and len(st.handlers) == 1 and len(st.body) == 1 \
            and isinstance(st.handlers[0].type, ast.Name) and st.handlers[0].type.id == 'KeyError' \
            and not (st.handlers[0].name and any(isinstance(n, ast.Name) and n.id == st.handlers[0].name for b in st.handlers[0].body for n in ast.walk(b))):
        b0 = st.body[0]
        if isinstance(b0, ast.Assign) and isinstance(b0.value, ast.Subscript) and isinstance(b0.value.value, (ast.Name, ast.Attribute)) \
                and isinstance(b0.value.slice, (ast.Name, ast.Attribute, ast.Constant)) and all(isinstance(t, ast.Name) for t in b0.targets):
            test2 = ast.Compare(left=copy.deepcopy(b0.value.slice), ops=[ast.In()], comparators=[copy.deepcopy(b0.value.value)])
            new_if = ast.If(test=test2, body=[b0], orelse=st.handlers[0].body)
            ast.copy_location(new_if, st)
            ast.fix_missing_locations(new_if)
            return [new_if], False
    # for t in (a, b, c): BODY   ->   t = a; BODY; t = b; BODY; t = c; BODY        (a display: finite, declared in the source)
    if isinstance(st, ast.For) and not st.orelse and isinstance(st.iter, (ast.Tuple, ast.List)) and 1 <= len(st.iter.elts) <= 6 \
            and not any(isinstance(x, ast.Starred) for x in st.iter.elts) and not _has_loop_exit(st.body):
        out: T.List[ast.stmt] = []
        for e in st.iter.elts:
            bind = ast.Assign(targets=[copy.deepcopy(st.target)], value=e, type_comment=None)
            ast.copy_location(bind, st)
            ast.fix_missing_locations(bind)
            out.append(bind)
            out.extend(copy.deepcopy(st.body))
        return _fuse_block(out), False
    # for k in M: ... M[k] ...   ->   for k, v in M.items(): ... v ...        (M not changed in the loop)
    if isinstance(st, ast.For) and not st.orelse and isinstance(st.target, ast.Name):
        m = st.iter
        if isinstance(m, ast.Call) and isinstance(m.func, ast.Attribute) and m.func.attr == 'keys' and not m.args:
            m = m.func.value
        if isinstance(m, (ast.Name, ast.Attribute)):
            mt, k = norm(m), st.target.id
            uses = [n for b in st.body for n in ast.walk(b) if isinstance(n, ast.Subscript) and norm(n.value) == mt and isinstance(n.slice, ast.Name) and n.slice.id == k]
            changed = [n for b in st.body for n in ast.walk(b) if (isinstance(n, ast.Subscript) and norm(n.value) == mt and not isinstance(n.ctx, ast.Load))
                       or (isinstance(n, ast.Name) and n.id == k and isinstance(n.ctx, ast.Store))
                       or (isinstance(n, ast.Call) and isinstance(n.func, ast.Attribute) and norm(n.func.value) == mt and n.func.attr in ('pop', 'update', 'clear', 'setdefault', 'popitem'))]
            if uses and not changed and all(isinstance(n.ctx, ast.Load) for n in uses):
                _UNIQ[0] += 1
                v = f'item__v{_UNIQ[0]}'

                class R(ast.NodeTransformer):
                    def visit_Subscript(self, n: ast.Subscript) -> ast.AST:
                        if norm(n.value) == mt and isinstance(n.slice, ast.Name) and n.slice.id == k:
                            return ast.copy_location(ast.Name(id=v, ctx=ast.Load()), n)
                        return self.generic_visit(n)
                body = [R().visit(b) for b in st.body]
                items = ast.Call(func=ast.Attribute(value=m, attr='items', ctx=ast.Load()), args=[], keywords=[])
                loop = ast.For(target=ast.Tuple(elts=[ast.Name(id=k, ctx=ast.Store()), ast.Name(id=v, ctx=ast.Store())], ctx=ast.Store()), iter=items, body=body, orelse=[], type_comment=None)
                ast.copy_location(loop, st)
                ast.fix_missing_locations(loop)
                # a leading `x = v` becomes part of the target by copy propagation
                return [loop], False
    # if (x := E) ...:   ->   x = E; if x ...:        (the walrus is the first thing the test evaluates)
    if isinstance(st, ast.If):
        w = _leading_walrus(st.test)
        if w is not None:
            bind = ast.Assign(targets=[ast.Name(id=w.target.id, ctx=ast.Store())], value=w.value, type_comment=None)
            ast.copy_location(bind, st)
            ast.fix_missing_locations(bind)

            class W(ast.NodeTransformer):
                def visit_NamedExpr(self, n: ast.NamedExpr) -> ast.AST:
                    return ast.copy_location(ast.Name(id=n.target.id, ctx=ast.Load()), n) if n is w else self.generic_visit(n)
            st.test = W().visit(st.test)
            return _fuse_block([bind, st]), False
    # X.update((k, v) for ... if ...)  /  X.update({k: v for ...})   ->   for ...: if ...: X[k] = v
    if isinstance(st, ast.Expr) and isinstance(st.value, ast.Call) and isinstance(st.value.func, ast.Attribute) and st.value.func.attr == 'update' \
            and len(st.value.args) == 1 and not st.value.keywords:
        a = st.value.args[0]
        recv = st.value.func.value
        kv = None
        if isinstance(a, ast.DictComp) and len(a.generators) == 1:
            kv = (a.key, a.value, a.generators[0])
        else:
            g = _genexp(a)
            if g is not None and isinstance(g.elt, ast.Tuple) and len(g.elt.elts) == 2:
                kv = (g.elt.elts[0], g.elt.elts[1], g.generators[0])
        if kv is not None and isinstance(recv, (ast.Name, ast.Attribute)):
            store = ast.Assign(targets=[ast.Subscript(value=recv, slice=kv[0], ctx=ast.Store())], value=kv[1], type_comment=None)
            return [_loop_of(kv[2], [store], st)], False
    # if [not] all(P for x in C): <terminal>   ->   for x in C: if not P: <terminal>      (any: if P)
    if isinstance(st, ast.If) and not st.orelse and _terminal(st.body):
        t, neg = st.test, False
        if isinstance(t, ast.UnaryOp) and isinstance(t.op, ast.Not):
            t, neg = t.operand, True
        if isinstance(t, ast.Call) and isinstance(t.func, ast.Name) and t.func.id in ('all', 'any') and len(t.args) == 1 and not t.keywords:
            g = _genexp(t.args[0])
            if g is not None and ((t.func.id == 'all') == neg):
                cond = ast.UnaryOp(op=ast.Not(), operand=g.elt) if t.func.id == 'all' else g.elt
                return [_loop_of(g.generators[0], [ast.If(test=cond, body=st.body, orelse=[])], st)], False
    # v = next((E for x in C if P), None); if v is not None: <terminal using v>   ->   for x in C: if P: v = E; <terminal>
    if isinstance(st, ast.Assign) and len(st.targets) == 1 and isinstance(st.targets[0], ast.Name) and isinstance(st.value, ast.Call) \
            and isinstance(st.value.func, ast.Name) and st.value.func.id == 'next' and len(st.value.args) == 2 and not st.value.keywords \
            and isinstance(st.value.args[1], ast.Constant) and st.value.args[1].value is None and isinstance(nxt, ast.If) and not nxt.orelse and _terminal(nxt.body):
        g = _genexp(st.value.args[0])
        v = st.targets[0].id
        t = nxt.test
        is_set = isinstance(t, ast.Compare) and len(t.ops) == 1 and isinstance(t.ops[0], ast.IsNot) and isinstance(t.left, ast.Name) and t.left.id == v \
            and isinstance(t.comparators[0], ast.Constant) and t.comparators[0].value is None
        if g is not None and isinstance(g, ast.GeneratorExp) and is_set:
            bind = ast.Assign(targets=[ast.Name(id=v, ctx=ast.Store())], value=g.elt, type_comment=None)
            return [_loop_of(g.generators[0], [bind] + nxt.body, st)], True
    return None


def _boolish(e: ast.AST) -> bool:
    return isinstance(e, (ast.BoolOp, ast.Compare)) or (isinstance(e, ast.UnaryOp) and isinstance(e.op, ast.Not))


_RESULT_NAMES: T.List[T.Set[str]] = [set()]     # names returned by the function being prepared: result accumulators, not named conditions


def _inline_named_conditions(body: T.List[ast.stmt]) -> None:
    """`c = a and b` ... `if c:`  ->  `if a and b:` when nothing `c` reads (nor c) is re-bound in between (catalogue C3):
    the enumerator then decomposes the condition instead of treating the local as one opaque truth value."""
    defs: T.Dict[str, T.Tuple[ast.expr, T.Set[str]]] = {}
    for st in body:
        if isinstance(st, (ast.If, ast.While)) and defs:
            class Sub(ast.NodeTransformer):
                def visit_Name(self, n: ast.Name) -> ast.AST:
                    if isinstance(n.ctx, ast.Load) and n.id in defs:
                        return copy.deepcopy(defs[n.id][0])
                    return n

                def visit_Lambda(self, n: ast.Lambda) -> ast.AST:
                    return n
            t = st.test
            # only in boolean position: the test itself, operands of and/or/not
            def pos(e: ast.expr) -> ast.expr:
                if isinstance(e, ast.Name):
                    return Sub().visit(e)
                if isinstance(e, ast.BoolOp):
                    return ast.copy_location(ast.BoolOp(op=e.op, values=[pos(v) for v in e.values]), e)
                if isinstance(e, ast.UnaryOp) and isinstance(e.op, ast.Not):
                    return ast.copy_location(ast.UnaryOp(op=e.op, operand=pos(e.operand)), e)
                return e
            st.test = pos(t)
            ast.fix_missing_locations(st)
        stored = {n.id for n in ast.walk(st) if isinstance(n, ast.Name) and isinstance(n.ctx, (ast.Store, ast.Del))}
        mutated = stored | {n.func.value.id for n in ast.walk(st) if isinstance(n, ast.Call) and isinstance(n.func, ast.Attribute) and isinstance(n.func.value, ast.Name)}
        for k in [k for k, (_, reads) in defs.items() if k in stored or reads & mutated]:
            del defs[k]
        if isinstance(st, ast.Assign) and len(st.targets) == 1 and isinstance(st.targets[0], ast.Name) and _boolish(st.value) \
                and not any(isinstance(n, (ast.NamedExpr, ast.Await, ast.Yield)) for n in ast.walk(st.value)):
            reads = {n.id for n in ast.walk(st.value) if isinstance(n, ast.Name)}
            if st.targets[0].id not in reads and st.targets[0].id not in _RESULT_NAMES[-1]:      # an accumulator / the result flag is not a named condition
                defs[st.targets[0].id] = (st.value, reads)


def _inline_display_locals(body: T.List[ast.stmt]) -> None:
    """`seq = (a, b)` ... `for x in seq:`  ->  `for x in (a, b):` when seq and what it reads are not re-bound in between"""
    defs: T.Dict[str, T.Tuple[ast.expr, T.Set[str]]] = {}
    for st in body:
        if isinstance(st, ast.For) and isinstance(st.iter, ast.Name) and st.iter.id in defs:
            st.iter = copy.deepcopy(defs[st.iter.id][0])
        if isinstance(st, (ast.Assign, ast.AnnAssign)) and isinstance(getattr(st, 'value', None), ast.Call) and isinstance(st.value.func, ast.Name) \
                and st.value.func.id == 'next' and st.value.args and isinstance(st.value.args[0], ast.GeneratorExp):
            g0 = st.value.args[0].generators[0]
            if isinstance(g0.iter, ast.Name) and g0.iter.id in defs:
                g0.iter = copy.deepcopy(defs[g0.iter.id][0])
        stored = {n.id for n in ast.walk(st) if isinstance(n, ast.Name) and isinstance(n.ctx, (ast.Store, ast.Del))}
        mutated = stored | {n.func.value.id for n in ast.walk(st) if isinstance(n, ast.Call) and isinstance(n.func, ast.Attribute) and isinstance(n.func.value, ast.Name)}
        for k in [k for k, (_, reads) in defs.items() if k in mutated or reads & stored]:
            del defs[k]
        tgt = val = None
        if isinstance(st, ast.Assign) and len(st.targets) == 1 and isinstance(st.targets[0], ast.Name):
            tgt, val = st.targets[0].id, st.value
        elif isinstance(st, ast.AnnAssign) and isinstance(st.target, ast.Name) and st.value is not None:
            tgt, val = st.target.id, st.value
        if tgt and isinstance(val, (ast.Tuple, ast.List)) and not any(isinstance(x, ast.Starred) for x in val.elts):
            defs[tgt] = (val, {n.id for n in ast.walk(val) if isinstance(n, ast.Name)})


def _fuse_block(body: T.List[ast.stmt]) -> T.List[ast.stmt]:
    _inline_named_conditions(body)
    _inline_display_locals(body)
    out: T.List[ast.stmt] = []
    i = 0
    while i < len(body):
        st = body[i]
        i += 1
        for field in ('body', 'orelse', 'finalbody'):
            sub_ = getattr(st, field, None)
            if isinstance(sub_, list) and sub_ and isinstance(sub_[0], ast.stmt) and not isinstance(st, (ast.FunctionDef, ast.AsyncFunctionDef, ast.ClassDef)):
                setattr(st, field, _fuse_block(sub_))
        for h in getattr(st, 'handlers', []) or []:
            h.body = _fuse_block(h.body)
        d = _desugar_stmt(st, body[i] if i < len(body) else None)
        if d is not None:
            out.extend(d[0])
            if d[1]:
                i += 1
            continue
        if out:
            fused = _as_comprehension(out[-1], st)
            if fused is not None:
                out[-1] = fused
                continue
        out.append(st)
    return out


# ---------------------------------------------------------------------------
# inlining of private helpers (catalogue E1, E3, E5): `x = self._h(a)` is replaced by the body of `_h`, its
# parameters and locals renamed apart, its returns turned into assignments to x (single-exit form).  Only helpers of
# the module the analysed function lives in, with a leading underscore, without returns inside loops / try / with.
_FUNCS: T.Dict[str, T.List[T.Tuple[str, T.Any, T.Any]]] = {}     # bare name -> [(qualname, node, module)]
_OWNER: T.Dict[int, T.Tuple[T.Any, str]] = {}                   # id(function node) -> (module, qualname)
_UNIQ = [0]


def _has(node: ast.AST, kinds: T.Tuple[type, ...]) -> bool:
    return any(isinstance(n, kinds) for n in walk_no_nested(node))


def _tail(stmts: T.List[ast.stmt], on_return: T.Callable[[T.Optional[ast.expr]], T.List[ast.stmt]]) -> T.Optional[T.List[ast.stmt]]:
    out: T.List[ast.stmt] = []
    for i, st in enumerate(stmts):
        if isinstance(st, ast.Return):
            return out + on_return(st.value)
        if isinstance(st, ast.Raise):
            return out + [st]
        if isinstance(st, ast.If) and _has(st, (ast.Return,)):
            rest = stmts[i + 1:]
            b = _tail(list(st.body) + copy.deepcopy(rest), on_return)
            o = _tail(list(st.orelse) + copy.deepcopy(rest), on_return)
            if b is None or o is None:
                return None
            return out + [ast.copy_location(ast.If(test=st.test, body=b or [ast.Pass()], orelse=o), st)]
        if _has(st, (ast.Return,)):
            return None
        out.append(st)
    return out + on_return(None)


class _Rename(ast.NodeTransformer):
    def __init__(self, names: T.Set[str], suffix: str):
        self.names, self.suffix = names, suffix

    def visit_Name(self, n: ast.Name) -> ast.AST:
        if n.id in self.names:
            return ast.copy_location(ast.Name(id=n.id + self.suffix, ctx=n.ctx), n)
        return n

    def visit_arg(self, n: ast.arg) -> ast.AST:
        if n.arg in self.names:
            n.arg = n.arg + self.suffix
        return n

    def visit_ExceptHandler(self, n: ast.ExceptHandler) -> ast.AST:
        if n.name in self.names:
            n.name = n.name + self.suffix
        return self.generic_visit(n)


_ACCESSORS = [False]
_BUILTIN_ATTRS = {n for t in (dict, list, set, frozenset, tuple, str, bytes, int, float, object) for n in dir(t)}


class accessors:
    """`with S.accessors():` - while active, a call `x.m(...)` on a local/parameter `x` of a PUBLIC method `m` reads as
    the body of `m` with `self := x`, when the callee is closed-world unique (one definition of that name over all
    registered modules, in a class, not the name of a builtin container/str method) and a *pure accessor*: its body
    only branches, binds locals and returns expressions without any call, store, yield or await (so what it returns
    is a function of the fields of x that are read in it; nothing is executed, the body is spliced in like a private helper)."""

    def __enter__(self) -> None:
        self.old = _ACCESSORS[0]
        _ACCESSORS[0] = True

    def __exit__(self, *a: T.Any) -> None:
        _ACCESSORS[0] = self.old


def _is_foreign_receiver(call: ast.Call) -> bool:
    f = call.func
    return isinstance(f, ast.Attribute) and isinstance(f.value, ast.Name) and f.value.id != 'self' and f.value.id not in _CLASSES


def _find_accessor(call: ast.Call) -> T.Optional[T.Tuple[str, T.Any]]:
    if not _ACCESSORS[0] or not _is_foreign_receiver(call):
        return None
    name = call.func.attr  # type: ignore[attr-defined]
    if name.startswith('_') or name in _BUILTIN_ATTRS:
        return None
    cands = _FUNCS.get(name, [])
    if len(cands) != 1 or '.' not in cands[0][0]:
        return None
    q, fn, _m = cands[0]
    if fn.decorator_list:
        return None
    for st in fn.body:
        for n in ast.walk(st):
            if isinstance(n, (ast.Call, ast.Yield, ast.YieldFrom, ast.Await, ast.Lambda, ast.NamedExpr, ast.For, ast.While, ast.Try, ast.With,
                              ast.Global, ast.Nonlocal, ast.Delete, ast.AugAssign, ast.FunctionDef, ast.ClassDef)):
                return None
            if isinstance(n, (ast.Attribute, ast.Subscript)) and isinstance(n.ctx, (ast.Store, ast.Del)):
                return None
            if isinstance(n, ast.Name) and n.id == 'self' and not isinstance(n.ctx, ast.Load):
                return None
    return q, fn


def _find_helper(call: ast.Call, owner: T.Tuple[T.Any, str]) -> T.Optional[T.Tuple[str, T.Any]]:
    acc = _find_accessor(call)
    if acc is not None:
        return acc
    f = call.func
    mod, oq = owner
    cls = oq.rsplit('.', 1)[0] if '.' in oq else None
    if isinstance(f, ast.Attribute) and isinstance(f.value, ast.Name) and (f.value.id in ('self',) or f.value.id in _CLASSES):
        name = f.attr
        method = True
    elif isinstance(f, ast.Name):
        name, method = f.id, False
    else:
        return None
    if not name.startswith('_') or name.startswith('__'):
        return None
    cands = [(q, fn) for q, fn, m in _FUNCS.get(name, []) if m is mod and (('.' in q) == method)]
    if method and cls is not None:
        own = [c for c in cands if c[0] == f'{cls}.{name}']
        cands = own or cands
    if len(cands) != 1:
        return None
    return cands[0]


def _inline_call(call: ast.Call, owner: T.Tuple[T.Any, str], stack: T.Tuple[str, ...],
                 on_return: T.Callable[[T.Optional[ast.expr]], T.List[ast.stmt]]) -> T.Optional[T.List[ast.stmt]]:
    h = _find_helper(call, owner)
    if h is None or h[0] in stack or len(stack) > 3:
        return None
    q, fn = h
    if _has(fn, (ast.Yield, ast.YieldFrom, ast.Await, ast.Global, ast.Nonlocal)) or len(list(ast.walk(fn))) > 1500:
        return None
    decos = {(d.attr if isinstance(d, ast.Attribute) else getattr(d, 'id', '?')) for d in fn.decorator_list}
    if decos - {'staticmethod'}:
        return None
    a = fn.args
    if a.vararg or a.kwarg or any(isinstance(x, ast.Starred) for x in call.args) or any(k.arg is None for k in call.keywords):
        return None
    params = [p.arg for p in a.posonlyargs + a.args]
    args = list(call.args)
    foreign = _is_foreign_receiver(call)
    if '.' in q and 'staticmethod' not in decos:
        if not params or params[0] != 'self':
            return None
        params = params[1:]
        if isinstance(call.func, ast.Attribute) and isinstance(call.func.value, ast.Name) and call.func.value.id in _CLASSES:
            if not (args and isinstance(args[0], ast.Name) and args[0].id == 'self'):
                return None
            args = args[1:]
    if len(args) > len(params):
        return None
    bound: T.Dict[str, ast.expr] = dict(zip(params, args))
    allnames = params + [p.arg for p in a.kwonlyargs]
    for k in call.keywords:
        if k.arg not in allnames or k.arg in bound:
            return None
        bound[k.arg] = k.value  # type: ignore[index]
    defaults = dict(zip(reversed([p.arg for p in a.posonlyargs + a.args]), reversed(a.defaults)))
    for p_, d in zip(a.kwonlyargs, a.kw_defaults):
        if d is not None:
            defaults[p_.arg] = d
    for n in allnames:
        if n not in bound:
            if n not in defaults:
                return None
            bound[n] = copy.deepcopy(defaults[n])
    body = [copy.deepcopy(x) for x in fn.body if not (isinstance(x, ast.Expr) and isinstance(x.value, ast.Constant))]
    _UNIQ[0] += 1
    suffix = f'__h{_UNIQ[0]}'
    local = set(allnames)
    for x in body:
        for n in ast.walk(x):
            if isinstance(n, ast.Name) and isinstance(n.ctx, (ast.Store, ast.Del)):
                local.add(n.id)
            elif isinstance(n, ast.ExceptHandler) and n.name:
                local.add(n.name)
    local.discard('self')
    if foreign:
        # an accessor of another object: its `self` is the receiver of the call
        local.add('self')
    ren = _Rename(local, suffix)
    body = [ren.visit(x) for x in body]
    flat = _tail(body, on_return)
    if flat is None:
        return None
    binds: T.List[ast.stmt] = [ast.Assign(targets=[ast.Name(id=n + suffix, ctx=ast.Store())], value=bound[n], type_comment=None) for n in allnames]
    if foreign:
        binds.insert(0, ast.Assign(targets=[ast.Name(id='self' + suffix, ctx=ast.Store())], value=copy.deepcopy(call.func.value), type_comment=None))  # type: ignore[attr-defined]
    out = binds + flat
    for x in out:
        ast.copy_location(x, call)
        ast.fix_missing_locations(x)
    return _inline_block(out, (owner[0], q), stack + (q,))


def _hoist_nested_helper_calls(st: ast.stmt, owner: T.Tuple[T.Any, str]) -> T.List[ast.stmt]:
    """`f(g(_h(a)))` -> `tmp = _h(a); f(g(tmp))` for private helpers `_h` that are evaluated unconditionally inside the
    statement (not under and/or, a conditional expression, a lambda or a comprehension); the statement is changed in place."""
    pre: T.List[ast.stmt] = []
    top = st.value  # type: ignore[attr-defined]

    def visit(e: ast.AST, is_top: bool) -> ast.AST:
        if isinstance(e, (ast.BoolOp, ast.IfExp, ast.Lambda, ast.ListComp, ast.SetComp, ast.DictComp, ast.GeneratorExp, ast.JoinedStr)):
            return e
        for name, old in ast.iter_fields(e):
            if isinstance(old, list):
                setattr(e, name, [visit(x, False) if isinstance(x, ast.AST) else x for x in old])
            elif isinstance(old, ast.AST):
                setattr(e, name, visit(old, False))
        if isinstance(e, ast.Call) and not is_top and _find_helper(e, owner) is not None:
            _UNIQ[0] += 1
            tmp = f'arg__h{_UNIQ[0]}'
            a = ast.Assign(targets=[ast.Name(id=tmp, ctx=ast.Store())], value=e, type_comment=None)
            ast.copy_location(a, st)
            ast.fix_missing_locations(a)
            pre.append(a)
            return ast.copy_location(ast.Name(id=tmp, ctx=ast.Load()), e)
        return e
    visit(top, True)
    return pre


def _inline_block(body: T.List[ast.stmt], owner: T.Tuple[T.Any, str], stack: T.Tuple[str, ...]) -> T.List[ast.stmt]:
    out: T.List[ast.stmt] = []
    for st in body:
        if isinstance(st, (ast.FunctionDef, ast.AsyncFunctionDef, ast.ClassDef)):
            out.append(st)
            continue
        for field in ('body', 'orelse', 'finalbody'):
            sub_ = getattr(st, field, None)
            if isinstance(sub_, list) and sub_ and isinstance(sub_[0], ast.stmt):
                setattr(st, field, _inline_block(sub_, owner, stack))
        for h in getattr(st, 'handlers', []) or []:
            h.body = _inline_block(h.body, owner, stack)
        rep: T.Optional[T.List[ast.stmt]] = None
        if isinstance(st, (ast.Expr, ast.Assign, ast.AnnAssign, ast.AugAssign, ast.Return)) and getattr(st, 'value', None) is not None:
            hoisted = _hoist_nested_helper_calls(st, owner)
            if hoisted:
                out.extend(_inline_block(hoisted, owner, stack))
        if isinstance(st, ast.Expr) and isinstance(st.value, ast.Call):
            rep = _inline_call(st.value, owner, stack, lambda v: [ast.Expr(value=v)] if isinstance(v, ast.Call) else [])
        elif isinstance(st, ast.Assign) and isinstance(st.value, ast.Call):
            rep = _inline_call(st.value, owner, stack, lambda v, st=st: [ast.Assign(targets=copy.deepcopy(st.targets), value=v if v is not None else ast.Constant(value=None), type_comment=None)])
        elif isinstance(st, ast.AnnAssign) and isinstance(st.value, ast.Call) and isinstance(st.target, ast.Name):
            rep = _inline_call(st.value, owner, stack, lambda v, st=st: [ast.Assign(targets=[copy.deepcopy(st.target)], value=v if v is not None else ast.Constant(value=None), type_comment=None)])
        elif isinstance(st, ast.AugAssign) and isinstance(st.value, ast.Call):
            rep = _inline_call(st.value, owner, stack, lambda v, st=st: [ast.AugAssign(target=copy.deepcopy(st.target), op=st.op, value=v if v is not None else ast.Constant(value=None))])
        elif isinstance(st, ast.Return) and isinstance(st.value, ast.Call):
            rep = _inline_call(st.value, owner, stack, lambda v: [ast.Return(value=v)])
        elif isinstance(st, ast.If):
            t, neg = st.test, False
            if isinstance(t, ast.UnaryOp) and isinstance(t.op, ast.Not):
                t, neg = t.operand, True
            if isinstance(t, ast.Call) and _find_helper(t, owner) is not None:
                _UNIQ[0] += 1
                tmp = f'cond__h{_UNIQ[0]}'
                pre = _inline_call(t, owner, stack, lambda v, tmp=tmp: [ast.Assign(targets=[ast.Name(id=tmp, ctx=ast.Store())], value=v if v is not None else ast.Constant(value=None), type_comment=None)])
                if pre is not None:
                    test: ast.expr = ast.Name(id=tmp, ctx=ast.Load())
                    st.test = ast.UnaryOp(op=ast.Not(), operand=test) if neg else test
                    rep = pre + [st]
        if rep is not None:
            for x in rep:
                ast.copy_location(x, st) if not hasattr(x, 'lineno') else None
                ast.fix_missing_locations(x)
            out.extend(rep)
        else:
            out.append(st)
    return out


def prepare(stmts: T.List[ast.stmt], owner_fn: T.Any = None) -> T.List[ast.stmt]:
    """The normal form the rules read: private helpers inlined, search/accumulate idioms in loop form, asserts
    dropped, conditional expressions and predicate spellings normalised."""
    body = [copy.deepcopy(x) for x in stmts]
    owner = _OWNER.get(id(owner_fn)) if owner_fn is not None else None
    if owner is not None:
        body = _inline_block(body, owner, (owner[1],))
    root = owner_fn if owner_fn is not None else ast.Module(body=body, type_ignores=[])
    _RESULT_NAMES.append({n.value.id for n in ast.walk(root) if isinstance(n, ast.Return) and isinstance(n.value, ast.Name)})
    try:
        out: T.List[ast.stmt] = []
        for s in _fuse_block(body):
            r = _Prep().visit(s)
            out.append(r)
        return out
    finally:
        _RESULT_NAMES.pop()


# ---------------------------------------------------------------------------
_COMPS = (ast.ListComp, ast.SetComp, ast.GeneratorExp, ast.DictComp)

# ---------------------------------------------------------------------------
# call canonicalisation: arguments are bound to the callee's parameters by signature, so that
# `f(a, b)`, `f(a, y=b)` and `f(x=a, y=b)` (and `Class.m(self, a)` / `self.m(a)`) print the same.
_SIGS: T.Dict[str, T.Optional[T.Tuple[T.Tuple[str, ...], T.Tuple[str, ...]]]] = {}
_CLASSES: T.Set[str] = set()
_SIG_KEY: T.Tuple[str, ...] = ()
_SIG_MODS: T.List[T.Any] = []


_DICT_NAMES: T.Set[str] = set()               # module-level NAME = {...} (display or comprehension), assigned once: a table without None values
_RECORDS: T.Dict[str, T.List[str]] = {}        # NamedTuple / dataclass record classes of the modules: class name -> field names in order
_RET_RECORD: T.Dict[str, str] = {}             # function name -> record class it is annotated to return (unique per name)
_TABLES: T.Dict[str, ast.Dict] = {}            # module-level NAME = {const: const, ...}, assigned once
_CONSTS: T.Dict[str, ast.Constant] = {}        # module-level NAME = <literal>, assigned once
_CLASS_CONSTS: T.Dict[str, ast.Constant] = {}  # class-level NAME = <literal>, unique over the classes of the modules
_SENTINELS: T.Set[str] = set()                 # module-level NAME = object(), assigned once, only ever used as a default argument / identity comparand
_KEEP: T.List[T.Any] = []                      # synthetic function nodes registered in _OWNER (identified by id(): kept alive)


def _collect_constants(m: T.Any) -> None:
    seen: T.Dict[str, int] = {}
    def scan(body: T.List[ast.stmt], into: T.Dict[str, ast.Constant]) -> None:
        for st in body:
            tgt = None
            if isinstance(st, ast.Assign) and len(st.targets) == 1 and isinstance(st.targets[0], ast.Name):
                tgt, val = st.targets[0].id, st.value
            elif isinstance(st, ast.AnnAssign) and isinstance(st.target, ast.Name) and st.value is not None:
                tgt, val = st.target.id, st.value
            if tgt is None:
                continue
            seen[tgt] = seen.get(tgt, 0) + 1
            if isinstance(val, ast.Constant) and isinstance(val.value, (str, int, bool)) and seen[tgt] == 1:
                into[tgt] = val
            else:
                into.pop(tgt, None)
            if into is _CONSTS:
                if isinstance(val, (ast.Dict, ast.DictComp)) and seen[tgt] == 1 and not any(isinstance(v, ast.Constant) and v.value is None for v in getattr(val, 'values', [])):
                    _DICT_NAMES.add(tgt)
                else:
                    _DICT_NAMES.discard(tgt)
                if isinstance(val, ast.Dict) and seen[tgt] == 1 and 1 <= len(val.keys) <= 8 and all(isinstance(k, ast.Constant) for k in val.keys) \
                        and all(isinstance(v, ast.Constant) for v in val.values):
                    _TABLES[tgt] = val
                else:
                    _TABLES.pop(tgt, None)
    scan(m.tree.body, _CONSTS)
    _collect_sentinels(m)
    for q, c in m.classes().items():
        scan(c.body, _CLASS_CONSTS)


def _collect_sentinels(m: T.Any) -> None:
    """`NAME = object()` at module level, bound once, whose every read is the default of a pop/get/getattr/next call or an
    operand of `is` / `is not`: a private "absent" marker that no container can hold (catalogue A6 with a sentinel default)."""
    cand: T.Dict[str, int] = {}
    for st in m.tree.body:
        tgt = val = None
        if isinstance(st, ast.Assign) and len(st.targets) == 1 and isinstance(st.targets[0], ast.Name):
            tgt, val = st.targets[0].id, st.value
        elif isinstance(st, ast.AnnAssign) and isinstance(st.target, ast.Name) and st.value is not None:
            tgt, val = st.target.id, st.value
        if tgt is not None and isinstance(val, ast.Call) and isinstance(val.func, ast.Name) and val.func.id == 'object' and not val.args and not val.keywords:
            cand[tgt] = 0
    if not cand:
        return
    ok_use: T.Set[int] = set()
    for n in ast.walk(m.tree):
        if isinstance(n, ast.Compare) and len(n.ops) == 1 and isinstance(n.ops[0], (ast.Is, ast.IsNot)):
            ok_use.update(id(x) for x in (n.left, n.comparators[0]) if isinstance(x, ast.Name))
        elif isinstance(n, ast.Call) and not n.keywords:
            f = n.func
            name = f.attr if isinstance(f, ast.Attribute) else (f.id if isinstance(f, ast.Name) else '')
            pos = {'pop': 1, 'get': 1, 'next': 1, 'getattr': 2}.get(name)
            if pos is not None and len(n.args) == pos + 1 and isinstance(n.args[pos], ast.Name):
                ok_use.add(id(n.args[pos]))
    bad: T.Set[str] = set()
    for n in ast.walk(m.tree):
        if isinstance(n, ast.Name) and n.id in cand:
            if isinstance(n.ctx, ast.Store):
                cand[n.id] += 1
            elif id(n) not in ok_use:
                bad.add(n.id)
    _SENTINELS.update(k for k, stores in cand.items() if stores == 1 and k not in bad)


def _sentinel_lookup(e: T.Any) -> T.Optional[T.Tuple[ast.AST, ast.AST, str]]:
    """(M, k, sentinel name) for `M.pop(k, S)` / `M.get(k, S)` with S a private sentinel"""
    if isinstance(e, ast.Call) and isinstance(e.func, ast.Attribute) and e.func.attr in ('pop', 'get') and len(e.args) == 2 and not e.keywords \
            and isinstance(e.args[1], ast.Name) and e.args[1].id in _SENTINELS:
        return e.func.value, e.args[0], e.args[1].id
    return None


def strip_sentinel(e: ast.AST) -> ast.AST:
    """`M.pop(k, S)` read where k is known to be present: the default is never used, it is `M.pop(k)`"""
    g = _sentinel_lookup(e)
    if g is None:
        return e
    assert isinstance(e, ast.Call)
    return ast.Call(func=e.func, args=[e.args[0]], keywords=[])


def set_signatures(*mods: T.Any) -> None:
    """Signatures of the functions / methods of the analysed modules, by callee name; a name defined with
    different parameter lists is ambiguous and its calls are left as written."""
    global _SIG_KEY
    key = tuple(f'{m.rel}:{m.digest}:{id(m)}' for m in mods)
    if key == _SIG_KEY and all(a is b for a, b in zip(_SIG_MODS, mods)):
        return
    _SIG_MODS[:] = list(mods)     # keep them alive: function nodes are identified by id()
    _SIGS.clear()
    _CLASSES.clear()
    _FUNCS.clear()
    _OWNER.clear()
    _CONSTS.clear()
    _CLASS_CONSTS.clear()
    _TABLES.clear()
    _RECORDS.clear()
    _RET_RECORD.clear()
    _DICT_NAMES.clear()
    _SENTINELS.clear()
    _KEEP.clear()
    for m in mods:
        for q, c in m.classes().items():
            if '.' in q or '#' in q:
                continue
            bases = {(b.attr if isinstance(b, ast.Attribute) else getattr(b, 'id', '')) for b in c.bases}
            decos = {(d.attr if isinstance(d, ast.Attribute) else getattr(d, 'id', getattr(getattr(d, 'func', None), 'attr', ''))) for d in c.decorator_list}
            plain = not any(isinstance(x, (ast.FunctionDef, ast.AsyncFunctionDef)) and x.name in ('__new__', '__init__', '__post_init__', '__getattr__') for x in c.body)
            if plain and ('NamedTuple' in bases or (decos & {'dataclass'} and not c.bases)):
                _RECORDS[q] = [st.target.id for st in c.body if isinstance(st, ast.AnnAssign) and isinstance(st.target, ast.Name)]
    for m in mods:
        _collect_constants(m)
        _CLASSES.update(q for q in m.classes() if '.' not in q)
        for q, f in m.funcs().items():
            if '#' not in q:
                _FUNCS.setdefault(f.name, []).append((q, f, m))
                _OWNER[id(f)] = (m, q)
            a = f.args
            pos = [p.arg for p in a.posonlyargs + a.args]
            static = any((d.attr if isinstance(d, ast.Attribute) else getattr(d, 'id', '')) == 'staticmethod' for d in f.decorator_list)
            if '.' in q and pos and pos[0] in ('self', 'cls') and not static:
                pos = pos[1:]
            if a.vararg or a.kwarg:
                sig = None
            else:
                dnames = [p.arg for p in a.posonlyargs + a.args][len(a.posonlyargs + a.args) - len(a.defaults):]
                dflt = {n: norm(d) for n, d in zip(dnames, a.defaults) if isinstance(d, ast.Constant)}
                dflt.update({p.arg: norm(d) for p, d in zip(a.kwonlyargs, a.kw_defaults) if isinstance(d, ast.Constant)})
                sig = (tuple(pos), tuple(p.arg for p in a.kwonlyargs), tuple(sorted(dflt.items())))
            name = f.name
            rr = f.returns.id if isinstance(f.returns, ast.Name) else (f.returns.value if isinstance(f.returns, ast.Constant) and isinstance(f.returns.value, str) else None)
            if rr in _RECORDS:
                _RET_RECORD[name] = '?' if _RET_RECORD.get(name, rr) != rr else rr
            if name in _SIGS and _SIGS[name] != sig:
                _SIGS[name] = None
            else:
                _SIGS[name] = sig
    _SIG_KEY = key


def _unpartial(c: ast.Call) -> ast.Call:
    """`functools.partial(f, a, k=v)(b, j=w)` is the call `f(a, b, k=v, j=w)` (later keywords win)"""
    f = c.func
    if isinstance(f, ast.Call) and not any(isinstance(a, ast.Starred) for a in f.args) and f.args:
        g = f.func
        if (isinstance(g, ast.Attribute) and g.attr == 'partial' and isinstance(g.value, ast.Name) and g.value.id == 'functools') or (isinstance(g, ast.Name) and g.id == 'partial'):
            if any(k.arg is None for k in f.keywords + c.keywords):
                return c
            later = {k.arg for k in c.keywords}
            kws = [k for k in f.keywords if k.arg not in later] + list(c.keywords)
            return ast.Call(func=f.args[0], args=list(f.args[1:]) + list(c.args), keywords=kws)
    return c


def _table_get(e: T.Any) -> T.Optional[T.Tuple[ast.AST, ast.AST]]:
    """(M, k) for `M.get(k)` on a module-level table M (a dict display / comprehension without None values)"""
    if isinstance(e, ast.Call) and isinstance(e.func, ast.Attribute) and e.func.attr == 'get' and isinstance(e.func.value, ast.Name) \
            and e.func.value.id in _DICT_NAMES and len(e.args) == 1 and not e.keywords:
        return e.func.value, e.args[0]
    return None


def _canon_get(e: T.Any) -> T.Any:
    """on a table without None values: `M.get(k) is None` is `k not in M`; where `M.get(k)` is subscripted or searched it is `M[k]`"""
    if isinstance(e, ast.Compare) and len(e.ops) == 1 and isinstance(e.ops[0], (ast.Is, ast.IsNot)) and _SENTINELS:
        # `M.pop(k, S) is S` / `M.get(k, S) is S` with a private sentinel S  ->  `k not in M`
        for look, other in ((e.left, e.comparators[0]), (e.comparators[0], e.left)):
            sl = _sentinel_lookup(look)
            if sl is not None and isinstance(other, ast.Name) and other.id == sl[2]:
                return ast.Compare(left=sl[1], ops=[ast.NotIn() if isinstance(e.ops[0], ast.Is) else ast.In()], comparators=[sl[0]])
    if isinstance(e, ast.Compare) and len(e.ops) == 1:
        g = _table_get(e.left)
        c0 = e.comparators[0]
        if g is not None and isinstance(e.ops[0], (ast.Is, ast.IsNot)) and isinstance(c0, ast.Constant) and c0.value is None:
            return ast.Compare(left=g[1], ops=[ast.NotIn() if isinstance(e.ops[0], ast.Is) else ast.In()], comparators=[g[0]])
        g2 = _table_get(c0)
        if g2 is not None and isinstance(e.ops[0], (ast.In, ast.NotIn)):
            return ast.Compare(left=e.left, ops=e.ops, comparators=[ast.Subscript(value=g2[0], slice=g2[1], ctx=ast.Load())])
    if isinstance(e, ast.Subscript) and isinstance(e.ctx, ast.Load):
        g = _table_get(e.value)
        if g is not None:
            return ast.Subscript(value=ast.Subscript(value=g[0], slice=g[1], ctx=ast.Load()), slice=e.slice, ctx=ast.Load())
    return e


def _canon_record(e: T.Any) -> T.Any:
    """a record is a tuple with named positions: `Rec(a, y=b)` -> `(a, b)`;  `f(...).y` -> `f(...)[1]` when f is annotated to
    return Rec"""
    if isinstance(e, ast.Call) and isinstance(e.func, ast.Name) and e.func.id in _RECORDS and not any(isinstance(a, ast.Starred) for a in e.args) \
            and not any(k.arg is None for k in e.keywords):
        fields = _RECORDS[e.func.id]
        bound: T.Dict[str, ast.AST] = dict(zip(fields, e.args))
        for k in e.keywords:
            if k.arg not in fields or k.arg in bound:
                return e
            bound[k.arg] = k.value  # type: ignore[index]
        if len(e.args) <= len(fields) and set(bound) == set(fields):
            return ast.Tuple(elts=[bound[f] for f in fields], ctx=ast.Load())
        return e
    if isinstance(e, ast.Attribute) and isinstance(e.ctx, ast.Load):
        v = e.value
        if isinstance(v, ast.Call):
            f = v.func
            name = f.attr if isinstance(f, ast.Attribute) else (f.id if isinstance(f, ast.Name) else None)
            rec = _RET_RECORD.get(name or '')
            if rec and rec != '?' and e.attr in _RECORDS[rec]:
                return ast.Subscript(value=v, slice=ast.Constant(value=_RECORDS[rec].index(e.attr)), ctx=ast.Load())
    return e


def canon_call(c: ast.Call) -> ast.Call:
    f = c.func
    if isinstance(f, ast.Attribute) and isinstance(f.value, ast.Name) and f.value.id in _CLASSES and c.args and isinstance(c.args[0], ast.Name) and c.args[0].id == 'self':
        c = ast.Call(func=ast.Attribute(value=c.args[0], attr=f.attr, ctx=ast.Load()), args=list(c.args[1:]), keywords=list(c.keywords))
        f = c.func
    name = f.attr if isinstance(f, ast.Attribute) else (f.id if isinstance(f, ast.Name) else None)
    sig = _SIGS.get(name) if name else None
    if sig is None:
        return c
    pos, kwonly, dfl = sig
    dflt = dict(dfl)
    if not c.keywords and not (c.args and len(c.args) <= len(pos) and dflt.get(pos[len(c.args) - 1]) == (norm(c.args[-1]) if isinstance(c.args[-1], ast.Constant) else None)):
        return c
    if any(isinstance(a, ast.Starred) for a in c.args) or any(k.arg is None for k in c.keywords) or len(c.args) > len(pos):
        return c
    bound: T.Dict[str, ast.AST] = dict(zip(pos, c.args))
    for k in c.keywords:
        if k.arg in bound or (k.arg not in pos and k.arg not in kwonly):
            return c
        bound[k.arg] = k.value  # type: ignore[index]
    # an argument spelled out with the constant default of its parameter is the same call as one that omits it
    for p in list(bound):
        if p in dflt and isinstance(bound[p], ast.Constant) and norm(bound[p]) == dflt[p] and all(q not in bound or q == p for q in pos[pos.index(p) + 1:] if p in pos):
            del bound[p]
    args: T.List[ast.AST] = []
    for p in pos:
        if p in bound:
            args.append(bound[p])
        else:
            break
    rest = [p for p in list(pos[len(args):]) + list(kwonly) if p in bound]
    kws = [ast.keyword(arg=p, value=bound[p]) for p in rest]
    if len(args) == len(c.args) and [k.arg for k in kws] == [k.arg for k in c.keywords]:
        return c
    return ast.Call(func=c.func, args=args, keywords=kws)



def _bound_names(t: ast.AST) -> T.Set[str]:
    return {x.id for x in ast.walk(t) if isinstance(x, ast.Name)}


def fsub(env: T.Dict[str, ast.AST], e: T.Any, blocked: T.FrozenSet[str] = frozenset()) -> T.Any:
    """Functional substitution: loaded local names are replaced by their current definition (shared, never
    copied; nothing mutates these trees afterwards), comprehension / lambda scopes are respected and
    `T.cast(t, x)` is read as `x`.  Returns `e` itself when nothing changes."""
    if isinstance(e, ast.Name):
        if isinstance(e.ctx, ast.Load) and e.id in env and e.id not in blocked:
            return env[e.id]
        if isinstance(e.ctx, ast.Load) and e.id in _CONSTS and e.id not in blocked and e.id.isupper():
            return _CONSTS[e.id]       # NAME = 'literal' hoisted to a module constant reads as the literal
        return e
    if isinstance(e, ast.Attribute) and isinstance(e.ctx, ast.Load) and isinstance(e.value, ast.Name) and e.attr in _CLASS_CONSTS and e.attr.isupper() \
            and (e.value.id in ('self', 'cls') or e.value.id in _CLASSES):
        return _CLASS_CONSTS[e.attr]
    if isinstance(e, ast.Constant) or not isinstance(e, ast.AST):
        return e
    if isinstance(e, ast.Call) and len(e.args) == 2 and not e.keywords:
        f = e.func
        if (isinstance(f, ast.Attribute) and f.attr == 'cast' and isinstance(f.value, ast.Name) and f.value.id in ('T', 'typing')) or \
                (isinstance(f, ast.Name) and f.id == 'cast'):
            return fsub(env, e.args[1], blocked)
    if isinstance(e, (ast.FunctionDef, ast.AsyncFunctionDef, ast.ClassDef)):
        return e
    if isinstance(e, _COMPS):
        bound: T.Set[str] = set()
        for g in e.generators:
            bound |= _bound_names(g.target)
        inner = blocked | bound
        gens = []
        for i, g in enumerate(e.generators):
            gens.append(ast.comprehension(target=g.target, iter=fsub(env, g.iter, blocked if i == 0 else inner),
                                          ifs=[fsub(env, x, inner) for x in g.ifs], is_async=g.is_async))
        if isinstance(e, ast.DictComp):
            return ast.DictComp(key=fsub(env, e.key, inner), value=fsub(env, e.value, inner), generators=gens)
        return e.__class__(elt=fsub(env, e.elt, inner), generators=gens)
    if isinstance(e, ast.Lambda):
        bound = {a.arg for a in e.args.posonlyargs + e.args.args + e.args.kwonlyargs}
        return ast.Lambda(args=e.args, body=fsub(env, e.body, blocked | bound))
    changed = False
    vals: T.Dict[str, T.Any] = {}
    for name, old in ast.iter_fields(e):
        if isinstance(old, list):
            new_l = [fsub(env, x, blocked) for x in old]
            if any(a is not b for a, b in zip(new_l, old)):
                changed = True
            vals[name] = new_l
        elif isinstance(old, ast.AST):
            nv = fsub(env, old, blocked)
            if nv is not old:
                changed = True
            vals[name] = nv
        else:
            vals[name] = old
    if not changed:
        if isinstance(e, ast.Call):
            return _canon_record(canon_call(_unpartial(e)))
        return _canon_get(_canon_record(e))
    node = e.__class__(**vals)
    if isinstance(node, ast.Call):
        node = canon_call(_unpartial(node))
    node = _canon_get(_canon_record(node))
    return ast.copy_location(node, e) if hasattr(e, 'lineno') and not hasattr(node, 'lineno') else node


def sub(env: T.Dict[str, ast.AST], e: ast.AST) -> ast.AST:
    return fsub(env, e)


def param_env(fn: T.Union[ast.FunctionDef, ast.AsyncFunctionDef]) -> T.Dict[str, ast.AST]:
    out: T.Dict[str, ast.AST] = {}
    i = 0
    for a in fn.args.posonlyargs + fn.args.args:
        if a.arg in ('self', 'cls'):
            continue
        i += 1
        out[a.arg] = ast.Name(id=f'ARG{i}', ctx=ast.Load())
    for a in fn.args.kwonlyargs:
        out[a.arg] = ast.Name(id=f'ARG_{a.arg}', ctx=ast.Load())
    return out


def _is_empty_container(v: ast.AST) -> bool:
    if isinstance(v, (ast.Dict, ast.List, ast.Set)) and not getattr(v, 'keys', None) and not getattr(v, 'elts', None):
        return True
    if isinstance(v, ast.Call) and not v.args and not v.keywords:
        f = v.func
        name = f.attr if isinstance(f, ast.Attribute) else (f.id if isinstance(f, ast.Name) else '')
        return name in EMPTY_CTORS
    return False


class Fx:
    """One ordered effect of a path.  kind: call | store | augstore | del | new | let | opaque | iter | with | except | expr."""
    __slots__ = ('kind', '_text', 'node', 'src')

    def __init__(self, kind: str, text: T.Union[str, T.Callable[[], str]], node: T.Any, src: T.Any):
        self.kind = kind
        self._text = text
        self.node = node      # substituted node(s): Call / (target, value) / ...
        self.src = src        # original statement (positions kept)

    @property
    def text(self) -> str:
        if not isinstance(self._text, str):
            self._text = self._text()
        return self._text

    def __repr__(self) -> str:
        return f'<{self.kind} {self.text}>'


class SRow:
    def __init__(self) -> None:
        self.conds: T.Dict[Atom, bool] = {}
        self.trace: T.List[T.Tuple[str, T.Any, T.Any]] = []   # ('cond', atom, val) | ('fx', Fx, None)
        self.fx: T.List[Fx] = []
        self.outcome: T.Tuple[T.Any, ...] = ('fall',)
        self.value: T.Optional[ast.AST] = None      # substituted return value / raised expression
        self.path: T.Optional[Path] = None
        self.env: T.Dict[str, ast.AST] = {}
        self.partial_try = False      # the statements contain try/except whose handlers were not enumerated: only the no-exception paths were read
        self.unentered = False        # some loop on this path ran zero times (the same path with the loop entered exists too)

    def effects(self, *kinds: str) -> T.List[Fx]:
        return [f for f in self.fx if f.kind in kinds] if kinds else list(self.fx)

    def texts(self, *kinds: str) -> T.List[str]:
        return [f.text for f in self.effects(*kinds)]

    def __repr__(self) -> str:
        cs = ' & '.join(('' if v else 'not ') + repr(a) for a, v in self.conds.items()) or 'always'
        eff = '; '.join(f.text for f in self.fx if f.kind not in ('let',))
        return f'{cs} => {" ".join(str(x) for x in self.outcome)}' + (f' {{{eff}}}' if eff else '')


def number_loops(stmts: T.List[ast.stmt]) -> T.Dict[int, int]:
    out: T.Dict[int, int] = {}
    for s in stmts:
        for n in walk_no_nested(s):
            if isinstance(n, (ast.For, ast.AsyncFor)) and id(n) not in out:
                out[id(n)] = len(out) + 1
    return out


def bind_targets(env: T.Dict[str, ast.AST], target: ast.AST, value: ast.AST) -> None:
    """env[target] = value, positionally for tuple targets."""
    if isinstance(target, ast.Name):
        env[target.id] = value
    elif isinstance(target, (ast.Tuple, ast.List)):
        if isinstance(value, (ast.Tuple, ast.List)) and len(value.elts) == len(target.elts) and not any(isinstance(x, ast.Starred) for x in value.elts):
            for t, v in zip(target.elts, value.elts):
                bind_targets(env, t, v)
        else:
            for i, t in enumerate(target.elts):
                bind_targets(env, t, ast.Subscript(value=value, slice=ast.Constant(value=i), ctx=ast.Load()))
    elif isinstance(target, ast.Starred):
        bind_targets(env, target.value, value)


def loop_symbols(env: T.Dict[str, ast.AST], target: ast.AST, k: T.Union[int, str]) -> None:
    if isinstance(target, ast.Name):
        env[target.id] = ast.Name(id=f'ELEM{k}', ctx=ast.Load())
    elif isinstance(target, (ast.Tuple, ast.List)):
        for i, t in enumerate(target.elts):
            loop_symbols(env, t, f'{k}_{i}')


def trivial(a: Atom) -> T.Optional[bool]:
    if a.kind == 'is' and a.args[0] == a.args[1]:
        return True
    if a.kind == 'cmp' and a.args[1] == a.args[2]:
        return a.args[0] == 'eq'
    if a.kind == 'is' and a.args[1] == 'None':
        try:
            e = ast.parse(a.args[0], mode='eval').body
        except SyntaxError:
            return None
        if isinstance(e, (ast.Constant, ast.Dict, ast.List, ast.Tuple, ast.Set, ast.JoinedStr)):
            return isinstance(e, ast.Constant) and e.value is None
    return None


class Sym:
    """Def-use substitution along the enumerated paths of a statement list (nothing is executed)."""

    def __init__(self, fn: T.Union[ast.FunctionDef, ast.AsyncFunctionDef], *, opaque: T.Iterable[str] = (),
                 pure: T.Iterable[str] = (), unroll: int = 1, handlers: bool = False, entered_only: bool = False,
                 max_paths: int = 20000):
        self.fn = fn
        self.opaque = set(opaque)
        self.pure = set(PURE_CALLS) | set(pure)
        self.unroll = unroll
        self.handlers = handlers
        self.entered_only = entered_only
        self.max_paths = max_paths

    # -- statement effects ----------------------------------------------------
    def step(self, st: ast.AST, env: T.Dict[str, ast.AST], row: SRow) -> None:
        def fx(kind: str, text: T.Any, node: T.Any) -> None:
            f = Fx(kind, text, node, st)
            row.fx.append(f)
            row.trace.append(('fx', f, None))

        def assign(target: ast.AST, value: ast.AST) -> None:
            if isinstance(target, ast.Name):
                if target.id in self.opaque:
                    fx('opaque', lambda: f'{target.id} := {norm(value)}', (target.id, value))
                    return
                if _is_empty_container(value) or isinstance(value, (ast.Dict, ast.List, ast.Set)):
                    # a container object: later mutations (update/append) refer to it by name
                    env.pop(target.id, None)
                    fx('new', lambda: f'{target.id} := {norm(value)}', (target.id, value))
                    return
                env[target.id] = value
                fx('let', lambda: f'{target.id} = {norm(value)}', (target.id, value))
            elif isinstance(target, (ast.Tuple, ast.List)):
                tmp: T.Dict[str, ast.AST] = {}
                bind_targets(tmp, target, value)
                for t in ast.walk(target):
                    if isinstance(t, (ast.Subscript, ast.Attribute)) and isinstance(t.ctx, ast.Store):
                        raise Undecided(f'unpacking into a store target: {short(st)}')
                for k, v in tmp.items():
                    assign(ast.Name(id=k, ctx=ast.Store()), v)
            else:
                tt = sub(env, target)
                fx('store', lambda: f'{norm(tt)} := {norm(value)}', (tt, value))

        if isinstance(st, ast.Assign):
            v = sub(env, st.value)
            for t in st.targets:
                assign(t, v)
        elif isinstance(st, ast.AnnAssign):
            if st.value is not None:
                assign(st.target, sub(env, st.value))
        elif isinstance(st, ast.AugAssign):
            v = sub(env, st.value)
            if isinstance(st.target, ast.Name):
                name = st.target.id
                cur: ast.AST = ast.Name(id=name, ctx=ast.Load())
                if name not in self.opaque:
                    cur = env.get(name, cur)
                assign(st.target, ast.BinOp(left=cur, op=st.op, right=v))
            else:
                tt = sub(env, st.target)
                fx('augstore', lambda: f'{norm(tt)} {st.op.__class__.__name__}= {norm(v)}', (tt, st.op, v))
        elif isinstance(st, ast.Expr):
            v = sub(env, st.value)
            if isinstance(v, ast.Call):
                fx('call', lambda: norm(v), v)
            elif not isinstance(v, ast.Constant):
                fx('expr', lambda: norm(v), v)
        elif isinstance(st, ast.Delete):
            for t in st.targets:
                tt = sub(env, t)
                if isinstance(t, ast.Name):
                    env.pop(t.id, None)
                fx('del', (lambda tt=tt: f'del {norm(tt)}'), tt)
        elif isinstance(st, (ast.Return, ast.Raise, ast.Pass, ast.Global, ast.Nonlocal, ast.Import, ast.ImportFrom,
                             ast.FunctionDef, ast.AsyncFunctionDef, ast.ClassDef)):
            pass
        else:
            raise Undecided(f'statement kind outside the subset the def-use walk understands: {short(st)}')

    # -- whole paths ------------------------------------------------------------
    def rows(self, body: T.Optional[T.List[ast.stmt]] = None, env0: T.Optional[T.Dict[str, ast.AST]] = None,
             prepared: bool = False) -> T.List[SRow]:
        stmts = body if body is not None else self.fn.body
        if not prepared:
            stmts = prepare(stmts, self.fn)
        loops = number_loops(stmts)
        en = Enumerator(unroll=self.unroll, handlers=self.handlers, pure=self.pure, max_paths=self.max_paths)
        out: T.List[SRow] = []
        base = param_env(self.fn)
        if env0:
            base.update(env0)
        # a handler that ends in `raise` only adds a raising path; one that falls through or returns supplies a value
        # on a path this enumeration (handlers off) does not see
        partial = not self.handlers and any(isinstance(n, ast.Try) and any(not (h.body and isinstance(h.body[-1], ast.Raise)) for h in n.handlers)
                                            for st in stmts for n in walk_no_nested(st))
        for p in en.run(stmts):
            r = self.propagate(p, dict(base), loops)
            if r is not None:
                r.partial_try = partial
                out.append(r)
        return out

    def propagate(self, p: Path, env: T.Dict[str, ast.AST], loops: T.Dict[int, int]) -> T.Optional[SRow]:
        row = SRow()
        row.path = p
        seen_loops: T.Set[int] = set()
        fresh: T.Set[str] = set()     # locals bound to an empty container that nothing has touched yet
        for ev in p.events:
            if ev.kind == 'cond':
                a, v = canon(sub(env, ev.node), ev.val)
                tv = trivial(a)
                if tv is None and a.kind == 'truth' and a.args[0] in fresh:
                    tv = False
                if tv is not None:
                    if tv != v:
                        return None
                    continue
                if a in row.conds:
                    if row.conds[a] != v:
                        return None   # same canonical expression = same value (see module docstring)
                else:
                    row.conds[a] = v
                row.trace.append(('cond', a, v))
            elif ev.kind == 'iter':
                st = ev.node
                assert st is not None
                if id(st) not in seen_loops:
                    seen_loops.add(id(st))
                    if ev.val == 'done':
                        row.unentered = True
                    if self.entered_only and ev.val == 'done':
                        return None
                if ev.val == 'iter':
                    k = loops.get(id(st), 0)
                    it = sub(env, st.iter)  # type: ignore[attr-defined]
                    loop_symbols(env, st.target, k)  # type: ignore[attr-defined]
                    f = Fx('iter', (lambda k=k, it=it: f'for ELEM{k} in {norm(it)}'), (k, it), st)
                    row.fx.append(f)
                    row.trace.append(('fx', f, None))
            elif ev.kind == 'with':
                for item in ev.node.items:  # type: ignore[union-attr]
                    v = sub(env, item.context_expr)
                    if item.optional_vars is not None:
                        bind_targets(env, item.optional_vars, v)
                    f = Fx('with', (lambda v=v: norm(v)), v, ev.node)
                    row.fx.append(f)
                    row.trace.append(('fx', f, None))
            elif ev.kind == 'exc':
                h = ev.node
                nm = getattr(h, 'name', None)
                if nm:
                    env[nm] = ast.Name(id=f'EXC_{norm(h.type) if h.type is not None else "any"}', ctx=ast.Load())  # type: ignore[union-attr]
                f = Fx('except', norm(h.type) if h.type is not None else '<bare>', h, h)  # type: ignore[union-attr]
                row.fx.append(f)
                row.trace.append(('fx', f, None))
            elif ev.kind == 'stmt':
                assert ev.node is not None
                n0 = len(row.fx)
                self.step(ev.node, env, row)
                created = {f.node[0] for f in row.fx[n0:] if f.kind == 'new' and _is_empty_container(f.node[1])}
                if fresh:
                    fresh -= {n.id for n in ast.walk(ev.node) if isinstance(n, ast.Name)} - created
                fresh |= created
            if fresh and ev.kind in ('iter', 'with') and ev.node is not None:
                hdr = ev.node.iter if ev.kind == 'iter' else ev.node  # type: ignore[attr-defined]
                fresh -= {n.id for n in ast.walk(hdr) if isinstance(n, ast.Name)}
        # exclusivity of x == c1 / x == c2
        eqs: T.Dict[str, T.Set[str]] = {}
        for a, v in row.conds.items():
            if a.kind == 'cmp' and a.args[0] == 'eq' and v and tables._is_const_text(a.args[2]):
                s = eqs.setdefault(a.args[1], set())
                s.add(a.args[2])
                if len(s) > 1:
                    return None
        if p.outcome == 'return':
            row.value = sub(env, p.value) if p.value is not None else ast.Constant(value=None)
            row.outcome = ('return', norm(row.value))
        elif p.outcome == 'raise':
            exc = p.value
            if exc is None:
                row.outcome = ('raise', '<reraise>')
            else:
                row.value = sub(env, exc)
                cls = row.value.func if isinstance(row.value, ast.Call) else row.value
                row.outcome = ('raise', norm(cls))
        else:
            row.outcome = (p.outcome,)
        row.env = env
        return row


def to_table(rows: T.List[SRow], name: str) -> tables.Table:
    out = []
    for r in rows:
        tr = tables.Row(dict(r.conds), r.outcome, tuple(f.text for f in r.fx if f.kind != 'let'), r.path)  # type: ignore[arg-type]
        tr.srow = r  # type: ignore[attr-defined]
        out.append(tr)
    return tables.Table(out, name)


def is_free(a: Atom) -> bool:
    """Atoms the world enumerator handles consistently on its own: type tests on builtins, and equality with a
    constant (worlds with two different constants equal to the same expression are excluded by the enumerator)."""
    if a.kind == 'cmp' and a.args[0] == 'eq' and tables._is_const_text(a.args[2]):
        return True
    return a.kind == 'isinstance' and all(t in tables.BUILTIN_TYPES or t == 'float' for t in a.args[1])


def compare(ctx: T.Any, mod: T.Any, qn: str, fn: ast.AST, tab: tables.Table, sem: T.Dict[Atom, str],
            view: T.Callable[[T.Dict[Atom, bool]], T.Any], ref: T.Callable[[T.Any], T.Any],
            got: T.Callable[[tables.Row], T.Any], extra: T.Iterable[Atom] = (), what: str = 'reference',
            independent: T.Optional[T.Callable[[Atom], bool]] = None) -> bool:
    """Compare a table with a reference denotation on every world of its atoms.

    Atoms outside the vocabulary are enumerated as free booleans; a disagreement in a row that tests such an
    atom is *undecided* (the world may be infeasible), every other disagreement is a violation.  `independent(atom)`
    names unknown atoms the caller can prove unrelated to the vocabulary (their truth cannot exclude a world): they stay free."""
    unknown = [a for a in tab.atoms() if a not in sem and not is_free(a)]
    n = 0
    bad: T.Dict[str, T.Any] = {}
    for w in tab.worlds(extra):
        v = view(w)
        if v is None:
            continue
        want = ref(v)
        if want is None:
            continue
        rows = tab.fire(w)
        n += 1
        if not rows:
            raise Undecided(f'{qn}: no row fires in world { {repr(a): x for a, x in w.items()} }')
        gs = [got(r) for r in rows]
        if any(x != gs[0] for x in gs[1:]):
            # rows that differ only in what the atoms do not see (e.g. a loop body run or not) must agree
            raise Undecided(f'{qn}: {len(rows)} rows with different outcomes fire in world { {repr(a): x for a, x in w.items()} }')
        g = gs[0]
        if g != want:
            if any(getattr(getattr(r_, 'srow', None), 'partial_try', False) for r_ in rows):
                raise Undecided(f'{qn}: row `{rows[0]!r}` disagrees with the {what}, but the code contains try/except whose handlers were not read')
            if any(a in rows[0].conds and not (independent is not None and independent(a)) for a in unknown):
                raise Undecided(f'{qn}: row `{rows[0]!r}` disagrees with the {what} but tests atoms outside the vocabulary: {unknown}')
            bad.setdefault(repr(rows[0]), (rows[0], g, want, {sem.get(a, repr(a)): x for a, x in w.items() if a in rows[0].conds}))
    for key, (row, g, want, vw) in bad.items():
        node = None
        if row.path is not None and row.path.events:
            node = row.path.events[-1].node
        ctx.violation(mod, qn, key, f'row `{short(key, 200)}` yields {g!r}; the {what} requires {want!r} (e.g. for {vw})', node if node is not None else fn)
    if not bad:
        ctx.ok(f'{qn}: {len(tab.rows)} rows agree with the {what} on {n} worlds')
    if unknown:
        ctx.note(f'{qn}: atoms outside the vocabulary treated as free: {unknown}')
    ctx.note(f'{qn}: table {tab.dump()}')
    return not bad


# ---------------------------------------------------------------------------
# loop form (catalogue D3 + D9 loop fission): a function that builds its results with comprehensions over one source
# reads as the same function written with explicit loops
_MUTATORS = {'pop', 'update', 'clear', 'setdefault', 'popitem', 'append', 'extend', 'insert', 'remove', 'add', 'discard', 'sort', 'reverse', 'appendleft', 'popleft'}


def _touches(stmts: T.Iterable[ast.AST], names: T.Set[str]) -> bool:
    """some statement re-binds one of the names or changes the object it denotes"""
    for st in stmts:
        for n in ast.walk(st):
            if isinstance(n, ast.Name) and n.id in names and isinstance(n.ctx, (ast.Store, ast.Del)):
                return True
            if isinstance(n, (ast.Subscript, ast.Attribute)) and isinstance(n.ctx, (ast.Store, ast.Del)) and isinstance(n.value, ast.Name) and n.value.id in names:
                return True
            if isinstance(n, ast.Call) and isinstance(n.func, ast.Attribute) and n.func.attr in _MUTATORS and isinstance(n.func.value, ast.Name) and n.func.value.id in names:
                return True
    return False


def _simple_target(st: ast.stmt) -> T.Optional[T.Tuple[str, ast.expr]]:
    if isinstance(st, ast.Assign) and len(st.targets) == 1 and isinstance(st.targets[0], ast.Name):
        return st.targets[0].id, st.value
    if isinstance(st, ast.AnnAssign) and isinstance(st.target, ast.Name) and st.value is not None:
        return st.target.id, st.value
    return None


def _list_comp(v: ast.AST) -> T.Optional[T.Any]:
    if isinstance(v, ast.Call) and isinstance(v.func, ast.Name) and v.func.id in ('list', 'tuple') and len(v.args) == 1 and not v.keywords:
        v = v.args[0]
        if not isinstance(v, (ast.GeneratorExp, ast.ListComp)):
            return None
    elif not isinstance(v, ast.ListComp):
        return None
    return v if len(v.generators) == 1 and not v.generators[0].is_async else None


def _last_or_default(v: ast.AST, x: str) -> T.Optional[ast.expr]:
    """D for `x[-1] if x else D` / `D if not x else x[-1]`: the last element of the list x, D when it is empty"""
    if not isinstance(v, ast.IfExp):
        return None
    t, a, b = v.test, v.body, v.orelse
    if isinstance(t, ast.UnaryOp) and isinstance(t.op, ast.Not):
        t, a, b = t.operand, b, a
    t = _norm_test(t)
    if not (isinstance(t, ast.Name) and t.id == x):
        return None
    if isinstance(a, ast.Subscript) and isinstance(a.value, ast.Name) and a.value.id == x and norm(a.slice) == '-1' and not _mentions(b, x):
        return b
    return None


def _assign(name: str, value: ast.expr, at: ast.AST) -> ast.stmt:
    st = ast.Assign(targets=[ast.Name(id=name, ctx=ast.Store())], value=value, type_comment=None)
    ast.copy_location(st, at)
    ast.fix_missing_locations(st)
    return st


def _fresh_gen(comp: T.Any, extra: T.Sequence[ast.expr]) -> T.Tuple[ast.comprehension, T.List[ast.expr]]:
    """the generator of a comprehension with its bound names renamed apart, and `extra` expressions of its scope renamed alike"""
    gen = comp.generators[0]
    _UNIQ[0] += 1
    rn = _Rename(_bound_names(gen.target), f'__c{_UNIQ[0]}')
    g2 = ast.comprehension(target=rn.visit(copy.deepcopy(gen.target)), iter=copy.deepcopy(gen.iter), ifs=[rn.visit(copy.deepcopy(c)) for c in gen.ifs], is_async=0)
    return g2, [rn.visit(copy.deepcopy(e)) for e in extra]


def _loopify(body: T.List[ast.stmt], nstores: T.Dict[str, int]) -> T.List[ast.stmt]:
    body = list(body)
    # 1. deforestation: `xs = [E for t in SRC if P]` whose only readers are `for y in xs: BODY` and `v = xs[-1] if xs else D`
    #    ->  `for t in SRC: if P: y = E; BODY`   and   `v = D; for t in SRC: if P: v = E`      (xs, SRC and what P / E read untouched in between)
    i = 0
    while i < len(body):
        tv = _simple_target(body[i])
        comp = _list_comp(tv[1]) if tv else None
        if tv is None or comp is None or nstores.get(tv[0]) != 1:
            i += 1
            continue
        x = tv[0]
        free = {n.id for n in ast.walk(comp) if isinstance(n, ast.Name)} - _bound_names(comp.generators[0].target)
        repl: T.Dict[int, T.List[ast.stmt]] = {}
        ok = x not in free
        last = i
        for j in range(i + 1, len(body)):
            st = body[j]
            if not _mentions(st, x):
                continue
            last = j
            tj = _simple_target(st)
            if isinstance(st, ast.For) and not st.orelse and isinstance(st.iter, ast.Name) and st.iter.id == x and isinstance(st.target, ast.Name) \
                    and not any(_mentions(b, x) for b in st.body) and not _touches(st.body, free):
                g2, (elt,) = _fresh_gen(comp, [comp.elt])
                repl[j] = [_loop_of(g2, [_assign(st.target.id, elt, st)] + st.body, st)]
            elif tj is not None and _last_or_default(tj[1], x) is not None:
                g2, (elt,) = _fresh_gen(comp, [comp.elt])
                repl[j] = [_assign(tj[0], T.cast(ast.expr, _last_or_default(tj[1], x)), st), _loop_of(g2, [_assign(tj[0], elt, st)], st)]
            else:
                ok = False
                break
        if not ok or not repl or _touches(body[i + 1:last], free | {x}):
            i += 1
            continue
        body = body[:i] + [s_ for j in range(i + 1, len(body)) for s_ in repl.get(j, [body[j]])]
    # 2. `d = {K: V for t in SRC if P}`  ->  `d = {}; for t in SRC: if P: d[K] = V`
    out: T.List[ast.stmt] = []
    for st in body:
        tv = _simple_target(st)
        if tv is not None and isinstance(tv[1], ast.DictComp) and len(tv[1].generators) == 1 and not tv[1].generators[0].is_async:
            g2, (k, v) = _fresh_gen(tv[1], [tv[1].key, tv[1].value])
            store = ast.Assign(targets=[ast.Subscript(value=ast.Name(id=tv[0], ctx=ast.Load()), slice=k, ctx=ast.Store())], value=v, type_comment=None)
            out.append(_assign(tv[0], ast.Dict(keys=[], values=[]), st))
            out.append(_loop_of(g2, [store], st))
        else:
            out.append(st)
    return out


def loop_form(fn: T.Any) -> T.Any:
    """A copy of the function whose top level is in loop form; helpers are inlined as for the original (same owner)."""
    nstores: T.Dict[str, int] = {}
    for n in ast.walk(fn):
        if isinstance(n, ast.Name) and isinstance(n.ctx, (ast.Store, ast.Del)):
            nstores[n.id] = nstores.get(n.id, 0) + 1
    body = _loopify([copy.deepcopy(s_) for s_ in fn.body], nstores)
    if len(body) == len(fn.body) and all(norm(a) == norm(b) for a, b in zip(body, fn.body)):
        return fn
    fn2 = copy.copy(fn)
    fn2.body = body
    if id(fn) in _OWNER:
        _OWNER[id(fn2)] = _OWNER[id(fn)]
        _KEEP.append(fn2)
    return fn2


# ---------------------------------------------------------------------------
class Loop(T.NamedTuple):
    node: ast.For
    iter: ast.AST                      # substituted iterable expression
    env: T.Dict[str, ast.AST]          # environment at loop entry, loop targets bound to KEY / VAL (or ELEM)
    index: int
    sym: T.Any = None                  # the Sym of the function the loop is written in (a helper when inlined)


def _resolve_helper(mod: T.Any, cls: T.Optional[str], call: ast.Call) -> T.Optional[T.Tuple[str, T.Any]]:
    """`self.h(...)`, `cls.h(...)`, `Class.h(...)` -> method h of the class; `h(...)` -> module function h."""
    f = call.func
    if isinstance(f, ast.Attribute) and isinstance(f.value, ast.Name) and cls is not None and f.value.id in ('self', 'cls', cls):
        q = f'{cls}.{f.attr}'
    elif isinstance(f, ast.Name):
        q = f.id
    else:
        return None
    if mod is None or not mod.has_func(q):
        return None
    return q, mod.func(q)


def _bind_call(callee: T.Any, call: ast.Call, env: T.Dict[str, ast.AST]) -> T.Optional[T.Dict[str, ast.AST]]:
    """parameter -> (substituted) argument expression of the call; None when the binding is not plain"""
    a = callee.args
    if a.vararg or a.kwarg or any(isinstance(x, ast.Starred) for x in call.args) or any(k.arg is None for k in call.keywords):
        return None
    params = [p.arg for p in a.posonlyargs + a.args]
    static = any((attr.attr if isinstance(attr, ast.Attribute) else getattr(attr, 'id', '')) == 'staticmethod' for attr in callee.decorator_list)
    if params and params[0] in ('self', 'cls') and not static and isinstance(call.func, ast.Attribute):
        params = params[1:]
    if len(call.args) > len(params):
        return None
    out: T.Dict[str, ast.AST] = {}
    for p_, x in zip(params, call.args):
        out[p_] = sub(env, x)
    names = params + [p.arg for p in a.kwonlyargs]
    for k in call.keywords:
        if k.arg not in names or k.arg in out:
            return None
        out[k.arg] = sub(env, k.value)
    defaults = dict(zip(reversed([p.arg for p in a.posonlyargs + a.args]), reversed(a.defaults)))
    for p_, d in zip(a.kwonlyargs, a.kw_defaults):
        if d is not None:
            defaults[p_.arg] = d
    for n in names:
        if n not in out:
            if n not in defaults:
                return None
            out[n] = defaults[n]
    return out


def _walkable(stmts: T.List[ast.stmt]) -> bool:
    """a helper is inlined only when its own top level is simple statements and for-loops, without return value"""
    for st in stmts:
        if isinstance(st, (ast.If, ast.While, ast.Try, ast.With, ast.Raise, ast.AsyncFor, ast.AsyncWith)):
            return False
        if isinstance(st, ast.Return) and st.value is not None:
            return False
    return True


def straight_line(sym: Sym, fn: T.Union[ast.FunctionDef, ast.AsyncFunctionDef], qn: str, mod: T.Any = None,
                  cls: T.Optional[str] = None) -> T.Tuple[T.List[T.Tuple[str, T.Any]], T.Dict[str, ast.AST]]:
    """Walk a function whose top level is simple statements and `for` loops, propagating definitions.

    Returns the ordered items ('fx', Fx) / ('loop', Loop) / ('block', ...) / ('return', node) and the final environment.
    Two structural normalisations keep the item sequence stable under common refactorings:
      * an expression statement calling a helper of the same class / module (given `mod`, `cls`) whose own top level
        is walkable is replaced by the helper's items, its parameters standing for the argument expressions
        (two levels deep at most);
      * `for s in (A, B): <body>` over a tuple/list *display* is the body once per element of the display, in order
        (a finite domain the source declares; nothing is iterated at analysis time beyond the display's elements).
    """
    items: T.List[T.Tuple[str, T.Any]] = []
    counter = [0]
    kwargs = dict(opaque=sym.opaque, pure=sym.pure, unroll=sym.unroll, handlers=sym.handlers, entered_only=sym.entered_only, max_paths=sym.max_paths)

    def forget(st: ast.AST, env: T.Dict[str, ast.AST], tag: str) -> None:
        for n in walk_no_nested(st):
            if isinstance(n, ast.Name) and isinstance(n.ctx, ast.Store) and n.id in env:
                env[n.id] = ast.Name(id=f'{n.id}@{tag}', ctx=ast.Load())

    def walk(stmts: T.List[ast.stmt], env: T.Dict[str, ast.AST], cur: Sym, where: str, depth: int) -> bool:
        """False when a return ended the walk"""
        for st in stmts:
            if isinstance(st, ast.Expr) and isinstance(st.value, ast.Constant):
                continue  # docstring
            if isinstance(st, (ast.For, ast.AsyncFor)):
                if st.orelse:
                    raise Undecided(f'{where}: for/else at top level')
                if isinstance(st.iter, (ast.Tuple, ast.List)) and isinstance(st.target, ast.Name) and not any(isinstance(x, ast.Starred) for x in st.iter.elts):
                    for e in st.iter.elts:
                        env2 = dict(env)
                        env2[st.target.id] = sub(env, e)
                        if not walk(st.body, env2, cur, where, depth):
                            raise Undecided(f'{where}: return inside a loop over a display')
                    forget(st, env, f'after_loop{counter[0]}')
                    continue
                counter[0] += 1
                k = counter[0]
                it = sub(env, st.iter)
                lenv = dict(env)
                t = st.target
                if isinstance(t, ast.Tuple) and len(t.elts) == 2 and all(isinstance(x, ast.Name) for x in t.elts):
                    lenv[t.elts[0].id] = ast.Name(id='KEY', ctx=ast.Load())  # type: ignore[attr-defined]
                    lenv[t.elts[1].id] = ast.Name(id='VAL', ctx=ast.Load())  # type: ignore[attr-defined]
                elif isinstance(t, ast.Name):
                    lenv[t.id] = ast.Name(id='KEY', ctx=ast.Load())
                else:
                    raise Undecided(f'{where}: loop target {short(t)}')
                items.append(('loop', Loop(st, it, lenv, k, cur)))  # type: ignore[arg-type]
                forget(st, env, f'after_loop{k}')
                continue
            if isinstance(st, ast.Return):
                items.append(('return', sub(env, st.value) if st.value is not None else None))
                return False
            if isinstance(st, (ast.If, ast.While, ast.Try, ast.With, ast.Raise)):
                items.append(('block', (st, dict(env))))
                forget(st, env, 'after_block')
                for n in walk_no_nested(st):
                    if isinstance(n, ast.Name) and isinstance(n.ctx, ast.Store) and n.id not in env:
                        env[n.id] = ast.Name(id=f'{n.id}@after_block', ctx=ast.Load())
                continue
            if isinstance(st, ast.Expr) and isinstance(st.value, ast.Call) and depth < 2:
                h = _resolve_helper(mod, cls, st.value)
                if h is not None and h[1] is not cur.fn:
                    body = prepare(h[1].body, h[1])
                    binding = _bind_call(h[1], st.value, env)
                    if binding is not None and _walkable(body):
                        walk(body, binding, Sym(h[1], **kwargs), f'{where} -> {h[0]}', depth + 1)
                        continue
            row = SRow()
            cur.step(st, env, row)
            for f in row.fx:
                items.append(('fx', f))
        return True

    env0 = param_env(fn)
    walk(prepare(fn.body, fn), env0, sym, qn, 0)
    return items, env0


def chain_sources(it: ast.AST) -> T.List[ast.AST]:
    """`itertools.chain(A.items(), B.items())` -> [A, B];  `A.items()` -> [A]."""
    def one(e: ast.AST) -> ast.AST:
        if isinstance(e, ast.Call) and isinstance(e.func, ast.Attribute) and e.func.attr in ('items', 'keys') and not e.args:
            return e.func.value
        if isinstance(e, (ast.Name, ast.Attribute, ast.Subscript)):
            return e          # iterating a mapping yields its keys
        raise Undecided(f'loop does not iterate over the items of a mapping: {short(e)}')
    while isinstance(it, ast.Call) and isinstance(it.func, ast.Name) and it.func.id in ('list', 'tuple', 'iter') and len(it.args) == 1 and not it.keywords:
        it = it.args[0]   # materialising the sequence does not change its order
    if isinstance(it, ast.Call):
        f = it.func
        name = f.attr if isinstance(f, ast.Attribute) else (f.id if isinstance(f, ast.Name) else '')
        if name == 'chain' and not it.keywords:
            return [one(a) for a in it.args]
    return [one(it)]
