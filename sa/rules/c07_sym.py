"""Helpers of the C07 rule pack: copy propagation (reaching-definition substitution) along enumerated paths.

Family policy: this is form (d) + (b) of sa/README.md.  No statement is executed and no value is computed, neither
for sample nor for symbolic inputs.  For every *syntactic* path of `sa.paths.Enumerator` (loops 0/1 times, never run)
the helper keeps a def-use map {local name -> the expression that reaches it, written over the function's
parameters}: parameters are renamed ARG1, ARG2 ... (`self` stays), a loop target is the opaque name ELEM<k>
(k = ordinal of the `for` statement), an assignment `x = e` makes later reads of `x` print as `e` (copy
propagation), `x op= e` prints as `x op e`.  Nothing is simplified or folded except `T.cast(t, e)` -> `e`.
What comes out is *shape*:
  * every branch predicate becomes a canonical atom (`sa.tables.canon`) of the substituted expression, so atoms
    are versioned by their reaching definitions by construction; the rules then enumerate the consistent worlds
    of these atoms (`Table.worlds`) and compare the row that fires with a reference denotation;
  * every store / delete / expression statement becomes an ordered *effect* whose normalised text and operand
    roles are compared with the reference (`self.augments[ARG1] := self.resolve_option(ARG1).validate_value(RAW)`).
The only truth values decided here are constant facts: `None is None`, `e is e` for identical expressions, and the
falsity of a local whose reaching definition is an empty container display that no statement has mentioned since
(a two-state typestate fresh/touched); contradictory polarities of one atom on a path prune the path.

Why not `sa.tables.extract`: it inlines *single-definition* locals only and assumes the definition precedes every
use, which is wrong for loop targets re-bound in the loop body (`key = key.evolve(...)`) and loses the rows of
functions that re-bind a parameter (`value = self.toint(value)`).

Two expressions with the same canonical text on one path are taken to denote the same value (the analysed functions
do not re-evaluate an impure expression between two tests of it).  The repository AST is never mutated (statements
are deep-copied before preparation, substitution builds new nodes and shares the rest).
"""
from __future__ import annotations

import ast
import copy
import typing as T

from ..core import Undecided, norm, short, walk_no_nested
from ..paths import Enumerator, Path, PURE_CALLS
from .. import tables
from ..tables import Atom, canon

EMPTY_CTORS = {'dict', 'list', 'set', 'OrderedDict', 'OrderedSet'}


# ---------------------------------------------------------------------------
# preparation: asserts are no-ops (python -O); a conditional expression inside a simple statement turns the
# statement into an if-statement with one copy per arm, so that the path enumerator decomposes the condition.
class _Pick(ast.NodeTransformer):
    """replace the first conditional expression (pre-order; not inside lambdas, comprehensions, f-strings) by one arm"""

    def __init__(self, arm: bool):
        self.arm = arm
        self.test: T.Optional[ast.expr] = None

    def visit(self, node: ast.AST) -> T.Any:
        if self.test is not None or isinstance(node, (ast.Lambda, ast.ListComp, ast.SetComp, ast.DictComp, ast.GeneratorExp, ast.JoinedStr)):
            return node
        if isinstance(node, ast.IfExp):
            self.test = node.test
            return node.body if self.arm else node.orelse
        return self.generic_visit(node)


def _norm_test(e: ast.expr) -> ast.expr:
    """spelling variants of one predicate: `a < b < c` -> `a < b and b < c`; `x in (c1, c2)` -> `x == c1 or x == c2`
    (constants only); `len(x) > 0` / `len(x) != 0` / `len(x) >= 1` -> `x`; `len(x) == 0` / `len(x) < 1` -> `not x`"""
    if isinstance(e, ast.BoolOp):
        return ast.copy_location(ast.BoolOp(op=e.op, values=[_norm_test(v) for v in e.values]), e)
    if isinstance(e, ast.UnaryOp) and isinstance(e.op, ast.Not):
        return ast.copy_location(ast.UnaryOp(op=e.op, operand=_norm_test(e.operand)), e)
    if isinstance(e, ast.IfExp):
        return ast.copy_location(ast.IfExp(test=_norm_test(e.test), body=_norm_test(e.body), orelse=_norm_test(e.orelse)), e)
    if not isinstance(e, ast.Compare):
        return e
    if len(e.ops) > 1:
        parts = []
        left = e.left
        for op, right in zip(e.ops, e.comparators):
            parts.append(_norm_test(ast.copy_location(ast.Compare(left=left, ops=[op], comparators=[right]), e)))
            left = right
        return ast.copy_location(ast.BoolOp(op=ast.And(), values=parts), e)
    op, l, r = e.ops[0], e.left, e.comparators[0]
    if isinstance(op, (ast.In, ast.NotIn)) and isinstance(r, (ast.Tuple, ast.List, ast.Set)) and 1 <= len(r.elts) <= 4 and all(isinstance(x, ast.Constant) for x in r.elts):
        eqs = [ast.copy_location(ast.Compare(left=l, ops=[ast.Eq()], comparators=[x]), e) for x in r.elts]
        out: ast.expr = eqs[0] if len(eqs) == 1 else ast.copy_location(ast.BoolOp(op=ast.Or(), values=eqs), e)
        return out if isinstance(op, ast.In) else ast.copy_location(ast.UnaryOp(op=ast.Not(), operand=out), e)
    def is_len(x: ast.expr) -> T.Optional[ast.expr]:
        if isinstance(x, ast.Call) and isinstance(x.func, ast.Name) and x.func.id == 'len' and len(x.args) == 1 and not x.keywords:
            return x.args[0]
        return None
    subj = is_len(l)
    if subj is not None and isinstance(r, ast.Constant) and type(r.value) is int:
        c = r.value
        truthy = (isinstance(op, ast.Gt) and c == 0) or (isinstance(op, ast.NotEq) and c == 0) or (isinstance(op, ast.GtE) and c == 1)
        falsy = (isinstance(op, ast.Eq) and c == 0) or (isinstance(op, ast.Lt) and c == 1) or (isinstance(op, ast.LtE) and c == 0)
        if truthy:
            return subj
        if falsy:
            return ast.copy_location(ast.UnaryOp(op=ast.Not(), operand=subj), e)
    return e


class _Prep(ast.NodeTransformer):
    def visit_FunctionDef(self, n: ast.FunctionDef) -> ast.AST:
        return n

    def visit_If(self, n: ast.If) -> ast.AST:
        n.test = _norm_test(n.test)
        return self.generic_visit(n)

    def visit_While(self, n: ast.While) -> ast.AST:
        n.test = _norm_test(n.test)
        return self.generic_visit(n)

    visit_AsyncFunctionDef = visit_FunctionDef  # type: ignore[assignment]
    visit_Lambda = visit_FunctionDef  # type: ignore[assignment]

    def visit_Assert(self, n: ast.Assert) -> ast.AST:
        return ast.copy_location(ast.Pass(), n)

    def _simple(self, n: ast.stmt) -> ast.AST:
        """`stmt[c ? a : b]` -> `if c: stmt[a] else: stmt[b]` (the condition of a conditional expression is
        evaluated a little earlier than in the original statement: harmless for the pure tests meson uses)"""
        pa, pb = _Pick(True), _Pick(False)
        a = pa.visit(copy.deepcopy(n))
        if pa.test is None:
            return n
        b = pb.visit(copy.deepcopy(n))
        node = ast.copy_location(ast.If(test=_norm_test(pa.test), body=[a], orelse=[b]), n)
        ast.fix_missing_locations(node)
        return self.generic_visit(node)

    visit_Assign = _simple       # type: ignore[assignment]
    visit_AnnAssign = _simple    # type: ignore[assignment]
    visit_AugAssign = _simple    # type: ignore[assignment]
    visit_Return = _simple       # type: ignore[assignment]
    visit_Expr = _simple         # type: ignore[assignment]


def _mentions(node: ast.AST, name: str) -> bool:
    return any(isinstance(n, ast.Name) and n.id == name for n in ast.walk(node))


def _as_comprehension(init: ast.stmt, loop: ast.stmt) -> T.Optional[ast.stmt]:
    """`acc = []` + `for x in C: [if t:] acc.append(e)`  ->  `acc = [e for x in C if t]` (same elements, same order)"""
    if isinstance(init, ast.Assign) and len(init.targets) == 1 and isinstance(init.targets[0], ast.Name):
        name, val = init.targets[0].id, init.value
    elif isinstance(init, ast.AnnAssign) and isinstance(init.target, ast.Name) and init.value is not None:
        name, val = init.target.id, init.value
    else:
        return None
    if not ((isinstance(val, ast.List) and not val.elts) or (isinstance(val, ast.Call) and isinstance(val.func, ast.Name) and val.func.id == 'list' and not val.args and not val.keywords)):
        return None
    if not isinstance(loop, ast.For) or loop.orelse or len(loop.body) != 1 or _mentions(loop.iter, name) or _mentions(loop.target, name):
        return None
    inner = loop.body[0]
    ifs: T.List[ast.expr] = []
    if isinstance(inner, ast.If) and not inner.orelse and len(inner.body) == 1:
        ifs = [inner.test]
        inner = inner.body[0]
    if not (isinstance(inner, ast.Expr) and isinstance(inner.value, ast.Call) and isinstance(inner.value.func, ast.Attribute) and inner.value.func.attr == 'append'
            and isinstance(inner.value.func.value, ast.Name) and inner.value.func.value.id == name and len(inner.value.args) == 1 and not inner.value.keywords):
        return None
    elt = inner.value.args[0]
    if _mentions(elt, name) or any(_mentions(t, name) for t in ifs):
        return None
    comp = ast.ListComp(elt=elt, generators=[ast.comprehension(target=loop.target, iter=loop.iter, ifs=ifs, is_async=0)])
    new = ast.Assign(targets=[ast.Name(id=name, ctx=ast.Store())], value=comp, type_comment=None)
    ast.copy_location(new, init)
    ast.fix_missing_locations(new)
    return new


def _fuse_block(body: T.List[ast.stmt]) -> T.List[ast.stmt]:
    out: T.List[ast.stmt] = []
    for st in body:
        for field in ('body', 'orelse', 'finalbody'):
            sub_ = getattr(st, field, None)
            if isinstance(sub_, list) and sub_ and isinstance(sub_[0], ast.stmt) and not isinstance(st, (ast.FunctionDef, ast.AsyncFunctionDef, ast.ClassDef)):
                setattr(st, field, _fuse_block(sub_))
        for h in getattr(st, 'handlers', []) or []:
            h.body = _fuse_block(h.body)
        if out:
            fused = _as_comprehension(out[-1], st)
            if fused is not None:
                out[-1] = fused
                continue
        out.append(st)
    return out


def prepare(stmts: T.List[ast.stmt]) -> T.List[ast.stmt]:
    out: T.List[ast.stmt] = []
    for s in _fuse_block([copy.deepcopy(x) for x in stmts]):
        r = _Prep().visit(s)
        out.append(r)
    return out


# ---------------------------------------------------------------------------
_COMPS = (ast.ListComp, ast.SetComp, ast.GeneratorExp, ast.DictComp)

# ---------------------------------------------------------------------------
# call canonicalisation: arguments are bound to the callee's parameters by signature, so that
# `f(a, b)`, `f(a, y=b)` and `f(x=a, y=b)` (and `Class.m(self, a)` / `self.m(a)`) print the same.
_SIGS: T.Dict[str, T.Optional[T.Tuple[T.Tuple[str, ...], T.Tuple[str, ...]]]] = {}
_CLASSES: T.Set[str] = set()
_SIG_KEY: T.Tuple[str, ...] = ()


def set_signatures(*mods: T.Any) -> None:
    """Signatures of the functions / methods of the analysed modules, by callee name; a name defined with
    different parameter lists is ambiguous and its calls are left as written."""
    global _SIG_KEY
    key = tuple(f'{m.rel}:{m.digest}' for m in mods)
    if key == _SIG_KEY:
        return
    _SIGS.clear()
    _CLASSES.clear()
    for m in mods:
        _CLASSES.update(q for q in m.classes() if '.' not in q)
        for q, f in m.funcs().items():
            a = f.args
            pos = [p.arg for p in a.posonlyargs + a.args]
            static = any((d.attr if isinstance(d, ast.Attribute) else getattr(d, 'id', '')) == 'staticmethod' for d in f.decorator_list)
            if '.' in q and pos and pos[0] in ('self', 'cls') and not static:
                pos = pos[1:]
            if a.vararg or a.kwarg:
                sig = None
            else:
                sig = (tuple(pos), tuple(p.arg for p in a.kwonlyargs))
            name = f.name
            if name in _SIGS and _SIGS[name] != sig:
                _SIGS[name] = None
            else:
                _SIGS[name] = sig
    _SIG_KEY = key


def canon_call(c: ast.Call) -> ast.Call:
    f = c.func
    if isinstance(f, ast.Attribute) and isinstance(f.value, ast.Name) and f.value.id in _CLASSES and c.args and isinstance(c.args[0], ast.Name) and c.args[0].id == 'self':
        c = ast.Call(func=ast.Attribute(value=c.args[0], attr=f.attr, ctx=ast.Load()), args=list(c.args[1:]), keywords=list(c.keywords))
        f = c.func
    name = f.attr if isinstance(f, ast.Attribute) else (f.id if isinstance(f, ast.Name) else None)
    sig = _SIGS.get(name) if name else None
    if sig is None or not c.keywords:
        return c
    pos, kwonly = sig
    if any(isinstance(a, ast.Starred) for a in c.args) or any(k.arg is None for k in c.keywords) or len(c.args) > len(pos):
        return c
    bound: T.Dict[str, ast.AST] = dict(zip(pos, c.args))
    for k in c.keywords:
        if k.arg in bound or (k.arg not in pos and k.arg not in kwonly):
            return c
        bound[k.arg] = k.value  # type: ignore[index]
    args: T.List[ast.AST] = []
    for p in pos:
        if p in bound:
            args.append(bound[p])
        else:
            break
    rest = [p for p in list(pos[len(args):]) + list(kwonly) if p in bound]
    kws = [ast.keyword(arg=p, value=bound[p]) for p in rest]
    if len(args) == len(c.args) and [k.arg for k in kws] == [k.arg for k in c.keywords]:
        return c
    return ast.Call(func=c.func, args=args, keywords=kws)



def _bound_names(t: ast.AST) -> T.Set[str]:
    return {x.id for x in ast.walk(t) if isinstance(x, ast.Name)}


def fsub(env: T.Dict[str, ast.AST], e: T.Any, blocked: T.FrozenSet[str] = frozenset()) -> T.Any:
    """Functional substitution: loaded local names are replaced by their current definition (shared, never
    copied; nothing mutates these trees afterwards), comprehension / lambda scopes are respected and
    `T.cast(t, x)` is read as `x`.  Returns `e` itself when nothing changes."""
    if isinstance(e, ast.Name):
        if isinstance(e.ctx, ast.Load) and e.id in env and e.id not in blocked:
            return env[e.id]
        return e
    if isinstance(e, ast.Constant) or not isinstance(e, ast.AST):
        return e
    if isinstance(e, ast.Call) and len(e.args) == 2 and not e.keywords:
        f = e.func
        if (isinstance(f, ast.Attribute) and f.attr == 'cast' and isinstance(f.value, ast.Name) and f.value.id in ('T', 'typing')) or \
                (isinstance(f, ast.Name) and f.id == 'cast'):
            return fsub(env, e.args[1], blocked)
    if isinstance(e, (ast.FunctionDef, ast.AsyncFunctionDef, ast.ClassDef)):
        return e
    if isinstance(e, _COMPS):
        bound: T.Set[str] = set()
        for g in e.generators:
            bound |= _bound_names(g.target)
        inner = blocked | bound
        gens = []
        for i, g in enumerate(e.generators):
            gens.append(ast.comprehension(target=g.target, iter=fsub(env, g.iter, blocked if i == 0 else inner),
                                          ifs=[fsub(env, x, inner) for x in g.ifs], is_async=g.is_async))
        if isinstance(e, ast.DictComp):
            return ast.DictComp(key=fsub(env, e.key, inner), value=fsub(env, e.value, inner), generators=gens)
        return e.__class__(elt=fsub(env, e.elt, inner), generators=gens)
    if isinstance(e, ast.Lambda):
        bound = {a.arg for a in e.args.posonlyargs + e.args.args + e.args.kwonlyargs}
        return ast.Lambda(args=e.args, body=fsub(env, e.body, blocked | bound))
    changed = False
    vals: T.Dict[str, T.Any] = {}
    for name, old in ast.iter_fields(e):
        if isinstance(old, list):
            new_l = [fsub(env, x, blocked) for x in old]
            if any(a is not b for a, b in zip(new_l, old)):
                changed = True
            vals[name] = new_l
        elif isinstance(old, ast.AST):
            nv = fsub(env, old, blocked)
            if nv is not old:
                changed = True
            vals[name] = nv
        else:
            vals[name] = old
    if not changed:
        return canon_call(e) if isinstance(e, ast.Call) else e
    node = e.__class__(**vals)
    if isinstance(node, ast.Call):
        node = canon_call(node)
    return ast.copy_location(node, e) if hasattr(e, 'lineno') else node


def sub(env: T.Dict[str, ast.AST], e: ast.AST) -> ast.AST:
    return fsub(env, e)


def param_env(fn: T.Union[ast.FunctionDef, ast.AsyncFunctionDef]) -> T.Dict[str, ast.AST]:
    out: T.Dict[str, ast.AST] = {}
    i = 0
    for a in fn.args.posonlyargs + fn.args.args:
        if a.arg in ('self', 'cls'):
            continue
        i += 1
        out[a.arg] = ast.Name(id=f'ARG{i}', ctx=ast.Load())
    for a in fn.args.kwonlyargs:
        out[a.arg] = ast.Name(id=f'ARG_{a.arg}', ctx=ast.Load())
    return out


def _is_empty_container(v: ast.AST) -> bool:
    if isinstance(v, (ast.Dict, ast.List, ast.Set)) and not getattr(v, 'keys', None) and not getattr(v, 'elts', None):
        return True
    if isinstance(v, ast.Call) and not v.args and not v.keywords:
        f = v.func
        name = f.attr if isinstance(f, ast.Attribute) else (f.id if isinstance(f, ast.Name) else '')
        return name in EMPTY_CTORS
    return False


class Fx:
    """One ordered effect of a path.  kind: call | store | augstore | del | new | let | opaque | iter | with | except | expr."""
    __slots__ = ('kind', '_text', 'node', 'src')

    def __init__(self, kind: str, text: T.Union[str, T.Callable[[], str]], node: T.Any, src: T.Any):
        self.kind = kind
        self._text = text
        self.node = node      # substituted node(s): Call / (target, value) / ...
        self.src = src        # original statement (positions kept)

    @property
    def text(self) -> str:
        if not isinstance(self._text, str):
            self._text = self._text()
        return self._text

    def __repr__(self) -> str:
        return f'<{self.kind} {self.text}>'


class SRow:
    def __init__(self) -> None:
        self.conds: T.Dict[Atom, bool] = {}
        self.trace: T.List[T.Tuple[str, T.Any, T.Any]] = []   # ('cond', atom, val) | ('fx', Fx, None)
        self.fx: T.List[Fx] = []
        self.outcome: T.Tuple[T.Any, ...] = ('fall',)
        self.value: T.Optional[ast.AST] = None      # substituted return value / raised expression
        self.path: T.Optional[Path] = None
        self.env: T.Dict[str, ast.AST] = {}

    def effects(self, *kinds: str) -> T.List[Fx]:
        return [f for f in self.fx if f.kind in kinds] if kinds else list(self.fx)

    def texts(self, *kinds: str) -> T.List[str]:
        return [f.text for f in self.effects(*kinds)]

    def __repr__(self) -> str:
        cs = ' & '.join(('' if v else 'not ') + repr(a) for a, v in self.conds.items()) or 'always'
        eff = '; '.join(f.text for f in self.fx if f.kind not in ('let',))
        return f'{cs} => {" ".join(str(x) for x in self.outcome)}' + (f' {{{eff}}}' if eff else '')


def number_loops(stmts: T.List[ast.stmt]) -> T.Dict[int, int]:
    out: T.Dict[int, int] = {}
    for s in stmts:
        for n in walk_no_nested(s):
            if isinstance(n, (ast.For, ast.AsyncFor)) and id(n) not in out:
                out[id(n)] = len(out) + 1
    return out


def bind_targets(env: T.Dict[str, ast.AST], target: ast.AST, value: ast.AST) -> None:
    """env[target] = value, positionally for tuple targets."""
    if isinstance(target, ast.Name):
        env[target.id] = value
    elif isinstance(target, (ast.Tuple, ast.List)):
        if isinstance(value, (ast.Tuple, ast.List)) and len(value.elts) == len(target.elts) and not any(isinstance(x, ast.Starred) for x in value.elts):
            for t, v in zip(target.elts, value.elts):
                bind_targets(env, t, v)
        else:
            for i, t in enumerate(target.elts):
                bind_targets(env, t, ast.Subscript(value=value, slice=ast.Constant(value=i), ctx=ast.Load()))
    elif isinstance(target, ast.Starred):
        bind_targets(env, target.value, value)


def loop_symbols(env: T.Dict[str, ast.AST], target: ast.AST, k: T.Union[int, str]) -> None:
    if isinstance(target, ast.Name):
        env[target.id] = ast.Name(id=f'ELEM{k}', ctx=ast.Load())
    elif isinstance(target, (ast.Tuple, ast.List)):
        for i, t in enumerate(target.elts):
            loop_symbols(env, t, f'{k}_{i}')


def trivial(a: Atom) -> T.Optional[bool]:
    if a.kind == 'is' and a.args[0] == a.args[1]:
        return True
    if a.kind == 'cmp' and a.args[1] == a.args[2]:
        return a.args[0] == 'eq'
    if a.kind == 'is' and a.args[1] == 'None':
        try:
            e = ast.parse(a.args[0], mode='eval').body
        except SyntaxError:
            return None
        if isinstance(e, (ast.Constant, ast.Dict, ast.List, ast.Tuple, ast.Set, ast.JoinedStr)):
            return isinstance(e, ast.Constant) and e.value is None
    return None


class Sym:
    """Def-use substitution along the enumerated paths of a statement list (nothing is executed)."""

    def __init__(self, fn: T.Union[ast.FunctionDef, ast.AsyncFunctionDef], *, opaque: T.Iterable[str] = (),
                 pure: T.Iterable[str] = (), unroll: int = 1, handlers: bool = False, entered_only: bool = False,
                 max_paths: int = 20000):
        self.fn = fn
        self.opaque = set(opaque)
        self.pure = set(PURE_CALLS) | set(pure)
        self.unroll = unroll
        self.handlers = handlers
        self.entered_only = entered_only
        self.max_paths = max_paths

    # -- statement effects ----------------------------------------------------
    def step(self, st: ast.AST, env: T.Dict[str, ast.AST], row: SRow) -> None:
        def fx(kind: str, text: T.Any, node: T.Any) -> None:
            f = Fx(kind, text, node, st)
            row.fx.append(f)
            row.trace.append(('fx', f, None))

        def assign(target: ast.AST, value: ast.AST) -> None:
            if isinstance(target, ast.Name):
                if target.id in self.opaque:
                    fx('opaque', lambda: f'{target.id} := {norm(value)}', (target.id, value))
                    return
                if _is_empty_container(value) or isinstance(value, (ast.Dict, ast.List, ast.Set)):
                    # a container object: later mutations (update/append) refer to it by name
                    env.pop(target.id, None)
                    fx('new', lambda: f'{target.id} := {norm(value)}', (target.id, value))
                    return
                env[target.id] = value
                fx('let', lambda: f'{target.id} = {norm(value)}', (target.id, value))
            elif isinstance(target, (ast.Tuple, ast.List)):
                tmp: T.Dict[str, ast.AST] = {}
                bind_targets(tmp, target, value)
                for t in ast.walk(target):
                    if isinstance(t, (ast.Subscript, ast.Attribute)) and isinstance(t.ctx, ast.Store):
                        raise Undecided(f'unpacking into a store target: {short(st)}')
                for k, v in tmp.items():
                    assign(ast.Name(id=k, ctx=ast.Store()), v)
            else:
                tt = sub(env, target)
                fx('store', lambda: f'{norm(tt)} := {norm(value)}', (tt, value))

        if isinstance(st, ast.Assign):
            v = sub(env, st.value)
            for t in st.targets:
                assign(t, v)
        elif isinstance(st, ast.AnnAssign):
            if st.value is not None:
                assign(st.target, sub(env, st.value))
        elif isinstance(st, ast.AugAssign):
            v = sub(env, st.value)
            if isinstance(st.target, ast.Name):
                name = st.target.id
                cur: ast.AST = ast.Name(id=name, ctx=ast.Load())
                if name not in self.opaque:
                    cur = env.get(name, cur)
                assign(st.target, ast.BinOp(left=cur, op=st.op, right=v))
            else:
                tt = sub(env, st.target)
                fx('augstore', lambda: f'{norm(tt)} {st.op.__class__.__name__}= {norm(v)}', (tt, st.op, v))
        elif isinstance(st, ast.Expr):
            v = sub(env, st.value)
            if isinstance(v, ast.Call):
                fx('call', lambda: norm(v), v)
            elif not isinstance(v, ast.Constant):
                fx('expr', lambda: norm(v), v)
        elif isinstance(st, ast.Delete):
            for t in st.targets:
                tt = sub(env, t)
                if isinstance(t, ast.Name):
                    env.pop(t.id, None)
                fx('del', (lambda tt=tt: f'del {norm(tt)}'), tt)
        elif isinstance(st, (ast.Return, ast.Raise, ast.Pass, ast.Global, ast.Nonlocal, ast.Import, ast.ImportFrom,
                             ast.FunctionDef, ast.AsyncFunctionDef, ast.ClassDef)):
            pass
        else:
            raise Undecided(f'statement kind outside the subset the def-use walk understands: {short(st)}')

    # -- whole paths ------------------------------------------------------------
    def rows(self, body: T.Optional[T.List[ast.stmt]] = None, env0: T.Optional[T.Dict[str, ast.AST]] = None,
             prepared: bool = False) -> T.List[SRow]:
        stmts = body if body is not None else self.fn.body
        if not prepared:
            stmts = prepare(stmts)
        loops = number_loops(stmts)
        en = Enumerator(unroll=self.unroll, handlers=self.handlers, pure=self.pure, max_paths=self.max_paths)
        out: T.List[SRow] = []
        base = param_env(self.fn)
        if env0:
            base.update(env0)
        for p in en.run(stmts):
            r = self.propagate(p, dict(base), loops)
            if r is not None:
                out.append(r)
        return out

    def propagate(self, p: Path, env: T.Dict[str, ast.AST], loops: T.Dict[int, int]) -> T.Optional[SRow]:
        row = SRow()
        row.path = p
        seen_loops: T.Set[int] = set()
        fresh: T.Set[str] = set()     # locals bound to an empty container that nothing has touched yet
        for ev in p.events:
            if ev.kind == 'cond':
                a, v = canon(sub(env, ev.node), ev.val)
                tv = trivial(a)
                if tv is None and a.kind == 'truth' and a.args[0] in fresh:
                    tv = False
                if tv is not None:
                    if tv != v:
                        return None
                    continue
                if a in row.conds:
                    if row.conds[a] != v:
                        return None   # same canonical expression = same value (see module docstring)
                else:
                    row.conds[a] = v
                row.trace.append(('cond', a, v))
            elif ev.kind == 'iter':
                st = ev.node
                assert st is not None
                if id(st) not in seen_loops:
                    seen_loops.add(id(st))
                    if self.entered_only and ev.val == 'done':
                        return None
                if ev.val == 'iter':
                    k = loops.get(id(st), 0)
                    it = sub(env, st.iter)  # type: ignore[attr-defined]
                    loop_symbols(env, st.target, k)  # type: ignore[attr-defined]
                    f = Fx('iter', (lambda k=k, it=it: f'for ELEM{k} in {norm(it)}'), (k, it), st)
                    row.fx.append(f)
                    row.trace.append(('fx', f, None))
            elif ev.kind == 'with':
                for item in ev.node.items:  # type: ignore[union-attr]
                    v = sub(env, item.context_expr)
                    if item.optional_vars is not None:
                        bind_targets(env, item.optional_vars, v)
                    f = Fx('with', (lambda v=v: norm(v)), v, ev.node)
                    row.fx.append(f)
                    row.trace.append(('fx', f, None))
            elif ev.kind == 'exc':
                h = ev.node
                nm = getattr(h, 'name', None)
                if nm:
                    env[nm] = ast.Name(id=f'EXC_{norm(h.type) if h.type is not None else "any"}', ctx=ast.Load())  # type: ignore[union-attr]
                f = Fx('except', norm(h.type) if h.type is not None else '<bare>', h, h)  # type: ignore[union-attr]
                row.fx.append(f)
                row.trace.append(('fx', f, None))
            elif ev.kind == 'stmt':
                assert ev.node is not None
                n0 = len(row.fx)
                self.step(ev.node, env, row)
                created = {f.node[0] for f in row.fx[n0:] if f.kind == 'new' and _is_empty_container(f.node[1])}
                if fresh:
                    fresh -= {n.id for n in ast.walk(ev.node) if isinstance(n, ast.Name)} - created
                fresh |= created
            if fresh and ev.kind in ('iter', 'with') and ev.node is not None:
                hdr = ev.node.iter if ev.kind == 'iter' else ev.node  # type: ignore[attr-defined]
                fresh -= {n.id for n in ast.walk(hdr) if isinstance(n, ast.Name)}
        # exclusivity of x == c1 / x == c2
        eqs: T.Dict[str, T.Set[str]] = {}
        for a, v in row.conds.items():
            if a.kind == 'cmp' and a.args[0] == 'eq' and v and tables._is_const_text(a.args[2]):
                s = eqs.setdefault(a.args[1], set())
                s.add(a.args[2])
                if len(s) > 1:
                    return None
        if p.outcome == 'return':
            row.value = sub(env, p.value) if p.value is not None else ast.Constant(value=None)
            row.outcome = ('return', norm(row.value))
        elif p.outcome == 'raise':
            exc = p.value
            if exc is None:
                row.outcome = ('raise', '<reraise>')
            else:
                row.value = sub(env, exc)
                cls = row.value.func if isinstance(row.value, ast.Call) else row.value
                row.outcome = ('raise', norm(cls))
        else:
            row.outcome = (p.outcome,)
        row.env = env
        return row


def to_table(rows: T.List[SRow], name: str) -> tables.Table:
    out = []
    for r in rows:
        tr = tables.Row(dict(r.conds), r.outcome, tuple(f.text for f in r.fx if f.kind != 'let'), r.path)  # type: ignore[arg-type]
        tr.srow = r  # type: ignore[attr-defined]
        out.append(tr)
    return tables.Table(out, name)


def is_free(a: Atom) -> bool:
    """Atoms the world enumerator handles consistently on its own: type tests on builtins, and equality with a
    constant (worlds with two different constants equal to the same expression are excluded by the enumerator)."""
    if a.kind == 'cmp' and a.args[0] == 'eq' and tables._is_const_text(a.args[2]):
        return True
    return a.kind == 'isinstance' and all(t in tables.BUILTIN_TYPES or t == 'float' for t in a.args[1])


def compare(ctx: T.Any, mod: T.Any, qn: str, fn: ast.AST, tab: tables.Table, sem: T.Dict[Atom, str],
            view: T.Callable[[T.Dict[Atom, bool]], T.Any], ref: T.Callable[[T.Any], T.Any],
            got: T.Callable[[tables.Row], T.Any], extra: T.Iterable[Atom] = (), what: str = 'reference') -> bool:
    """Compare a table with a reference denotation on every world of its atoms.

    Atoms outside the vocabulary are enumerated as free booleans; a disagreement in a row that tests such an
    atom is *undecided* (the world may be infeasible), every other disagreement is a violation."""
    unknown = [a for a in tab.atoms() if a not in sem and not is_free(a)]
    n = 0
    bad: T.Dict[str, T.Any] = {}
    for w in tab.worlds(extra):
        v = view(w)
        if v is None:
            continue
        want = ref(v)
        if want is None:
            continue
        rows = tab.fire(w)
        n += 1
        if not rows:
            raise Undecided(f'{qn}: no row fires in world { {repr(a): x for a, x in w.items()} }')
        gs = [got(r) for r in rows]
        if any(x != gs[0] for x in gs[1:]):
            # rows that differ only in what the atoms do not see (e.g. a loop body run or not) must agree
            raise Undecided(f'{qn}: {len(rows)} rows with different outcomes fire in world { {repr(a): x for a, x in w.items()} }')
        g = gs[0]
        if g != want:
            if any(a in rows[0].conds for a in unknown):
                raise Undecided(f'{qn}: row `{rows[0]!r}` disagrees with the {what} but tests atoms outside the vocabulary: {unknown}')
            bad.setdefault(repr(rows[0]), (rows[0], g, want, {sem.get(a, repr(a)): x for a, x in w.items() if a in rows[0].conds}))
    for key, (row, g, want, vw) in bad.items():
        node = None
        if row.path is not None and row.path.events:
            node = row.path.events[-1].node
        ctx.violation(mod, qn, key, f'row `{short(key, 200)}` yields {g!r}; the {what} requires {want!r} (e.g. for {vw})', node if node is not None else fn)
    if not bad:
        ctx.ok(f'{qn}: {len(tab.rows)} rows agree with the {what} on {n} worlds')
    if unknown:
        ctx.note(f'{qn}: atoms outside the vocabulary treated as free: {unknown}')
    ctx.note(f'{qn}: table {tab.dump()}')
    return not bad


# ---------------------------------------------------------------------------
class Loop(T.NamedTuple):
    node: ast.For
    iter: ast.AST                      # substituted iterable expression
    env: T.Dict[str, ast.AST]          # environment at loop entry, loop targets bound to KEY / VAL (or ELEM)
    index: int
    sym: T.Any = None                  # the Sym of the function the loop is written in (a helper when inlined)


def _resolve_helper(mod: T.Any, cls: T.Optional[str], call: ast.Call) -> T.Optional[T.Tuple[str, T.Any]]:
    """`self.h(...)`, `cls.h(...)`, `Class.h(...)` -> method h of the class; `h(...)` -> module function h."""
    f = call.func
    if isinstance(f, ast.Attribute) and isinstance(f.value, ast.Name) and cls is not None and f.value.id in ('self', 'cls', cls):
        q = f'{cls}.{f.attr}'
    elif isinstance(f, ast.Name):
        q = f.id
    else:
        return None
    if mod is None or not mod.has_func(q):
        return None
    return q, mod.func(q)


def _bind_call(callee: T.Any, call: ast.Call, env: T.Dict[str, ast.AST]) -> T.Optional[T.Dict[str, ast.AST]]:
    """parameter -> (substituted) argument expression of the call; None when the binding is not plain"""
    a = callee.args
    if a.vararg or a.kwarg or any(isinstance(x, ast.Starred) for x in call.args) or any(k.arg is None for k in call.keywords):
        return None
    params = [p.arg for p in a.posonlyargs + a.args]
    static = any((attr.attr if isinstance(attr, ast.Attribute) else getattr(attr, 'id', '')) == 'staticmethod' for attr in callee.decorator_list)
    if params and params[0] in ('self', 'cls') and not static and isinstance(call.func, ast.Attribute):
        params = params[1:]
    if len(call.args) > len(params):
        return None
    out: T.Dict[str, ast.AST] = {}
    for p_, x in zip(params, call.args):
        out[p_] = sub(env, x)
    names = params + [p.arg for p in a.kwonlyargs]
    for k in call.keywords:
        if k.arg not in names or k.arg in out:
            return None
        out[k.arg] = sub(env, k.value)
    defaults = dict(zip(reversed([p.arg for p in a.posonlyargs + a.args]), reversed(a.defaults)))
    for p_, d in zip(a.kwonlyargs, a.kw_defaults):
        if d is not None:
            defaults[p_.arg] = d
    for n in names:
        if n not in out:
            if n not in defaults:
                return None
            out[n] = defaults[n]
    return out


def _walkable(stmts: T.List[ast.stmt]) -> bool:
    """a helper is inlined only when its own top level is simple statements and for-loops, without return value"""
    for st in stmts:
        if isinstance(st, (ast.If, ast.While, ast.Try, ast.With, ast.Raise, ast.AsyncFor, ast.AsyncWith)):
            return False
        if isinstance(st, ast.Return) and st.value is not None:
            return False
    return True


def straight_line(sym: Sym, fn: T.Union[ast.FunctionDef, ast.AsyncFunctionDef], qn: str, mod: T.Any = None,
                  cls: T.Optional[str] = None) -> T.Tuple[T.List[T.Tuple[str, T.Any]], T.Dict[str, ast.AST]]:
    """Walk a function whose top level is simple statements and `for` loops, propagating definitions.

    Returns the ordered items ('fx', Fx) / ('loop', Loop) / ('block', ...) / ('return', node) and the final environment.
    Two structural normalisations keep the item sequence stable under common refactorings:
      * an expression statement calling a helper of the same class / module (given `mod`, `cls`) whose own top level
        is walkable is replaced by the helper's items, its parameters standing for the argument expressions
        (two levels deep at most);
      * `for s in (A, B): <body>` over a tuple/list *display* is the body once per element of the display, in order
        (a finite domain the source declares; nothing is iterated at analysis time beyond the display's elements).
    """
    items: T.List[T.Tuple[str, T.Any]] = []
    counter = [0]
    kwargs = dict(opaque=sym.opaque, pure=sym.pure, unroll=sym.unroll, handlers=sym.handlers, entered_only=sym.entered_only, max_paths=sym.max_paths)

    def forget(st: ast.AST, env: T.Dict[str, ast.AST], tag: str) -> None:
        for n in walk_no_nested(st):
            if isinstance(n, ast.Name) and isinstance(n.ctx, ast.Store) and n.id in env:
                env[n.id] = ast.Name(id=f'{n.id}@{tag}', ctx=ast.Load())

    def walk(stmts: T.List[ast.stmt], env: T.Dict[str, ast.AST], cur: Sym, where: str, depth: int) -> bool:
        """False when a return ended the walk"""
        for st in stmts:
            if isinstance(st, ast.Expr) and isinstance(st.value, ast.Constant):
                continue  # docstring
            if isinstance(st, (ast.For, ast.AsyncFor)):
                if st.orelse:
                    raise Undecided(f'{where}: for/else at top level')
                if isinstance(st.iter, (ast.Tuple, ast.List)) and isinstance(st.target, ast.Name) and not any(isinstance(x, ast.Starred) for x in st.iter.elts):
                    for e in st.iter.elts:
                        env2 = dict(env)
                        env2[st.target.id] = sub(env, e)
                        if not walk(st.body, env2, cur, where, depth):
                            raise Undecided(f'{where}: return inside a loop over a display')
                    forget(st, env, f'after_loop{counter[0]}')
                    continue
                counter[0] += 1
                k = counter[0]
                it = sub(env, st.iter)
                lenv = dict(env)
                t = st.target
                if isinstance(t, ast.Tuple) and len(t.elts) == 2 and all(isinstance(x, ast.Name) for x in t.elts):
                    lenv[t.elts[0].id] = ast.Name(id='KEY', ctx=ast.Load())  # type: ignore[attr-defined]
                    lenv[t.elts[1].id] = ast.Name(id='VAL', ctx=ast.Load())  # type: ignore[attr-defined]
                elif isinstance(t, ast.Name):
                    lenv[t.id] = ast.Name(id='KEY', ctx=ast.Load())
                else:
                    raise Undecided(f'{where}: loop target {short(t)}')
                items.append(('loop', Loop(st, it, lenv, k, cur)))  # type: ignore[arg-type]
                forget(st, env, f'after_loop{k}')
                continue
            if isinstance(st, ast.Return):
                items.append(('return', sub(env, st.value) if st.value is not None else None))
                return False
            if isinstance(st, (ast.If, ast.While, ast.Try, ast.With, ast.Raise)):
                items.append(('block', (st, dict(env))))
                forget(st, env, 'after_block')
                for n in walk_no_nested(st):
                    if isinstance(n, ast.Name) and isinstance(n.ctx, ast.Store) and n.id not in env:
                        env[n.id] = ast.Name(id=f'{n.id}@after_block', ctx=ast.Load())
                continue
            if isinstance(st, ast.Expr) and isinstance(st.value, ast.Call) and depth < 2:
                h = _resolve_helper(mod, cls, st.value)
                if h is not None and h[1] is not cur.fn:
                    body = prepare(h[1].body)
                    binding = _bind_call(h[1], st.value, env)
                    if binding is not None and _walkable(body):
                        walk(body, binding, Sym(h[1], **kwargs), f'{where} -> {h[0]}', depth + 1)
                        continue
            row = SRow()
            cur.step(st, env, row)
            for f in row.fx:
                items.append(('fx', f))
        return True

    env0 = param_env(fn)
    walk(prepare(fn.body), env0, sym, qn, 0)
    return items, env0


def chain_sources(it: ast.AST) -> T.List[ast.AST]:
    """`itertools.chain(A.items(), B.items())` -> [A, B];  `A.items()` -> [A]."""
    def one(e: ast.AST) -> ast.AST:
        if isinstance(e, ast.Call) and isinstance(e.func, ast.Attribute) and e.func.attr == 'items' and not e.args:
            return e.func.value
        raise Undecided(f'loop does not iterate over the items of a mapping: {short(e)}')
    while isinstance(it, ast.Call) and isinstance(it.func, ast.Name) and it.func.id in ('list', 'tuple', 'iter') and len(it.args) == 1 and not it.keywords:
        it = it.args[0]   # materialising the sequence does not change its order
    if isinstance(it, ast.Call):
        f = it.func
        name = f.attr if isinstance(f, ast.Attribute) else (f.id if isinstance(f, ast.Name) else '')
        if name == 'chain' and not it.keywords:
            return [one(a) for a in it.args]
    return [one(it)]
